"""C15 - PRNG is deterministic in its entropy, forward secure, reseeds and reports status."""
import os, random, time, collections
import common, diffrun, gen, stdflow
from common import hx, rnd_bytes


# storage descriptors offered to save_seed / load_seed
SIZES = [32, 32, 33, 64, 4096]
SMALL_SIZES = [31, 31, 0, 16]
PAGES = [1, 1, 4, 32, 64, 256]
ERASES = [0, 0, 1, 32, 4096]
ADDRS = [0, 0, 256, 4096, 61440]


def session(rng, tier, stats):
    ops = []
    nsys = [0]

    def sys(ok=None):
        ok = (rng.random() < 0.8) if ok is None else ok
        kind = rng.choice(["rand", "rand", "zero", "ff"])
        b = gen.patterned(rng, 32, kind)
        ops.append("TRNG SYS %s %d" % (hx(b), 1 if ok else 0))
        nsys[0] += 1

    body = ["RN INIT", "RN STATE"]
    need = 1
    counter = 0
    for _ in range(rng.randrange(3, 10)):
        k = rng.choice(["fetch", "fetch", "fetch", "feed", "reseed", "save", "load", "oneshot"])
        stats["ops"][k] += 1
        if k == "fetch":
            n = rng.choice([0, 1, 7, 8, 9, 100, 16383, 16384, 20000] if tier == "thorough" else [0, 1, 7, 8, 9, 100, 16383, 16384, 4000, 12000])
            if counter >= 16384:
                need += 1; counter = 0
            counter = counter + n if n < 16384 else 16384
            body.append("RN FETCH %d" % n); stats["fetch"].append(n)
        elif k == "feed":
            body.append("RN FEED %s" % hx(rnd_bytes(rng, rng.choice([0, 1, 7, 8, 9, 32, 100]))))
        elif k == "reseed":
            body.append("RN RESEED"); need += 1; counter = 0
        elif k in ("save", "load"):
            mode = rng.choice(["ok", "ok", "short", "long", "fail", "small", "null"])
            stats["storage"][k + "-" + mode] += 1
            if mode == "null":
                body.append("RN %s NULL" % k.upper())
            else:
                # storage geometry (ascon_storage_t): region size around the 32-byte seed, page size (minimum writable unit), erase block size
                # (0 = no erase needed -> the write callback must be called with erase = 0, otherwise with erase != 0), base address, partial writes
                size = rng.choice(SMALL_SIZES) if mode == "small" else rng.choice(SIZES)
                page, erase, addr, partial = rng.choice(PAGES), rng.choice(ERASES), rng.choice(ADDRS), rng.choice([0, 1])
                geo = stats.setdefault("geometry", collections.Counter())
                for key in ("size=%d" % size, "page=%d" % page, "erase_size=%d" % erase, "address=%d" % addr, "partial_writes=%d" % partial):
                    geo[key] += 1
                bad = {"short": [0, 5, 31], "long": [33, 64], "fail": [-1]}
                rr = wr = 32
                if mode in bad:
                    rr, wr = rng.choice(bad[mode]), rng.choice(bad[mode])
                    if rng.random() < 0.5:
                        # the two callbacks fail independently: a failed read followed by a good write (and the reverse)
                        if rng.random() < 0.5:
                            wr = 32
                        else:
                            rr = 32
                        stats["storage"][k + "-mixed"] += 1
                data = rnd_bytes(rng, rng.choice([32, 32, 40]))
                body.append("RN %s %d %d %s %d %d %d %d %d" % (k.upper(), size, rr, hx(data), wr, page, erase, addr, partial))
                if mode not in ("small",):
                    if k == "save":
                        if counter >= 16384:
                            need += 1; counter = 0
                        counter += 32
                    else:
                        need += 1; counter = 32
        else:
            body.append("RN ONESHOT %d" % rng.choice([0, 1, 20, 32, 33, 100])); need += 1
        body.append("RN STATE")
        body.append("RN CALLS")
    body.append("RN FREE")
    ops.append("TRNG SYSCLEAR")
    for _ in range(need + 2):
        sys()
    # SYSCLEAR must come first
    ops = ["TRNG SYSCLEAR"] + ops[1:]
    return ops + body


def storage_sessions(rng, stats):
    """Directed: every region size x erase-block size x partial-write flag of the lists above (page size and address cycling through
    theirs), each with a save and a load on one generator, the read / write results cycling through good, short, long and failing ones.
    The result line of SAVE / LOAD carries the calls the callbacks received (R:<offset>:<length>, W:<offset>:<length>:<erase>:<bytes>)."""
    out = []
    k = 0
    results = [(32, 32), (32, 32), (31, 32), (32, 31), (33, 32), (32, 33), (-1, 32), (32, -1), (0, 0), (64, 64)]
    for size in sorted(set(SIZES + SMALL_SIZES)):
        for erase in sorted(set(ERASES)):
            for partial in (0, 1):
                page, addr = sorted(set(PAGES))[k % len(set(PAGES))], sorted(set(ADDRS))[k % len(set(ADDRS))]
                (rr, wr), (rr2, wr2) = results[k % len(results)], results[(k + 3) % len(results)]
                k += 1
                geo = "%d %d %d %d" % (page, erase, addr, partial)
                first, second = ("SAVE", "LOAD") if k % 2 else ("LOAD", "SAVE")
                ops = ["TRNG SYSCLEAR"] + ["TRNG SYS %s %d" % (hx(rnd_bytes(rng, 32)), 1) for _ in range(4)]
                ops += ["RN INIT", "RN %s %d %d %s %d %s" % (first, size, rr, hx(rnd_bytes(rng, 32)), wr, geo), "RN STATE",
                        "RN %s %d %d %s %d %s" % (second, size, rr2, hx(rnd_bytes(rng, 32)), wr2, geo), "RN STATE", "RN CALLS", "RN FETCH 8", "RN FREE"]
                out.append(ops)
                g = stats.setdefault("geometry", collections.Counter())
                for key in ("size=%d" % size, "page=%d" % page, "erase_size=%d" % erase, "address=%d" % addr, "partial_writes=%d" % partial):
                    g[key] += 2
    return out


def c19_fill(n, seed, k):
    """harness/c19_rand.h: what the shim's getrandom returns for the k-th request under seed"""
    M = (1 << 64) - 1
    x = (seed * 0x9E3779B97F4A7C15 + k * 0xD1342543DE82EF95 + 0x2545F4914F6CDD1D) & M
    out, z = bytearray(), 0
    for i in range(n):
        if i & 7 == 0:
            x = (x + 0x9E3779B97F4A7C15) & M
            z = x
            z = ((z ^ (z >> 30)) * 0xBF58476D1CE4E5B9) & M
            z = ((z ^ (z >> 27)) * 0x94D049BB133111EB) & M
            z ^= z >> 31
        out.append((z >> (8 * (i & 7))) & 255)
    return bytes(out)


def real_source_sessions(res, driver, b, rng, tier, stats):
    """The library's own system back end (src/random/ascon-trng-*.c), not the link-time substitute: the harness is linked without
    h_trng.cpp and runs under the LD_PRELOAD shim of the C19 check (getrandom/getentropy deterministic, the k-th request failing
    with EIO); the model gets the same answers scripted.  Status results and outputs must agree."""
    import subprocess
    got = b.get("default", harness_srcs=["main.cpp", "h_prng.cpp", "s_trngstub.cpp"], tag="-realtrng")
    if not got:
        return None
    shim = os.path.join(got[0], "shim_c19.so")
    common.sh(["gcc", "-shared", "-fPIC", "-O1", "-o", shim, os.path.join(common.VERIF, "harness", "shim_c19.c"), "-ldl"], check=True)
    n = 0
    nfail = 0
    for _ in range(24 if tier == "quick" else 200):
        ops = session(rng, tier, stats)
        body = [l for l in ops if l.startswith("RN ") and not l.startswith("RN CALLS")]
        need = sum(1 for l in ops if l.startswith("TRNG SYS "))
        rseed = rng.randrange(1, 1 << 40)
        faults = sorted(set(rng.randrange(0, need) for _ in range(rng.choice([0, 1, 1, 2, 3]))))
        script = ["TRNG SYSCLEAR"] + ["TRNG SYS %s %d" % (hx(bytes(32)) if k in faults else hx(c19_fill(32, rseed, k)), 0 if k in faults else 1) for k in range(need)]
        rc, mo, err = common.run_lines(driver, script + body)
        mo = mo[len(script):]
        env = dict(os.environ, LD_PRELOAD=shim, C19_RSEED=str(rseed), C19_FAULTS=",".join("g%d" % k for k in faults))
        p = subprocess.run([got[1]], input=("\n".join(body) + "\n").encode(), stdout=subprocess.PIPE, stderr=subprocess.PIPE, env=env, timeout=300)
        io = p.stdout.decode().split("\n")[:len(body)]
        n += 1
        nfail += len(faults)
        for i, (l, a, c) in enumerate(zip(body, mo, io)):
            if a != c:
                res.violation("real-source-" + "-".join(l.split()[:2]),
                              "with the library's own system source (getrandom request(s) %s failing with EIO, seed %d) the PRNG disagrees with the model on: %s\n model: %s\n impl:  %s"
                              % (faults, rseed, l, a[:200], c[:200]),
                              {"config": got[2], "ops": body[:i + 1], "model": mo[:i + 1], "impl": io[:i + 1], "rseed": rseed, "failing_requests": faults,
                               "how": "harness linked without h_trng.cpp, LD_PRELOAD=shim_c19.so C19_RSEED=<rseed> C19_FAULTS=g<k>,..; model: TRNG SYS script with c19_fill answers"})
                break
    return {"sessions": n, "failing_requests_injected": nfail, "config": got[2]}


def mixer_sessions(res, b, rng, tier):
    """The library's TRNG mixer (src/random/ascon-trng-mixer.c, the source of all masking randomness) on top of a scripted system
    source: harness built with -DVERIF_REAL_MIXER.  No model of the word values (they are raw backend words); checked: init and
    reseed report exactly the status of their one system request, the words are a function of the seeds alone (same script ->
    same words), a different seed or a different reseed seed changes them, no word stream repeats across the reseed."""
    got = b.get("default", harness_defs=("-DVERIF_REAL_MIXER",), tag="-realmixer")
    if not got:
        return None
    n = 0
    for _ in range(12 if tier == "quick" else 100):
        s1, s2, s3 = rnd_bytes(rng, 32), rnd_bytes(rng, 32), rnd_bytes(rng, 32)
        ok1, ok2 = rng.random() < 0.7, rng.random() < 0.7
        k = rng.choice([1, 5, 6, 13])
        def run(a, b_, o1, o2):
            lines = ["TRNG SYSCLEAR", "TRNG SYS %s %d" % (hx(a), o1), "TRNG SYS %s %d" % (hx(b_), o2), "MIX %d" % k]
            return common.run_lines(got[1], lines)[1][-1].split()
        r = run(s1, s2, ok1, ok2)
        again = run(s1, s2, ok1, ok2)
        other_seed = run(s3, s2, ok1, ok2)
        other_reseed = run(s1, s3, ok1, ok2)
        n += 4
        probs = []
        if len(r) != 5:
            probs.append("malformed answer %s" % r)
        else:
            if r[0] != str(int(ok1)) or r[1] != str(int(ok2)):
                probs.append("init/reseed reported %s/%s, the system source answered %d/%d" % (r[0], r[1], ok1, ok2))
            if "OVERLAP" in r[3]:
                probs.append("a 64-bit draw after three 32-bit draws repeats a word already handed out")
            if r[2] != "2":
                probs.append("%s system requests instead of 2" % r[2])
            if again != r:
                probs.append("the same seeds gave different words")
            if other_seed[3] == r[3]:
                probs.append("a different seed gave the same words")
            if other_reseed[4] == r[4] or other_reseed[3] != r[3]:
                probs.append("the reseed seed does not (only) influence the words after the reseed")
            if r[3][:16 * k] == r[4][:16 * k]:
                probs.append("the word stream repeats after the reseed")
        for pr in probs:
            res.violation("mixer-" + pr.split()[0], "ascon_trng_* mixer on a scripted system source (seeds %s.. / %s.., status %d/%d, %d words): %s"
                          % (hx(s1)[:16], hx(s2)[:16], ok1, ok2, k, pr),
                          {"config": got[2], "ops": ["TRNG SYSCLEAR", "TRNG SYS %s %d" % (hx(s1), ok1), "TRNG SYS %s %d" % (hx(s2), ok2), "MIX %d" % k], "impl": r,
                           "how": "harness built with -DVERIF_REAL_MIXER (only ascon_trng_generate is substituted)"})
    # every byte of the 32-byte system answer reaches the words: one bit flipped at each of the 32 positions of the init seed must change the
    # words after init, at each position of the reseed seed the words after the reseed (and only those)
    s1, s2 = rnd_bytes(rng, 32), rnd_bytes(rng, 32)
    def script(a, b_):
        return ["TRNG SYSCLEAR", "TRNG SYS %s 1" % hx(a), "TRNG SYS %s 1" % hx(b_), "MIX 5"]
    lines = script(s1, s2)
    variants = []
    for i in range(32):
        f = bytearray(s1); f[i] ^= 1 << rng.randrange(8); variants.append(("init", i, bytes(f), s2)); lines += script(bytes(f), s2)
        f = bytearray(s2); f[i] ^= 1 << rng.randrange(8); variants.append(("reseed", i, s1, bytes(f))); lines += script(s1, bytes(f))
    out = common.run_lines(got[1], lines)[1]
    mix = [o.split() for o in out[3::4]]
    n += len(mix)
    base = mix[0] if mix else []
    for (which, i, a, b_), r in zip(variants, mix[1:]):
        pr = None
        if len(r) != 5 or len(base) != 5:
            pr = "malformed answer %s" % r
        elif which == "init" and r[3] == base[3]:
            pr = "byte %d of the system seed given to ascon_trng_init does not influence the words handed out" % i
        elif which == "reseed" and (r[4] == base[4] or r[3] != base[3]):
            pr = "byte %d of the system seed given to ascon_trng_reseed does not (only) influence the words after the reseed" % i
        if pr:
            res.violation("mixer-seedbyte-%s" % which, "ascon_trng_* mixer on a scripted system source: " + pr,
                          {"config": got[2], "ops": script(a, b_), "impl": r, "reference_ops": script(s1, s2), "reference": base,
                           "how": "harness built with -DVERIF_REAL_MIXER (only ascon_trng_generate is substituted)"})
            break
    if len(mix) != 65:
        raise common.Infra("mixer seed-byte sweep: %d answers instead of 65" % len(mix))
    return {"runs": n, "config": got[2], "seed_byte_positions_swept": 64}


def mixer_model_sessions(res, b, driver, rng, tier):
    """The mixer's words against Model/Mixerm.v (extracted): the exact numbers handed out by ascon_trng_generate_64 / _32 for scripted
    system answers, per kind of state layout (64-bit sliced, byte array, 32-bit bit-interleaved), through init, refills, the
    alignment rule after 32-bit draws, and a reseed.  mix_init_injective (Proofs/MixerP.v) is a theorem about this model."""
    kinds = [("default", "0"), ("c32", "2"), ("directxor", "1")] if tier == "quick" else [("default", "0"), ("c64", "0"), ("c32", "2"), ("directxor", "1"), ("generic", "1")]
    lines = []
    for _ in range(20 if tier == "quick" else 200):
        lines.append((rng.choice([0, 1, 2, 5, 9]), hx(rnd_bytes(rng, 32)), int(rng.random() < 0.8), hx(rnd_bytes(rng, 32)), int(rng.random() < 0.8)))
    lines += [(3, "00" * 32, 1, "00" * 32, 1), (3, "ff" * 32, 1, "00" * 31 + "01", 0)]
    per = {}
    for cfg, kind in kinds:
        got = b.get(cfg, harness_defs=("-DVERIF_REAL_MIXER",) + tuple(common.CONFIG_FACTS[cfg][0]), tag="-realmixer")
        if not got:
            continue
        ops = ["MIXM %s %d %s %d %s %d" % ((kind,) + l) for l in lines]
        rc_m, out_m, err_m = common.run_lines(driver, ops)
        rc_i, out_i, err_i = common.run_lines(got[1], ops)
        if rc_m != 0 or len(out_m) != len(ops):
            raise common.Infra("mixer model driver failed: " + (err_m or "")[-500:])
        if any(o.startswith("KIND-IS-") for o in out_i):
            raise common.Infra("mixer harness for %s reports state layout %s, expected kind %s" % (cfg, out_i[0], kind))
        bad = 0
        for op, m, i in zip(ops, out_m, out_i + [""] * (len(ops) - len(out_i))):
            if m.split() != i.split():
                bad += 1
                if bad <= 2:
                    res.violation("mixer-words@" + got[2], "ascon_trng_* mixer (%s build) and Model/Mixerm.v disagree on: %s\n model: %s\n impl:  %s" % (got[2], op[:200], m[:300], i[:300]),
                                  {"config": got[2], "ops": [op], "model": [m], "impl": [i],
                                   "how": "harness built with -DVERIF_REAL_MIXER and the backend's -DASCON_FORCE_* define; build/ocaml/driver for the model"})
        per[got[2]] = {"histories": len(ops), "disagreements": bad, "state_layout_kind": kind}
    return per


def run(res, tier, seed, replay=None):
    t0 = time.time()
    rng = random.Random(seed)
    pr = stdflow.prove(res, "C15")
    driver = common.build_driver()
    stats = {"ops": collections.Counter(), "fetch": [], "storage": collections.Counter()}
    corr = diffrun.Corr()
    if replay:
        import json
        corr.session(json.load(open(replay))["replay"]["ops"])
    else:
        for _ in range(60 if tier == "quick" else 600):
            corr.session(session(rng, tier, stats), "RN-session")
        nst = 0
        for ops in storage_sessions(rng, stats):
            corr.session(ops, "RN-storage-session")
            nst += 1
        stats["storage"]["directed-geometry-sessions"] = nst

    def sig(line):
        t = line.split()
        return "-".join(t[:2])

    configs = ["default", "c32"] if tier == "quick" else ["default", "c64", "c32", "directxor", "generic"]
    per = []
    with common.Scratch() as sc:
        b = stdflow.Builds(res, sc)
        for cfg in configs:
            got = b.get(cfg)
            if got:
                per.append(diffrun.compare(res, corr, driver, got[1], got[2], sigfn=sig))
        real = None if replay else real_source_sessions(res, driver, b, rng, tier, stats)
        mix = None if replay else mixer_sessions(res, b, rng, tier)
        mixm = None if replay else mixer_model_sessions(res, b, driver, rng, tier)
    res.cov["real_system_source"] = real
    res.cov["trng_mixer"] = mix
    res.cov["trng_mixer_vs_model"] = mixm
    res.cov.update({
        "evaluations": sum(p["sessions"] for p in per),
        "distinct_nontrivial": max([p["nontrivial"] for p in per] or [0]),
        "rule": "random histories of init/fetch/feed/reseed/save/load/one-shot with a scripted system source (healthy and failing answers, "
                "all-zero / all-ones seeds) and scripted storage callbacks (full, short, long (33, 64), failing, region too small, NULL) over varied storage "
                "descriptors (region size 0/16/31/32/33/64/4096, page size 1..256, erase-block size 0/1/32/4096, base address 0..61440, partial writes "
                "on/off; every size x erase size x partial-write combination at least once per run); after every operation the outputs, status results, "
                "the counter, count/mode and the 40 state bytes and the number of system-source calls are compared with the model; SAVE / LOAD result "
                "lines carry every callback call in order with the arguments the callback received (read: offset, length; write: offset, length, erase "
                "request, the bytes; whether the descriptor pointer was the caller's; whether the descriptor was modified) and must equal the model's "
                "predicted call list",
        "samples": corr.lines[:12],
        "per_config": per,
        "input_distribution": {"ops": dict(stats["ops"]), "fetch_sizes": diffrun.histogram(stats["fetch"], (0, 8, 100, 16383, 16384, 20000)),
                               "storage": dict(stats["storage"]), "storage_geometry": dict(stats.get("geometry", {}))},
    })
    res.assumptions += ["'every byte influences all later output' is proved structurally (every entropy byte is absorbed into the sponge and followed by "
                        "the re-key before any output); the diffusion itself is a property of the permutation, only observed",
                        "the library's own TRNG back end is replaced at link time by the scripted source (harness/h_trng.cpp) for the main histories; a second set of "
                        "histories runs the real Linux back end under an LD_PRELOAD shim that makes chosen getrandom requests fail",
                        "Model/Prngm.v mirrors the C (differential run incl. full internal state)",
                        "storage: the library calls the callbacks with offsets relative to the region (always 0) and leaves the base address, page size and "
                        "partial-write flag to the callbacks; the harness callbacks are scripted (they do not emulate a device: what a later read returns is "
                        "an input of the next operation, not derived from an earlier write) - the round trip through a real device follows from the compared "
                        "arguments: write(0, 32 bytes) and read(0, 32) address the same bytes"]
    res.cov["wall_total"] = round(time.time() - t0, 1)
    return "proof"
