"""C11 - control flow and memory addresses never depend on secret data.

Three layers (DESIGN section 4, C11):
  1. (T) kernels and the keyed mode-level C functions themselves: tools/kern_ct.py executes clang's LLVM IR of
     the current source with all data symbolic (stuck on any data-dependent branch / address / shift count /
     length) -> coq/Gen/CtKernels*.v; Props/Properties_C11.v re-checks the table (C11_kernels), and ties the
     hand-written leakage model to it (C11_model_matches_C_perm_calls).
  2. theorems C11_modes_*: the leakage-instrumented models compute the existing models and their traces are
     functions of the public inputs only.
  3. observation of the shipped objects: harness/x_ctgrind.cpp linked against the Release -O3
     libascon_static.a of the working tree, run under valgrind/memcheck with every secret byte marked
     undefined, over public shapes; a report is a violation whose replay is the operation line + the stack.
A canary (a deliberately secret-dependent branch, table look-up and early-exit compare inside the harness) is run
first and must be reported; otherwise the check stops with an infrastructure error."""
import os, re, time, json, subprocess, collections
from concurrent.futures import ThreadPoolExecutor
import common, stdflow

VG = ["valgrind", "--tool=memcheck", "-q", "--error-exitcode=9", "--error-limit=no", "--num-callers=12",
      "--undef-value-errors=yes", "--leak-check=no"]


# --------------------------------------------------------------------------
# public shapes

def L(r):
    return [0, 1, r - 1, r, r + 1, 2 * r + 3]


def shapes(tier, masked_only=False):
    """operation lines for harness/x_ctgrind.cpp"""
    ops = []
    thorough = tier == "thorough"
    tagmodes = ["b0", "b7", "b15"]
    fams = ["MASKED"] if masked_only else ["AEAD", "SIV", "ISAP", "MASKED"]
    for fam in fams:
        for alg, rate in (("128", 8), ("128a", 16), ("80pq", 8)):
            r = 8 if fam == "ISAP" else rate
            lens = L(r) + ([3 * r, 4 * r + 5] if thorough else [])
            for a in lens:
                for m in lens:
                    if not thorough and fam in ("ISAP", "MASKED") and (a not in (0, 1, r, 2 * r + 3) or m not in (0, r - 1, r, 2 * r + 3)):
                        continue
                    ops.append("%s %s ENC %d %d" % (fam, alg, a, m))
                    ops.append("%s %s DEC %d %d ok" % (fam, alg, a, m))
                    if thorough or (a in (0, r + 1) and m in (0, 1, r + 1)):
                        for tm in tagmodes:
                            ops.append("%s %s DEC %d %d %s" % (fam, alg, a, m, tm))
            ops.append("%s %s ENC %d %d ok inplace" % (fam, alg, 3, 2 * r + 3))
            ops.append("%s %s DEC %d %d ok inplace" % (fam, alg, 3, 2 * r + 3))
            ops.append("%s %s DEC %d %d b7 inplace" % (fam, alg, 3, 2 * r + 3))
    if masked_only:
        return ops
    for alg, rate in (("128", 8), ("128a", 16), ("80pq", 8)):
        for chunks in ("-", "0", "1", "%d" % rate, "%d,1" % (rate - 1), "3,0,%d,%d" % (rate, rate + 1), "%d,%d" % (2 * rate + 3, rate - 1)):
            for a in (0, rate + 1):
                ops.append("AEADINC %s ENC %d %s" % (alg, a, chunks))
                ops.append("AEADINC %s DEC %d %s ok" % (alg, a, chunks))
                ops.append("AEADINC %s DEC %d %s b%d" % (alg, a, chunks, (0, 7, 15)[len(ops) % 3]))
    # key life cycles: ISAP init/save/load/free (the 80-byte image is secret), *_aead_reinit with every combination of given / NULL /
    # own-field pointers (key and nonce contents secret); prf/prf_fixed/hmac/kmac/kdf *_reinit are inside PRFINC, HMAC, KMAC, KDF
    for alg, rate in (("128", 8), ("128a", 16), ("80pq", 8)):
        for a, m in ((0, 0), (1, 7), (8, 19)) + (((19, 8), (0, 40)) if thorough else ()):
            ops.append("ISAPKEY %s %d %d" % (alg, a, m))
        for nm in (0, 1, 2):
            for km in (0, 1):
                for a, m in ((0, 0), (rate + 1, 2 * rate + 3)):
                    ops.append("AEADRE %s %d %d %d %d" % (alg, nm, km, a, m))
    for o in (0, 1, 16, 17, 35):
        for i in L(32):
            ops.append("PRF %d %d" % (o, i))
            if o:
                ops.append("PRFFIXED %d %d" % (o, i))
    for o in (0, 1, 8, 16, 17):
        for i in (0, 1, 8, 15, 16, 17):
            ops.append("PRFSHORT %d %d" % (o, i))
    for i in L(32):
        ops.append("MAC %d" % i)
        for tm in ["ok"] + tagmodes:
            ops.append("MACV %d %s" % (i, tm))
    for ch in ("-", "0", "1", "31,1", "32", "33,0,40", "67"):
        for outs in ("1", "16", "3,16,9", "35"):
            ops.append("PRFINC %s %s" % (ch, outs))
        ops.append("PRFINC %s 16 16" % ch)
    for a in ("-", "a"):
        for k in (0, 16, 32, 33, 64, 65, 100):
            for ch in ("-", "0", "1", "31,1", "32", "33,0,40", "67"):
                ops.append("HMAC %s %d %s" % (a, k, ch))
            ops.append("HMAC %s %d 67 oneshot" % (a, k))
        for k in (0, 16, 33):
            for ch in ("-", "1", "7,1", "8", "9,0,19"):
                for cl in (0, 5, 40):
                    ops.append("KMAC %s %d %s %d 16,20" % (a, k, ch, cl))
                    ops.append("KMAC %s %d %s %d 32" % (a, k, ch, cl))
            ops.append("KMAC %s %d 19 3 32 oneshot" % (a, k))
            ops.append("KMAC %s %d 19 3 41 oneshot" % (a, k))
            for cl in (0, 5):
                for outs in ("1", "32", "5,40", "-"):
                    ops.append("KDF %s %d %d %s" % (a, k, cl, outs))
                ops.append("KDF %s %d %d 41 oneshot" % (a, k, cl))
        for k in (0, 16, 70):
            for sl in (0, 16, 65):
                for il in (0, 5):
                    for outs in ("0", "1", "32", "33", "70"):
                        ops.append("HKDF %s %d %d %d %s oneshot" % (a, k, sl, il, outs))
                    ops.append("HKDF %s %d %d %d 10,30,30,0,1" % (a, k, sl, il))
    for kind in ("xof", "hmac"):
        for o in (1, 32, 33, 70):
            for p in (0, 8, 70):
                for sl in (0, 8):
                    for n in (0, 1, 2, 3) + ((10,) if thorough and o == 33 else ()):
                        ops.append("PBKDF2 %s %d %d %d %d" % (kind, o, p, sl, n))
    for script in ("init,fetch0,fetch1,fetch8,fetch9,fetch40,free", "init,feed0,feed1,feed8,feed33,fetch16,free", "init,reseed,fetch5,reseed,free",
                   "init,limit,fetch8,fetch8,free", "init,save,load,fetch4,loadfail,fetch4,free", "oneshot0", "oneshot1", "oneshot17", "oneshot40",
                   "init,fetch5,feed9,fetch40,reseed,save,load,limit,fetch8,free"):
        ops.append("PRNG " + script)
    for n32, n64 in ((0, 0), (1, 0), (0, 1), (2, 1), (3, 2), (5, 7)):
        ops.append("TRNG %d %d" % (n32, n64))
    return ops


# --------------------------------------------------------------------------
# builds

def build(scratch, cfg, shares, tag):
    """Release -O3 library exactly as CMake ships it + the harness.  Returns (exe, log) or (None, log)."""
    d = os.path.join(scratch, "b-" + tag)
    ok, log = common.build_repo(d, cfg, shares)
    if not ok:
        return None, log, "lib"
    exe = os.path.join(d, "x_ctgrind")
    cmd = ["g++", "-std=c++11", "-O1", "-g", "-w", "-I" + os.path.join(common.REPO, "src"), "-I" + os.path.join(common.REPO, "src", "ascon"), "-I" + d,
           "-DHAVE_CONFIG_H", os.path.join(common.VERIF, "harness", "x_ctgrind.cpp"), os.path.join(d, "src", "libascon_static.a"), "-o", exe]
    rc, out = common.sh(cmd, timeout=900)
    if rc != 0:
        return None, out, "harness"
    return exe, log, ""


def build_flags(d):
    """the optimisation flags the library objects were really compiled with (from the generated ninja file)"""
    try:
        txt = open(os.path.join(d, "build.ninja")).read()
        m = re.search(r"FLAGS = ([^\n]*-O\d[^\n]*)", txt)
        return m.group(1).strip()[:200] if m else "?"
    except OSError:
        return "?"


def run_vg(exe, lines, logpath, timeout=1800):
    p = subprocess.run(VG + ["--log-file=" + logpath, exe], input=("\n".join(lines) + "\n").encode(), stdout=subprocess.PIPE, stderr=subprocess.PIPE, timeout=timeout)
    out = p.stdout.decode("utf-8", "replace").split("\n")
    log = open(logpath, errors="replace").read() if os.path.exists(logpath) else ""
    return p.returncode, [l for l in out if l], log


def parse_log(log):
    """-> {op line: [report text, ...]} using the CTOP markers"""
    per, cur = collections.OrderedDict(), None
    blk = []
    for l in log.split("\n"):
        m = re.match(r"^\*\*\d+\*\* CTOP (.*)$", l)
        if m:
            cur = m.group(1).strip()
            continue
        m = re.match(r"^==\d+== ?(.*)$", l)
        if m and cur is not None:
            if m.group(1) == "":
                if blk:
                    per.setdefault(cur, []).append("\n".join(blk)); blk = []
            else:
                blk.append(m.group(1))
    if blk and cur is not None:
        per.setdefault(cur, []).append("\n".join(blk))
    return per


def lib_frame(report):
    """first frame inside the library (not the harness)"""
    for m in re.finditer(r"(?:at|by) 0x[0-9A-F]+: (\S+) \(([^)]*)\)", report):
        fn, where = m.group(1), m.group(2)
        if "x_ctgrind.cpp" in where or fn in ("main", "run_line"):
            continue
        return fn, where
    m = re.search(r"(?:at|by) 0x[0-9A-F]+: (\S+)", report)
    return (m.group(1), "?") if m else ("?", "?")


def canary(exe, scratch, name):
    rc, out, log = run_vg(exe, ["CANARY branch", "CANARY addr", "CANARY memcmp"], os.path.join(scratch, "canary-%s.log" % name))
    got = [l.split()[1] for l in out if l.startswith("R ")]
    ok = rc == 9 and got == ["1", "1", "1"] and "Conditional jump or move depends on uninitialised value" in log and "Use of uninitialised value of size 8" in log
    return ok, {"exit": rc, "reported": got, "log_head": log[:600]}


def short_report(rep):
    """memcheck report without the harness's own (long, demangled) frames"""
    keep = []
    for l in rep.split("\n"):
        if "x_ctgrind.cpp" in l and ("aead_case" in l or "op_" in l or "inc_case" in l):
            keep.append("   by ...: harness (x_ctgrind.cpp)")
            break
        keep.append(l)
    return "\n".join(keep)


def observe(res, exe, name, ops, scratch, stats, jobs, findings):
    """run ops under memcheck in parallel shards; collect findings[(kind, function)] = {configs, ops, report}"""
    shards = [ops[i::jobs] for i in range(jobs)]
    shards = [s for s in shards if s]

    def work(i):
        return run_vg(exe, shards[i], os.path.join(scratch, "vg-%s-%d.log" % (name, i)))

    nerr = 0
    with ThreadPoolExecutor(max_workers=jobs) as ex:
        results = list(ex.map(work, range(len(shards))))
    for i, (rc, out, log) in enumerate(results):
        rl = [l for l in out if l.startswith("R ")]
        if len(rl) != len(shards[i]) or rc not in (0, 9):
            raise common.Infra("x_ctgrind (%s) stopped after %d of %d operations (exit %d): %s\n%s" % (name, len(rl), len(shards[i]), rc, shards[i][len(rl)] if len(rl) < len(shards[i]) else "", log[-1500:]))
        per = parse_log(log)
        last_key = None
        for l in rl:
            m = re.match(r"^R (\d+) (-?\d+) (\w+) t=(\d+)  (.*)$", l)
            errs, r, taint, op = int(m.group(1)), int(m.group(2)), int(m.group(4)), m.group(5)
            stats["ops"] += 1
            fam = op.split()[0]
            stats["families"][fam] += 1
            if r in (100, 101):
                raise common.Infra("x_ctgrind (%s): operation `%s` did not run as intended (result %d)" % (name, op, r))
            if taint:
                stats["tainted_ops"] += 1
                stats["tainted_bytes"] += taint
            if " DEC " in op or op.startswith("MACV"):
                stats["verify_" + ("reject" if re.search(r" b\d+", op) else "accept")] += 1
            if errs:
                nerr += errs
                reps = per.get(op, [])
                if reps:
                    for rep in reps:
                        fn, where = lib_frame(rep)
                        kind = "address" if "Use of uninitialised value" in rep else "branch"
                        last_key = (kind, fn)
                        f = findings.setdefault(last_key, {"configs": [], "ops": [], "report": short_report(rep), "first": (name, op), "errors": 0})
                        if name not in f["configs"]:
                            f["configs"].append(name)
                        f["ops"].append((name, op))
                    findings[last_key]["errors"] += errs
                else:
                    # memcheck prints a stack once per process: later operations hitting the same place are only counted
                    key = last_key or ("branch", "(stack printed for an earlier operation of the same shard)")
                    f = findings.setdefault(key, {"configs": [name], "ops": [], "report": "", "first": (name, op), "errors": 0})
                    f["ops"].append((name, op)); f["errors"] += errs
    return nerr


def report_findings(res, findings):
    for (kind, fn), f in findings.items():
        name, op = f["first"]
        res.violation("leak-%s:%s" % (kind, fn),
                      "memcheck on the shipped -O3 objects: %s computed from secret data in %s during `%s` [configuration %s]; %d operation(s) affected, %d report(s), configurations: %s\n%s" % (
                          "a memory address is" if kind == "address" else "a conditional jump is", fn, op, name, len(f["ops"]), f["errors"], ", ".join(f["configs"]), f["report"][:1500]),
                      {"config": name, "shares": None if "-" not in name else [int(c) for c in name.split("-")[1]], "op": op, "memcheck": f["report"], "errors": f["errors"],
                       "configs": f["configs"], "affected_ops": ["%s: %s" % x for x in f["ops"][:40]],
                       "how_to_replay": "./check C11 --replay <this file>   (builds configuration %s as shipped and runs `echo '%s' | valgrind --tool=memcheck <build>/x_ctgrind`)" % (name, op)})


# --------------------------------------------------------------------------
def stuck_violations(res, translators):
    """MISSING kern_ct lines -> one violation per function with the shape and the executor's reason"""
    seen = {}
    for m in translators:
        mm = re.match(r"^kern_ct (\S+) \[(\w+)\](?: (\{.*?\}))?: (.*)$", m)
        if not mm:
            continue
        fn, cfg, shape, why = mm.group(1), mm.group(2), mm.group(3) or "{}", mm.group(4)
        key = fn
        if key in seen:
            seen[key]["also"].append("%s %s" % (cfg, shape))
            continue
        seen[key] = {"function": fn, "config": cfg, "public_shape": shape, "reason": why, "also": [],
                     "how_to_replay": "VERIF_REPO=%s python3 %s/tools/%s --only %s --out /tmp/ct.v   (prints this MISSING line; the symbolic executor stops at the first "
                                      "branch / address / shift count / length that depends on a data bit)" %
                                      (common.REPO, common.VERIF, "kern_ct_masked.py" if ("_masked_" in fn or "masked_key" in fn or "_max" in cfg) else "kern_ct.py", fn)}
    for fn, r in seen.items():
        res.violation("ct-stuck:" + fn,
                      "symbolic execution of %s [%s, public shape %s] with all data symbolic got stuck: %s - control flow or an address of the current source depends on data"
                      % (fn, r["config"], r["public_shape"], r["reason"]), r)


def tie_report(res):
    """when the proof is broken: ask Coq which (function, shape) disagrees between Model/Leak.v and the C"""
    q = os.path.join(common.BUILD, "c11_tie_query.v")
    os.makedirs(common.BUILD, exist_ok=True)
    open(q, "w").write("From Coq Require Import List NArith String.\nFrom AsconV Require Import Sym.CtTable Gen.CtKernels Model.Leak Obl.CtTie.\n"
                       "Eval vm_compute in (firstn 3 (tie_bad ct_entries)).\n")
    rc, out = common.sh(["coqc", "-Q", common.COQ, "AsconV", q], timeout=600)
    if rc == 0 and "nil" not in out.split(":")[0] and "(" in out:
        res.violation("model-tie", "Model/Leak.v no longer predicts the permutation calls of the C (function, config, shape, predicted, seen in the C):\n" + out[:1500],
                      {"coq_output": out[:4000]}, no_input=True)


def run(res, tier, seed, replay=None):
    t0 = time.time()
    thorough = tier == "thorough"
    if replay:
        rp = json.load(open(replay))["replay"]
        if "op" not in rp:
            print("replay: this finding is static; re-run: " + rp.get("how_to_replay", "./check C11"))
            replay = None
        else:
            # a replay must not replace the coverage recorded by the last full run
            try:
                res.cov.update(json.load(open(os.path.join(common.VERIF, "evidence", "C11.json")))["coverage"])
            except (OSError, ValueError, KeyError):
                pass
    # ---- layers 1 and 2: regenerate, prove
    phases = {}
    if not replay:
        # group files Props/Properties_C11_<group>.v (masked AEAD / masked keys / kernels with 16- and 24-byte masked words:
        # Properties_C11_masked.v over Gen/CtMasked.v) are picked up by glob, compiled with the main file and counted
        import glob
        groups = sorted(glob.glob(os.path.join(common.COQ, "Props", "Properties_C11_*.v")))
        pr = stdflow.prove(res, "C11", extra_targets=["Props/" + os.path.basename(g) + "o" for g in groups])
        phases["regenerate_and_prove_s"] = round(time.time() - t0, 1)
        miss = [v[2].get("missing", "") for v in res.violations if v[0].startswith("translator-missing:")]
        # the per-shape MISSING lines of kern_ct are re-reported below, one finding per function with all its shapes
        res.violations[:] = [v for v in res.violations if not (v[0].startswith("translator-missing:") and v[2].get("missing", "").startswith("kern_ct "))]
        # other translators print one MISSING line per start round etc.: keep the first per (tool, back end), count the rest
        kept, firsts = [], {}
        for v in res.violations:
            if v[0].startswith("translator-missing:"):
                key = tuple(v[2].get("missing", "").split()[:2])
                if key in firsts:
                    firsts[key][2].setdefault("also", []).append(v[2].get("missing", ""))
                    continue
                firsts[key] = v
            kept.append(v)
        res.violations[:] = kept
        stuck_violations(res, miss)
        if not pr["ok"] and not miss and pr["targets"].get("Obl/CtTie.vo", True) is not None:
            try:
                tie_report(res)
            except Exception:
                pass
        ct = [l for l in res.cov.get("translators", []) if l.startswith("kern_ct:")]
        res.cov["layer1_kernels"] = ct[-1] if ct else "?"
        ctm = [l for l in res.cov.get("translators", []) if l.startswith("kern_ct_masked:")]
        res.cov["layer1_masked"] = ctm[-1] if ctm else "?"
        res.cov["theorem_files"] = [{"file": "coq/Props/Properties_C11.v", "checked": bool(pr["targets"].get(common.props_file("C11")))}] + \
                                   [{"file": "coq/Props/" + os.path.basename(g), "checked": bool(pr["targets"].get("Props/" + os.path.basename(g) + "o"))} for g in groups]
    # ---- layer 3
    if thorough:
        plan = [("default", None), ("c64", None), ("c32", None), ("directxor", None), ("generic", None)]
        # every share configuration CMake accepts: 2 <= key <= max <= 4, 1 <= data <= key (the default 4/2/4 is in `plan`)
        triples = [(k, d, m) for m in (2, 3, 4) for k in range(2, m + 1) for d in range(1, k + 1) if (k, d, m) != (4, 2, 4)]
        share_plan = [(c, t) for c in ("default", "c64", "c32") for t in triples]
    else:
        plan = [("default", None), ("c64", None), ("c32", None), ("directxor", None), ("generic", None)]
        share_plan = [("default", (4, 1, 4)), ("default", (4, 4, 4)), ("c64", (3, 3, 3))]
    if replay:
        sh = tuple(rp["shares"]) if rp.get("shares") else None
        plan, share_plan = [(rp["config"].split("-")[0], sh)], []
    stats = {"ops": 0, "families": collections.Counter(), "tainted_ops": 0, "tainted_bytes": 0, "verify_accept": 0, "verify_reject": 0}
    per_cfg, total_err, findings = [], 0, collections.OrderedDict()
    with common.Scratch() as sc:
        todo = [(c, s, c + ("-%d%d%d" % s if s else "")) for c, s in plan + share_plan]
        t1 = time.time()
        with ThreadPoolExecutor(max_workers=4) as ex:
            built = list(ex.map(lambda x: build(sc, x[0], x[1], x[2]), todo))
        phases["build_s"] = round(time.time() - t1, 1)
        first = True
        for (cfg, shares, name), (exe, log, what) in zip(todo, built):
            if exe is None:
                if what == "harness":
                    res.violation("harness-build-failed@" + name, "harness/x_ctgrind.cpp no longer compiles against /repo (%s) - a public declaration changed?\n%s" % (name, log[-1500:]),
                                  {"config": name, "log_tail": log[-5000:]}, no_input=True)
                else:
                    res.violation("build-failed@" + name, "/repo no longer builds in configuration %s:\n%s" % (name, log[-1500:]), {"config": name, "log_tail": log[-5000:]}, no_input=True)
                continue
            if first:
                ok, info = canary(exe, sc, name)
                res.cov["canary"] = info
                if not ok:
                    raise common.Infra("valgrind/memcheck does not report the built-in canaries (secret-dependent branch, table look-up, early-exit compare in the harness): "
                                       "the observation layer cannot see leaks here: %s" % json.dumps(info)[:800])
                res.cov["shipped_flags"] = build_flags(os.path.join(sc, "b-" + name))
                first = False
            if replay:
                ops = [rp["op"]]
            else:
                ops = shapes(tier, masked_only=shares is not None)
            t1 = time.time()
            n = observe(res, exe, name, ops, sc, stats, common.NPROC, findings)
            total_err += n
            per_cfg.append({"config": name, "operations": len(ops), "memcheck_errors": n, "wall_s": round(time.time() - t1, 1)})
            if replay:
                print("replay `%s` on %s: %d memcheck error(s)" % (rp["op"], name, n))
                for f in findings.values():
                    print(f["report"])
    report_findings(res, findings)
    if not replay and stats["ops"] and stats["tainted_ops"] == 0:
        raise common.Infra("no output byte carried secret taint: the secrets were not poisoned (valgrind client requests inactive?)")
    # most concrete first: memcheck reports (operation + stack), stuck symbolic runs (function + shape + reason), then the rest
    prio = lambda v: 0 if v[0].startswith("leak-") else 1 if v[0].startswith("ct-stuck:") else 2
    res.violations.sort(key=prio)
    if replay:
        res.cov["last_replay"] = {"op": rp["op"], "config": rp["config"], "memcheck_errors": total_err}
        res.cov["wall_total"] = round(time.time() - t0, 1)
        return "proof"
    names = res.cov.get("theorems", [])
    res.cov.update({
        "evaluations": stats["ops"],
        "distinct_nontrivial": stats["tainted_ops"],
        "rule": "layer 3: every keyed primitive x public shapes (AD/message/chunk lengths 0,1,rate-1,rate,rate+1,2*rate+3; both verification outcomes with the tag "
                "damaged at byte 0/7/15; one-shot, in-place and incremental; masked AEAD, SIV, ISAP x3; PRF/MAC/verify, HMAC key lengths 0..100, KMAC, KDF, HKDF, PBKDF2 "
                "count 0..3, PRNG init/fetch/feed/reseed/save/load; key life cycles: ISAP init/save_key/load_key/free with the saved image secret, *_aead_reinit with key and nonce "
                "given / NULL / own field, prf / prf_fixed / hmac / kmac / kdf *_reinit under a second secret key) under memcheck with all secrets undefined, on the Release -O3 static library of each configuration; "
                "distinct_nontrivial = operations whose published outputs still carried secret taint (the poisoning reached the output)",
        "samples": shapes("quick")[:2] + shapes("quick")[-2:],
        "per_config": per_cfg,
        "input_distribution": {"families": dict(stats["families"]), "verification_accept": stats["verify_accept"], "verification_reject": stats["verify_reject"],
                               "tainted_output_bytes": stats["tainted_bytes"]},
        "layers": {
            "1_kernels_and_mode_functions": {"theorems": [n for n in names if "kernel" in n], "table": res.cov.get("layer1_kernels", ""),
                                             "masked_table": res.cov.get("layer1_masked", "")},
            "1x2_tie": {"theorems": [n for n in names if "matches" in n]},
            "2_leakage_models": {"theorems": [n for n in names if "modes" in n]},
            "3_memcheck": {"configurations": len(per_cfg), "operations": stats["ops"], "errors": total_err},
        },
        "memcheck_cmd": " ".join(VG) + " <build>/x_ctgrind < ops",
        "phases": phases,
    })
    res.assumptions += [
        "layer 1: the stuck semantics (no branch/select/switch/address/shift count/length on a non-constant) is implemented by the Python executor tools/symx.py, llvmx.py, "
        "symx_arith.py, not in Coq; Coq re-checks the regenerated table (all runs completed, trace hashes of symbolic and concrete runs agree, hand-listed coverage)",
        "layer 1 reads the C as clang 14 -O1 LLVM IR (no unrolling/vectorising); the objects actually shipped are gcc -O3: branches or tables INTRODUCED BY THE COMPILER are "
        "invisible to layers 1-2 and only observed by layer 3 on the shapes run (the partial clause of C11)",
        "layer 1 treats ascon_permute as external in the mode-level runs (its own kernels are separate rows / Gen/Kern_*.v); bounded to the enumerated public shapes",
        "layer 2: Model/Leak.v is hand-written; it is tied to the models by theorem (first components equal) and to the C by the permutation-call tie on the enumerated shapes",
        "layer 3: memcheck tracks definedness, not timing: it reports conditional jumps, addresses and (not relevant here) system-call arguments computed from undefined data; "
        "data-dependent instruction latency (variable-time multiply/divide) is out of its reach and out of the property's wording",
        "the x86-64 assembly kernels (permutation, masked permutations, masked words) are executed through the per-mnemonic lowering table of tools/asm_x86.py",
    ]
    res.cov["wall_total"] = round(time.time() - t0, 1)
    return "proof"
