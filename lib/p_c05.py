"""C05 - key derivation functions follow RFC 5869 / RFC 8018 / cXOF definitions."""
import random, time, collections
import common, diffrun, gen, kat, stdflow
from common import hx, rnd_bytes


def gen_cases(rng, tier, corr, stats):
    reps = 1 if tier == "quick" else 4
    for _ in range(reps):
        for v in ("hkdf", "hkdfa"):
            for n in (0, 1, 31, 32, 33, 64, 100, 8159, 8160, 8161, 9000):
                key, salt, info = rnd_bytes(rng, rng.choice([0, 1, 16, 32, 70])), rnd_bytes(rng, rng.choice([0, 0, 16, 65])), rnd_bytes(rng, rng.choice([0, 0, 5, 40]))
                corr.one("HKO %s %s %s %s %d" % (v, hx(key), hx(salt), hx(info), n)); stats["ops"]["HKDF-oneshot"] += 1; stats["outlen"].append(n)
            for _k in range(6 if tier == "quick" else 20):
                key, salt, info = rnd_bytes(rng, rng.choice([0, 16, 32])), rnd_bytes(rng, rng.choice([0, 16])), rnd_bytes(rng, rng.choice([0, 7]))
                # request sequences, some crossing the 8160-byte limit
                reqs, total = [], 0
                target = rng.choice([100, 300, 8100, 8200, 8300])
                while total < target and len(reqs) < 12:
                    r = rng.choice([0, 1, 31, 32, 33, 64, 100, 1000, 4000, 8159])
                    reqs.append(r); total += r
                reqs += [rng.choice([0, 5, 40])]
                corr.one("HK %s %s %s %s %s" % (v, hx(key), hx(salt), hx(info), ",".join(map(str, reqs)))); stats["ops"]["HKDF-stream"] += 1
                stats["outlen"].append(sum(reqs))
        for kind in ("xof", "hmac"):
            for c in (0, 1, 2, 3, 4, 10) + ((100,) if tier == "thorough" else ()):
                for n in (0, 1, 31, 32, 33, 64, 65, 100):
                    if tier == "quick" and rng.random() < 0.4:
                        continue
                    pw, salt = rnd_bytes(rng, rng.choice([0, 1, 8, 40, 63, 64, 65, 70])), rnd_bytes(rng, rng.choice([0, 8, 16, 33, 64]))
                    corr.one("PB %s %s %s %d %d" % (kind, hx(pw), hx(salt), c, n)); stats["ops"]["PBKDF2-" + kind] += 1; stats["outlen"].append(n)
        # iteration counts of 2^32 and more (unsigned long is 64 bits here): the call must still be iterating after 1.5 s, and a count
        # that is small must be done by then (control)
        for kind in ("xof", "hmac"):
            for c in (2 ** 32, 2 ** 32 + 3, 2 ** 33 + 1, 2 ** 63 + 2, 3):
                corr.one("PBT %s %s %s %d %d %d" % (kind, hx(rnd_bytes(rng, 8)), hx(rnd_bytes(rng, 8)), c, rng.choice([16, 32, 40]), 1500))
                stats["ops"]["PBKDF2-huge-count" if c > 3 else "PBKDF2-huge-count-control"] += 1
        for L in (63, 64, 65, 128):
            corr.one("PB hmac %s %s %d %d" % (hx(rnd_bytes(rng, L)), hx(rnd_bytes(rng, 8)), rng.choice([1, 2, 3]), rng.choice([16, 33])))
            corr.one("PB hmac %s %s %d %d" % (hx(rnd_bytes(rng, 9)), hx(rnd_bytes(rng, L)), 1, 32))
            stats["ops"]["PBKDF2-hmac-block-boundary"] += 2
        # block indices beyond one byte: the big-endian INT(i) of RFC 8018 must carry into the second byte
        for n in (8160, 8161, 8251) + ((16500, 40000) if tier == "thorough" else ()):
            pw, salt = rnd_bytes(rng, rng.choice([1, 8, 40])), rnd_bytes(rng, rng.choice([0, 8, 16]))
            corr.one("PB xof %s %s %d %d" % (hx(pw), hx(salt), rng.choice([1, 2]), n)); stats["ops"]["PBKDF2-xof-many-blocks"] += 1; stats["outlen"].append(n)
        for v in ("kdf", "kdfa"):
            for n in (0, 1, 31, 32, 33, 64, 200):
                for cu in (b"", b"c" * 7, b"c" * 8, b"c" * 9):
                    k = rnd_bytes(rng, rng.choice([0, 1, 16, 32, 100]))
                    if rng.random() < 0.5:
                        corr.one("KDO %s %s %s %d" % (v, hx(k), hx(cu), n))
                    else:
                        outs = gen.partition(rng, n, 8) if n else [0]
                        re_ = " RE:%d" % rng.randrange(1, 1 << 30) if rng.random() < 0.35 else ""      # through *_reinit on an object with a prior history
                        corr.one("KD %s %s %s %d %s%s" % (v, hx(k), hx(cu), rng.choice([n, 0, 32, 2 ** 29]), ",".join(map(str, outs)), re_))
                    stats["ops"]["KDF"] += 1; stats["outlen"].append(n)


def spec_vs_model(res, driver, rng, tier):
    """The executable model against the executable spec on a sample (the theorems cover all inputs;
    this catches a broken extraction and validates the statement shapes)."""
    lines_m, lines_s = [], []
    for v in ("hkdf", "hkdfa"):
        for n in (0, 33, 100):
            key, salt, info = rnd_bytes(rng, 16), rnd_bytes(rng, rng.choice([0, 16])), rnd_bytes(rng, 3)
            lines_m.append("HKO %s %s %s %s %d" % (v, hx(key), hx(salt), hx(info), n))
            lines_s.append("HKSPEC %s %s %s %s %d" % (v, hx(key), hx(salt), hx(info), n))
    for kind in ("xof", "hmac"):
        for c, n in ((0, 33), (1, 32), (3, 40), (5, 65)):
            pw, salt = rnd_bytes(rng, 9), rnd_bytes(rng, 8)
            lines_m.append("PB %s %s %s %d %d" % (kind, hx(pw), hx(salt), c, n))
            lines_s.append("PBSPEC %s %s %s %d %d" % (kind, hx(pw), hx(salt), c, n))
    rc, om, e1 = common.run_parallel(driver, lines_m)
    rc, os_, e2 = common.run_parallel(driver, lines_s)
    for a, b, x, y in zip(lines_m, lines_s, om, os_):
        if x != y:
            res.violation("model-vs-spec", "extracted model and extracted spec disagree: %s -> %s ; %s -> %s" % (a[:100], x[:64], b[:100], y[:64]),
                          {"model_line": a, "spec_line": b, "model": x, "spec": y})
    return len(lines_m)


def run(res, tier, seed, replay=None):
    t0 = time.time()
    rng = random.Random(seed)
    pr = stdflow.prove(res, "C05")
    driver = common.build_driver()
    res.cov["model_vs_spec_cases"] = spec_vs_model(res, driver, rng, tier)
    stats = {"ops": collections.Counter(), "outlen": []}
    corr = diffrun.Corr()
    if replay:
        import json
        corr.session(json.load(open(replay))["replay"]["ops"])
    else:
        gen_cases(rng, tier, corr, stats)
    configs = ["default", "c32"] if tier == "quick" else ["default", "c64", "c32", "directxor", "generic"]
    per = []
    with common.Scratch() as sc:
        b = stdflow.Builds(res, sc)
        for cfg in configs:
            got = b.get(cfg)
            if got:
                per.append(diffrun.compare(res, corr, driver, got[1], got[2]))
    res.cov.update({
        "evaluations": sum(p["sessions"] for p in per),
        "distinct_nontrivial": max([p["nontrivial"] for p in per] or [0]),
        "rule": "HKDF one-shot lengths {0,1,31,32,33,64,100,8159,8160,8161,9000} and request sequences crossing the 8160-byte limit (results and buffers compared, "
                "so a missing zero-fill shows), PBKDF2 (cXOF and HMAC PRF) counts {0,1,2,3,4,10,(100)} x lengths {0,1,31,32,33,64,65,100}, KDF/KDFA outputs x customisation strings, one-shot and split squeezes",
        "samples": corr.lines[:3] + corr.lines[-2:],
        "per_config": per,
        "input_distribution": {"ops": dict(stats["ops"]), "outlen": diffrun.histogram(stats["outlen"], (0, 1, 32, 64, 100, 8160, 9000))},
    })
    res.assumptions += ["Spec/Mac.v transcribes RFC 5869, RFC 8018 and the library's KDF document; HMAC spec validated on the KAT files (C04)",
                        "PBKDF2 iteration counts of 2^32 and more are only observed not to return within 1.5 s (a truncated count returns at once); their output is not computed",
                        "Model/Macm.v mirrors the C (differential run)"]
    res.cov["wall_total"] = round(time.time() - t0, 1)
    return "proof"
