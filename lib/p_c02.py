"""C02 - AEAD decryption inverts encryption, rejects every forgery, wipes plaintext."""
import random, time, subprocess
import common, diffrun, gen, kat, stdflow
from common import hx


def flip(b, bit):
    b = bytearray(b)
    b[bit // 8] ^= 0x80 >> (bit % 8)
    return bytes(b)


def model_encrypt(driver, cases):
    """cases: list of (fam, v, k, n, ad, pt); returns ciphertexts computed by the extracted model."""
    lines = ["%s %s ENC %s %s %s %s" % (fam, v, hx(k), hx(n), hx(ad), hx(pt)) for (fam, v, k, n, ad, pt) in cases]
    rc, out, err = common.run_parallel(driver, lines)
    return [bytes.fromhex(o.split()[0]) if o.split()[0] != "-" else b"" for o in out]


FAMILIES = {"AE": gen.AEAD_VARIANTS, "SIV": gen.AEAD_VARIANTS, "ISAP": {"128a": (16, 8), "128": (16, 8), "80pq": (20, 8)}}


def gen_cases(rng, tier, driver, corr, stats, families):
    base = []
    for fam in families:
        for v, (klen, rate) in FAMILIES[fam].items():
            lens = [(0, 0), (0, 1), (1, rate - 1), (rate, rate), (rate + 1, 2 * rate + 1), (5, 3 * rate), (33, 64)]
            if tier == "thorough":
                lens += [(a, p) for a in (0, rate - 1, 2 * rate) for p in (rate + 3, 200, 1000)]
            elif fam != "AE":
                lens = [(0, 0), (1, rate + 1), (5, 3 * rate)]      # the extracted ISAP model costs ~300 permutations per packet
            for (alen, plen) in lens:
                base.append((fam, v, gen.patterned(rng, klen), gen.patterned(rng, 16), rnd(rng, alen), rnd(rng, plen)))
    cts = model_encrypt(driver, base)
    for (fam, v, k, n, ad, pt), ct in zip(base, cts):
        entry = [fam, fam, fam + "C"] if fam != "AE" else ["AE", "AEM", "AEC", "AI"]      # SIVC / ISAPC: through the C++ classes

        def emit(kind, k2, n2, ad2, ct2):
            e = rng.choice(entry)
            stats["kinds"][kind] = stats["kinds"].get(kind, 0) + 1
            stats["ctlen"].append(len(ct2))
            if e == "AI" and len(ct2) >= 16:
                body, tag = ct2[:-16], ct2[-16:]
                parts = gen.split_data(body, gen.partition(rng, len(body), FAMILIES["AE"][v][1]))
                ses = ["AI 1 %s INIT %s %s" % (v, hx(n2), hx(k2)), "AI 1 START %s" % hx(ad2)]
                ses += ["AI 1 DECB %s%s" % (hx(c), " I" if rng.random() < 0.4 else "") for c in parts]
                ses += ["AI 1 DECF %s" % hx(tag), "AI 1 FREE"]
                corr.session(ses, "AI-%s-DEC-%s" % (v, kind))
            else:
                if e == "AI":
                    e = "AE"
                extra = (" ctor BA" if rng.random() < 0.5 else " setkey PTR") if e == "AEC" else (rng.choice([" ctor", " setkey", " setkeybad"]) if e in ("SIVC", "ISAPC") else "")
                if e == "AEM" and rng.random() < 0.3:
                    extra = rng.choice([" RK", " RK2"])      # masked key re-randomized between creation and use
                corr.one("%s %s DEC %s %s %s %s%s" % (e, v, hx(k2), hx(n2), hx(ad2), hx(ct2), extra), "%s-%s-DEC-%s" % (e, v, kind))

        if fam == "ISAP":
            # the same key after save_key / load_key (a pre-computed key object reloaded into a second object) must still accept the
            # unmodified ciphertext and reject a forgery; IK ops as in C06
            bad = flip(ct, rng.randrange(len(ct) * 8))
            corr.session(["IK 1 %s INIT %s" % (v, hx(k)), "IK 1 RELOAD 2", "IK 2 DEC %s %s %s" % (hx(n), hx(ad), hx(ct)),
                          "IK 2 DEC %s %s %s" % (hx(n), hx(ad), hx(bad)), "IK 1 DEC %s %s %s" % (hx(n), hx(ad), hx(ct)), "IK 2 SAVE", "IK 1 FREE", "IK 2 FREE"],
                         "IK-%s-DEC-reloaded" % v)
            stats["kinds"]["isap-reloaded-key"] = stats["kinds"].get("isap-reloaded-key", 0) + 1
        thin = 1 if (tier == "thorough" or fam != "ISAP") else 4   # quick tier: every 4th nonce/key bit for ISAP (rotating start)
        off = rng.randrange(thin)
        emit("valid", k, n, ad, ct)
        if fam == "AE":
            # the unmodified ciphertext through the masked entry point with the masked key re-randomized before use (the key it stands
            # for must not change)
            corr.one("AEM %s DEC %s %s %s %s %s" % (v, hx(k), hx(n), hx(ad), hx(ct), rng.choice(["RK", "RK2"])), "AEM-%s-DEC-valid-rerandomized" % v)
            stats["kinds"]["valid-rerandomized-key"] = stats["kinds"].get("valid-rerandomized-key", 0) + 1
        for bit in range(128):                               # every tag bit
            emit("tagbit", k, n, ad, ct[:-16] + flip(ct[-16:], bit))
        # the same difference in two tag bytes at word distances: a comparison that combines per-word differences must not let them cancel
        for d in (1, 2, 4, 8):
            for i in range(0, 16 - d, 1 if tier == "thorough" else 3):
                b = 1 << rng.randrange(8)
                t2 = bytearray(ct[-16:]); t2[i] ^= b; t2[i + d] ^= b
                emit("tagpair", k, n, ad, ct[:-16] + bytes(t2))
        t2 = bytes(x ^ 0x5a for x in ct[-16:])
        emit("tagpair", k, n, ad, ct[:-16] + t2)
        body = len(ct) - 16
        for bit in (range(body * 8) if body <= 64 else [8 * i + rng.randrange(8) for i in range(body)]):
            emit("ctbit", k, n, ad, flip(ct, bit))
        for bit in range(off, 128, thin):
            emit("noncebit", k, flip(n, bit), ad, ct)
        for bit in range(off, len(k) * 8, thin):
            emit("keybit", flip(k, bit), n, ad, ct)
        for bit in (range(len(ad) * 8) if len(ad) <= 32 else [8 * i + rng.randrange(8) for i in range(len(ad))]):
            emit("adbit", k, n, flip(ad, bit), ct)
        for t in range(1, 18):
            if t <= len(ct):
                emit("trunc", k, n, ad, ct[:-t])
        emit("extend", k, n, ad, ct + b"\x00")
        emit("extend", k, n, ad + b"\x00", ct)
        emit("multibit", k, n, ad, bytes(x ^ rng.getrandbits(8) for x in ct))
    if "AE" in families:
        # one state object reused for several packets (documented use): every packet is a valid ciphertext made by the model under
        # nonce N+i, lengths straddling the rate so that a partial-block position would be carried over if it were not reset
        plan = []
        for v, (klen, rate) in FAMILIES["AE"].items():
            for lens in ([5, 3], [rate - 1, rate + 1, 1], [1, 0, 2 * rate + 3], [rate + 3, rate - 3]) + (() if tier == "quick" else ([0, 7, 0, 9], [3 * rate + 1, 2])):
                # the session nonce is about to carry: out of the low 4 bytes, out of the low 8 bytes (into the upper half), or all the way round
                k = rnd(rng, klen)
                n0 = rng.choice([rnd(rng, 12) + b"\xff" * 3, rnd(rng, 8) + b"\xff" * 7, rnd(rng, 8) + b"\xff" * 7, b"\xff" * 15]) + bytes([rng.randrange(250, 256)])
                pk = []
                for i, L in enumerate(lens):
                    ni = ((int.from_bytes(n0, "big") + i) % (1 << 128)).to_bytes(16, "big")
                    pk.append((ni, rnd(rng, rng.choice([0, 3, rate])), rnd(rng, L)))
                plan.append((v, rate, k, n0, pk))
        cts2 = model_encrypt(driver, [("AE", v, k, ni, ad, pt) for (v, rate, k, n0, pk) in plan for (ni, ad, pt) in pk])
        it = iter(cts2)
        for (v, rate, k, n0, pk) in plan:
            ses = ["AI 1 %s INIT %s %s" % (v, hx(n0), hx(k))]
            for (ni, ad, pt) in pk:
                ct = next(it)
                body, tag = ct[:-16], ct[-16:]
                ses.append("AI 1 START %s" % hx(ad))
                ses += ["AI 1 DECB %s" % hx(c) for c in gen.split_data(body, gen.partition(rng, len(body), rate))]
                ses.append("AI 1 DECF %s" % hx(tag))
            ses.append("AI 1 FREE")
            corr.session(ses, "AI-%s-DEC-packets" % v)
            stats["kinds"]["multi-packet-valid"] = stats["kinds"].get("multi-packet-valid", 0) + 1
    for fam in families:                                       # total lengths 0..15
        for v, (klen, rate) in FAMILIES[fam].items():
            for L in range(16):
                e = fam if fam != "AE" else rng.choice(["AE", "AEM", "AEC"])
                corr.one("%s %s DEC %s %s %s %s" % (e, v, hx(rnd(rng, klen)), hx(rnd(rng, 16)), hx(rnd(rng, 3)), hx(rnd(rng, L))), "%s-%s-DEC-short" % (e, v))
                stats["kinds"]["short"] = stats["kinds"].get("short", 0) + 1


def rnd(rng, n):
    return common.rnd_bytes(rng, n)


def run(res, tier, seed, replay=None):
    t0 = time.time()
    rng = random.Random(seed)
    pr = stdflow.prove(res, "C02")
    driver = common.build_driver()
    stats = {"kinds": {}, "ctlen": []}
    corr = diffrun.Corr()
    families = ["AE"] + [f for f in ("SIV", "ISAP") if common.driver_supports(driver, f)]
    if replay:
        import json
        corr.session(json.load(open(replay))["replay"]["ops"])
    else:
        gen_cases(rng, tier, driver, corr, stats, families)
    configs = ["default", "c32"] if tier == "quick" else ["default", "c64", "c32", "directxor", "generic"]
    # the masked entry points (AEM lines) have share-count-specific code: other (key, data, max) share builds as well
    # (one data share = the masked entry points call the plain block helpers: its own code in each ascon-aead-masked-*.c)
    configs += [("c64", (3, 3, 3)), ("default", (4, 1, 4))] if tier == "quick" else [("c64", (3, 3, 3)), ("c32", (4, 1, 4)), ("default", (4, 1, 4)), ("default", (3, 2, 3)), ("c64", (4, 4, 4))]
    corr_m = diffrun.Corr()                                   # only the masked entry points: what the extra share builds are run on
    for (a, b_), tg in zip(corr.sessions, corr.tags):
        if corr.lines[a].startswith("AEM "):
            corr_m.session(corr.lines[a:b_], tg)
    per = []
    with common.Scratch() as sc:
        b = stdflow.Builds(res, sc)
        for cfg in configs:
            got = b.get(*cfg) if isinstance(cfg, tuple) else b.get(cfg)
            if got:
                per.append(diffrun.compare(res, corr_m if (isinstance(cfg, tuple) and not replay and corr_m.lines) else corr, driver, got[1], got[2]))
                if tier == "thorough" and not replay and got[2] in ("default", "c32"):
                    # lengths of 2^32 bytes and more: size_t parameters must not be processed modulo 2^32 (harness/x_huge.c)
                    res.cov.setdefault("huge_lengths", {})[got[2]] = common.run_huge(res, got[0], got[2], ["isap-ad", "siv128"] if got[2] == "default" else ["isap-ad", "siv128"][:1])
    res.cov.update({
        "evaluations": sum(p["sessions"] for p in per),
        "distinct_nontrivial": max([p["nontrivial"] for p in per] or [0]),
        "rule": "from model-generated valid ciphertexts (families %s): unmodified, each of the 128 tag bits, every ciphertext bit (<=64 bytes, else one bit per byte), "
                "every nonce and key bit, AD bits, truncation by 1..17, extension, multi-bit noise, total lengths 0..15; through one-shot, "
                "incremental (random partitions, in-place), masked and C++ (pointer and byte_array) entry points; compared: result class, *mlen, the whole "
                "plaintext buffer (message or all zero), untouched buffer when clen < 16" % ",".join(families),
        "samples": corr.lines[:2] + corr.lines[300:302] + corr.lines[-2:],
        "per_config": per,
        "input_distribution": {"kinds": stats["kinds"], "ctlen": diffrun.histogram(stats["ctlen"])},
    })
    res.assumptions += ["'any change is reported as a failure' is proved as exactness (decrypt succeeds iff the input is a genuine encryption); "
                        "a 128-bit tag admits colliding forgeries by counting, so no stronger statement is true",
                        "Model/Aeadm.v mirrors the C (checked by the differential run, not proved)", "all lengths < 2^31"]
    res.cov["wall_total"] = round(time.time() - t0, 1)
    return "proof"
