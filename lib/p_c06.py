"""C06 - SIV and ISAP modes compute their documented constructions; ISAP keys persist."""
import random, time, collections
import common, diffrun, gen, kat, stdflow
from common import hx, rnd_bytes

ISAPV = {"128a": 16, "128": 16, "80pq": 20}


def spec_kat(res, driver, tier):
    n = 0
    step = 8 if tier == "quick" else 1
    files = [("SIVSPEC", "128", "ASCON-128-SIV.txt"), ("SIVSPEC", "128a", "ASCON-128a-SIV.txt"), ("SIVSPEC", "80pq", "ASCON-80pq-SIV.txt"),
             ("ISAPSPEC", "128a", "ISAP-A-128A.txt"), ("ISAPSPEC", "128", "ISAP-A-128.txt"), ("ISAPSPEC", "80pq", "ISAP-A-80PQ.txt")]
    for op, v, f in files:
        recs = kat.read_kat(f)
        sel = [r for i, r in enumerate(recs) if (len(r["PT"]) <= 8 and len(r["AD"]) <= 8) or i % step == 0]
        lines = ["%s %s ENC %s %s %s %s" % (op, v, kat.h(r["Key"]), kat.h(r["Nonce"]), kat.h(r["AD"]), kat.h(r["PT"])) for r in sel]
        rc, out, err = common.run_parallel(driver, lines)
        for l, o, r in zip(lines, out, sel):
            n += 1
            if o != kat.h(r["CT"]):
                res.violation("spec-kat-" + f, "Spec/Siv.v disagrees with KAT file %s: %s -> %s expected %s" % (f, l[:100], o[:64], r["CT"][:64].lower()),
                              {"line": l, "spec": o, "kat": r["CT"].lower()})
    return n


def gen_cases(rng, tier, driver, corr, stats):
    maxlen = 1024 if tier == "quick" else 16384
    reps = 1 if tier == "quick" else 4
    for _ in range(reps):
        for v, (klen, rate) in gen.AEAD_VARIANTS.items():
            pairs = [(a, p) for a in (0, 1, rate - 1, rate, rate + 1, 2 * rate + 1) for p in (0, 1, rate - 1, rate, rate + 1, 2 * rate, 3 * rate + 5)]
            pairs += [(rng.choice([0, 5, 40]), p) for p in gen.boundary_lengths(rate, maxlen)]
            for (alen, plen) in pairs:
                k, n, ad, pt = gen.patterned(rng, klen), gen.patterned(rng, 16), rnd_bytes(rng, alen), rnd_bytes(rng, plen)
                corr.one("SIV %s ENC %s %s %s %s" % (v, hx(k), hx(n), hx(ad), hx(pt))); stats["ops"]["SIV-ENC"] += 1; stats["ptlen"].append(plen)
                if rng.random() < 0.25:      # the same through the C++ class (key constructor / set_key, pointer / byte_array overload)
                    corr.one("SIVC %s ENC %s %s %s %s %s" % (v, hx(k), hx(n), hx(ad), hx(pt), rng.choice(["ctor", "setkey", "setkeybad", "ctor BA", "setkey BA", "setkeybad BA"]))); stats["ops"]["SIV-ENC-C++"] += 1
        for v, klen in ISAPV.items():
            pairs = [(a, p) for a in (0, 1, 7, 8, 9, 17) for p in (0, 1, 7, 8, 9, 16, 29)] + [(rng.choice([0, 5, 40]), p) for p in gen.boundary_lengths(8, maxlen)]
            for (alen, plen) in pairs:
                k, n, ad, pt = gen.patterned(rng, klen), gen.patterned(rng, 16), rnd_bytes(rng, alen), rnd_bytes(rng, plen)
                corr.one("ISAP %s ENC %s %s %s %s" % (v, hx(k), hx(n), hx(ad), hx(pt))); stats["ops"]["ISAP-ENC"] += 1; stats["ptlen"].append(plen)
                if rng.random() < 0.25:
                    corr.one("ISAPC %s ENC %s %s %s %s %s" % (v, hx(k), hx(n), hx(ad), hx(pt), rng.choice(["ctor", "setkey", "setkeybad", "ctor BA", "setkey BA", "setkeybad BA"]))); stats["ops"]["ISAP-ENC-C++"] += 1
            # packet sequences on one pre-computed key object: encrypt, valid decrypt, forged decrypt, save/reload; the raw key object
            # is compared with its creation-time snapshot after every operation (CHK)
            for _s in range(4 if tier == "quick" else 12):
                k = rnd_bytes(rng, klen)
                ses = ["IK 1 %s INIT %s" % (v, hx(k)), "IK 1 CHK"]
                cur = 1
                pend = []
                for _p in range(rng.randrange(2, 8)):
                    kind = rng.choice(["enc", "enc", "dec", "forge", "save", "reload"])
                    n, ad, pt = rnd_bytes(rng, 16), rnd_bytes(rng, rng.choice([0, 3, 9])), rnd_bytes(rng, rng.choice([0, 1, 8, 20, 70]))
                    if kind == "enc":
                        ses.append("IK %d ENC %s %s %s" % (cur, hx(n), hx(ad), hx(pt))); pend.append((n, ad, pt))
                    elif kind in ("dec", "forge"):
                        # a ciphertext the model can make up front needs the model: use a random one (forgery) or an own encryption via the driver later
                        ct = rnd_bytes(rng, len(pt) + 16)
                        ses.append("IK %d DEC %s %s %s" % (cur, hx(n), hx(ad), hx(ct)))
                    elif kind == "save":
                        ses.append("IK %d SAVE" % cur)
                    else:
                        ses.append("IK %d RELOAD %d" % (cur, 3 - cur)); ses.append("IK %d CHK" % cur); cur = 3 - cur
                    ses.append("IK %d CHK" % cur)
                ses.append("IK %d FREE" % cur)
                corr.session(ses, "IK-%s" % v); stats["ops"]["ISAP-key-session"] += 1
    # valid decryptions through a reloaded key: ciphertexts from the model
    base = []
    for v, klen in ISAPV.items():
        for plen in (0, 1, 8, 21):
            base.append((v, rnd_bytes(rng, klen), rnd_bytes(rng, 16), rnd_bytes(rng, 4), rnd_bytes(rng, plen)))
    rc, cts, err = common.run_parallel(driver, ["ISAP %s ENC %s %s %s %s" % (v, hx(k), hx(n), hx(ad), hx(pt)) for (v, k, n, ad, pt) in base])
    for (v, k, n, ad, pt), o in zip(base, cts):
        ct = o.split()[0]
        corr.session(["IK 1 %s INIT %s" % (v, hx(k)), "IK 1 RELOAD 2", "IK 2 DEC %s %s %s" % (hx(n), hx(ad), ct), "IK 2 CHK", "IK 1 DEC %s %s %s" % (hx(n), hx(ad), ct),
                      "IK 1 CHK", "IK 1 SAVE", "IK 2 SAVE"], "IK-%s-valid" % v)
        stats["ops"]["ISAP-valid-dec-after-reload"] += 1


def run(res, tier, seed, replay=None):
    t0 = time.time()
    rng = random.Random(seed)
    pr = stdflow.prove(res, "C06")
    driver = common.build_driver()
    res.cov["kat_vectors_checked_against_spec"] = spec_kat(res, driver, tier)
    stats = {"ops": collections.Counter(), "ptlen": []}
    corr = diffrun.Corr()
    if replay:
        import json
        corr.session(json.load(open(replay))["replay"]["ops"])
    else:
        gen_cases(rng, tier, driver, corr, stats)
    configs = ["default", "c32", "generic"] if tier == "quick" else ["default", "c64", "c32", "directxor", "generic"]
    per = []
    with common.Scratch() as sc:
        b = stdflow.Builds(res, sc)
        for cfg in configs:
            got = b.get(cfg)
            if got:
                per.append(diffrun.compare(res, corr, driver, got[1], got[2]))
                if tier == "thorough" and not replay and got[2] in ("default", "c32"):
                    # lengths of 2^32 bytes and more: size_t parameters must not be processed modulo 2^32 (harness/x_huge.c)
                    res.cov.setdefault("huge_lengths", {})[got[2]] = common.run_huge(res, got[0], got[2], ["siv128", "isap-ad"] if got[2] == "default" else ["siv128", "isap-ad"][:1])
    res.cov.update({
        "evaluations": sum(p["sessions"] for p in per),
        "distinct_nontrivial": max([p["nontrivial"] for p in per] or [0]),
        "rule": "SIV x3 and ISAP x3 encryptions over boundary (|AD|,|P|) pairs; per ISAP variant, packet sequences on one pre-computed key object "
                "(encrypt, forged decrypt, valid decrypt after save/reload, save) with the raw bytes of the key object compared against its creation-time "
                "snapshot after every operation; decryption streams for these families are in C02",
        "samples": corr.lines[:2] + corr.lines[-6:],
        "per_config": per,
        "input_distribution": {"ops": dict(stats["ops"]), "ptlen": diffrun.histogram(stats["ptlen"])},
    })
    res.assumptions += ["Spec/Siv.v transcribes doc/siv.dox (figure + KATs normative: permute-then-squeeze) and ISAP v2.0 (validated on the 6 KAT files this run)",
                        "the model passes keys by value; that the C never writes through the const key pointer is observed by the snapshot comparison",
                        "Model/Sivm.v mirrors the C (differential run)"]
    res.cov["wall_total"] = round(time.time() - t0, 1)
    return "proof"
