"""C17 - the C++ classes compile when used and equal the C API for every keying path.

  1. prove      coq/Props/Properties_C17.v (object model = documented machine, or refuted)
  2. compile    every documented member / overload (tools/gen_cpp_members.py) with g++ and clang++
  3. correspond harness/h_cpp.cpp (real classes; in-harness direct C calls under the documented
                key and nonce) against the extracted model (ocaml/drv_cpp.ml)
"""
import os, sys, re, json, time, random, shutil
from concurrent.futures import ThreadPoolExecutor
import common, stdflow, diffrun
from common import hx

sys.path.insert(0, os.path.join(common.VERIF, "tools"))
import gen_cpp_members as gcm

CLASSES = {  # name -> (key size, family)
    "aead128": (16, "plain"), "aead128a": (16, "plain"), "aead80pq": (20, "plain"),
    "aead128_masked": (16, "masked"), "aead128a_masked": (16, "masked"), "aead80pq_masked": (20, "masked"),
    "siv128": (16, "siv"), "siv128a": (16, "siv"), "siv80pq": (20, "siv"),
    "isap128": (16, "isap"), "isap128a": (16, "isap"), "isap80pq": (20, "isap"),
}
COMPILERS = [("g++", ["g++", "-std=c++11", "-fsyntax-only"]), ("clang++-14", ["clang++-14", "-std=c++11", "-fsyntax-only"])]


# ---------------------------------------------------------------------------
# 2. compile coverage

def compile_coverage(res, scratch):
    d = os.path.join(scratch, "members")
    tus = gcm.emit(d)
    inc = "-I" + os.path.join(common.REPO, "src")
    compilers = [(n, c) for (n, c) in COMPILERS if shutil.which(c[0])]
    if len(compilers) < len(COMPILERS):
        res.notes.append("compiler(s) not installed, skipped: " + ", ".join(n for (n, c) in COMPILERS if not shutil.which(c[0])))
    if not compilers:
        raise common.Infra("no C++ compiler found")
    jobs = [(tu, n, c) for tu in tus for (n, c) in compilers]

    def work(j):
        tu, n, c = j
        rc, out = common.sh(c + [inc, tu["file"]], cwd=d, timeout=300)
        return tu, n, rc, out
    failures = {}          # error location -> {compiler -> [tu]}, first log
    nfail, ndiag = 0, 0
    bad_groups = set()
    with ThreadPoolExecutor(max_workers=common.NPROC) as ex:
        for tu, n, rc, out in ex.map(work, jobs):
            if rc == 0 and not out.strip():
                continue
            ndiag += 1
            if rc != 0:
                nfail += 1
            bad_groups.add((tu["inst"], tu["member"]))
            locs = re.findall(r"^(?:/\S*?/src/ascon/)?([\w.-]+):(\d+):\d+: (error|warning): (.*)$", out, flags=re.M)
            keys = []
            for (f, line, kind, msg) in locs:
                key = ("%s:%s" % (f, line)) if f.endswith(".h") else ("%s::%s" % (tu["inst"], tu["member"]))
                if key not in keys:
                    keys.append(key)
            if not keys:
                keys = ["%s::%s" % (tu["inst"], tu["member"])]
            for key in keys:
                e = failures.setdefault(key, {"by": {}, "log": None, "tu": None, "compiler": None})
                e["by"].setdefault(n, []).append("%s::%s" % (tu["inst"], tu["member"]))
                # keep the smallest, most direct witness: prefer a TU that names the member itself
                rank = (0 if n == "g++" else 1, len(out))      # g++ only complains when the member is instantiated
                if e["log"] is None or rank < e["rank"]:
                    e["log"], e["tu"], e["compiler"], e["rank"] = out, tu, n, rank
    for key, e in sorted(failures.items()):
        where = ""
        m = re.match(r"([\w.-]+\.h):(\d+)$", key)
        if m:
            try:
                lines = open(os.path.join(common.REPO, "src", "ascon", m.group(1))).read().split("\n")
                ln = int(m.group(2))
                decl = ""
                for k in range(ln - 1, max(0, ln - 12), -1):
                    if re.match(r"\s*(inline|static|explicit|virtual|template)\b", lines[k]):
                        decl = lines[k].strip()
                        break
                where = "  member: %s\n  line %d: %s\n" % (decl, ln, lines[ln - 1].strip())
            except Exception:
                pass
        tu = e["tu"]
        src = open(os.path.join(d, tu["file"])).read()
        affected = {n: sorted(set(v)) for n, v in e["by"].items()}
        res.violation("nocompile:" + key,
                      "a documented member does not compile when used (%s):\n%s  diagnosed by: %s\n  affected member groups: %s\n%s" %
                      (key, where, ", ".join("%s in %d TU(s)" % (n, len(v)) for n, v in affected.items()),
                       ", ".join(sorted(set(x for v in affected.values() for x in v))[:12]), e["log"][:900]),
                      {"kind": "compile", "tu_name": tu["file"], "tu": src, "compiler": e["compiler"],
                       "command": " ".join([c for (n, c) in compilers if n == e["compiler"]][0] + ["-I<repo>/src", tu["file"]]),
                       "compiler_output": e["log"][:6000], "affected": affected,
                       "how": "./check C17 --replay <this file> recompiles `tu` against the current headers with every installed compiler"})
    # the table against the headers as they are now
    cross = None
    try:
        missing, stale, ninv, ndoc = gcm.crosscheck(common.REPO)
        cross = {"declarations_in_headers": ninv, "with_own_doxygen_comment": ndoc, "not_in_table": len(missing), "not_in_headers": len(stale)}
        if missing or stale:
            res.violation("member-table-vs-headers",
                          "the member table of tools/gen_cpp_members.py and the public declarations of the headers differ: "
                          "not covered by the table: %s; no longer declared: %s" % (missing[:8], stale[:8]),
                          {"not_in_table": [list(x) for x in missing], "not_in_headers": [list(x) for x in stale]}, no_input=True)
    except Exception as e:                                     # clang missing: the table is then only self-consistent
        res.notes.append("member table not cross-checked against clang's AST: %s" % str(e)[:200])
    nuses = sum(len(t["uses"]) for t in tus)
    xofa_ok = not any(k.startswith("xof.h:") for k in failures) and \
        not any(inst.startswith("xofa_with_output_length") and mem == "absorb" for (inst, mem) in bad_groups)
    stats = {"translation_units": len(tus), "member_uses_compiled": nuses, "table_rows": len(gcm.table()),
             "compilers": [n for (n, c) in compilers], "compilations": len(jobs), "compilations_with_diagnostics": ndiag,
             "compilations_failed": nfail, "distinct_failure_locations": sorted(failures), "crosscheck": cross,
             "template_lengths": gcm.XOF_LENGTHS}
    return stats, xofa_ok


# ---------------------------------------------------------------------------
# 3. generators

LENS = [0, 1, 7, 8, 9, 15, 16, 17, 31, 32, 33, 47, 64]
MUTS = ["ok", "ok", "ok", "flipR", "trunc1", "trunc16", "trunc17", "short0", "short15", "ext", "adflip"]
OVERLOADS = ("E", "E3", "EB", "EB2", "DV", "D3", "DB", "DB2")   # pointer 5/3 args, byte_array 3/2 args, encrypt and decrypt
COUNTERS = [0, 1, 255, 256, 2 ** 32 - 1, 2 ** 32, 2 ** 63, 2 ** 64 - 1]


def rb(rng, n):
    return common.rnd_bytes(rng, n)


def packets(rng, count, big=False):
    """a stream of packet operations over all eight overload forms"""
    ops = []
    forms = ["E", "E3", "EB", "EB2", "DV", "D3", "DB", "DB2"]
    rng.shuffle(forms)
    for i in range(count):
        f = forms[i % len(forms)]
        ml = rng.choice(LENS + ([200] if big else []))
        al = rng.choice([0, 0, 1, 8, 9, 16, 17, 40])
        m, ad = hx(rb(rng, ml)), hx(rb(rng, al))
        mut = rng.choice(MUTS)
        if mut == "flipR":
            mut = "flip%d" % rng.randrange(0, (ml + 16) * 8)
        if f in ("E", "EB"):
            ops.append("%s:%s:%s" % (f, ad, m))
        elif f in ("E3", "EB2"):
            ops.append("%s:%s" % (f, m))
        elif f in ("DV", "DB"):
            ops.append("%s:%s:%s:%s" % (f, ad, m, mut))
        else:
            ops.append("%s:%s:%s" % (f, m, mut))
    return ops


def nonce_ops(rng):
    k = rng.randrange(9)
    if k == 0:
        return []
    if k <= 3:
        l = rng.choice([0, 1, 3, 8, 15])
        return ["SN:%s:%d" % (hx(rb(rng, l)) if l else rng.choice(["NULL", "-"]), l)]
    if k == 4:
        return ["SN:%s:16" % hx(rb(rng, 16))]
    if k == 5:
        l = rng.choice([17, 24, 40])
        return ["SN:%s:%d" % (hx(rb(rng, l)), l)]
    if k == 6:      # carry chains of every length
        c = rng.randrange(0, 17)
        return ["SN:%s:16" % hx(rb(rng, 16 - c) + b"\xff" * c)]
    return ["SC:%x" % rng.choice(COUNTERS + [rng.getrandbits(64)])]


def keying_paths(rng, cls):
    """-> list of (path kind, ctor token, [op tokens]) covering the documented construction and keying paths"""
    K, fam = CLASSES[cls]
    key = lambda: hx(rb(rng, K))
    isap = fam == "isap"
    kctor = (lambda k: "KL:%s:%d" % (k, K)) if isap else (lambda k: "K:%s" % k)
    P = [("default", "D", []),
         ("keyctor", kctor(key()), []),
         ("keyctor-null", "KL:NULL:0" if isap else "K:NULL", []),
         ("setkey-full", "D", ["SK:%s:%d" % (key(), K)]),
         ("setkey-full-after-keyctor", kctor(key()), ["SK:%s:%d" % (key(), K)]),
         ("setkey-zero-null", kctor(key()), ["SK:NULL:0"]),
         ("setkey-zero-null-after-default", "D", ["SK:NULL:0"]),
         ("setkey-zero-ptr", kctor(key()), ["SK:%s:0" % hx(rb(rng, 24))]),
         ("setkey-null-full", kctor(key()), ["SK:NULL:%d" % K]),
         ("clear-rekey", kctor(key()), ["CL", "SK:%s:%d" % (key(), K), "SN:%s:16" % hx(rb(rng, 16))])]
    wrong = [1, K - 1, K + 1, 15, 16, 17, 19, 20, 21, 32, 40, 79, 81] + ([] if isap else [80])   # 16/20: the other variant's key size
    for w in sorted(set(wrong) - {K}):
        P.append(("setkey-wrong-%d" % w, kctor(key()), ["SK:%s:%d" % (hx(rb(rng, w)), w)]))
    if isap:
        P += [("keyctor-zero-ptr", "KL:%s:0" % hx(rb(rng, 24)), []),
              ("keyctor-saved", "KLS:%s" % key(), []),
              ("setkey-saved", "D", ["SKS:%s" % key()]),
              ("setkey-saved-after-keyctor", kctor(key()), ["SKS:%s" % key()]),
              ("setkey-saved-raw80", "D", ["SK:%s:80" % hx(rb(rng, 80))]),
              ("setkey-null-80", kctor(key()), ["SK:NULL:80"])]
    if fam == "masked":
        P += [("randomize", kctor(key()), ["RK"]), ("randomize-default", "D", ["RK", "RK"]),
              ("randomize-setkey", "D", ["SK:%s:%d" % (key(), K), "RK"])]
    return P


def gen_cpx(rng, tier):
    lines, meta = [], []
    reps = 2 if tier == "quick" else 6
    for cls in CLASSES:
        for rep in range(reps):
            for (kind, ctor, ops) in keying_paths(rng, cls):
                pk = packets(rng, 8 if tier == "quick" else 12, big=(rep == 0))
                # a second keying step in the middle of the stream for half of the histories
                mid = []
                if rep % 2 == 1:
                    k2 = rng.choice(keying_paths(rng, cls))
                    mid = k2[2]
                half = len(pk) // 2
                allops = ops + nonce_ops(rng) + pk[:half] + mid + nonce_ops(rng) + pk[half:]
                lines.append("CPX %s %s %s" % (cls, ctor, " ".join(allops)))
                meta.append((cls, kind))
    return lines, meta


def gen_xof(rng, tier):
    """-> list of (model line, harness prefix) for xof / xofa templates and hash / hasha"""
    out = []
    n = 6 if tier == "quick" else 20
    names = ["NULL", hx(b"KMAC"), "-", hx(b"a" * 33)]
    for alg in ("xof", "xofa"):
        for L in (0, 1, 16, 32, 33, 64):
            for i in range(n):
                form = rng.choice(["D", "D", "N1", "N3", "NB"])
                if form == "D":
                    ctor = "D"
                else:
                    cu = hx(rb(rng, rng.choice([0, 1, 8, 40]))) if form != "N1" else "-"
                    ctor = "N:%s:%s:%s" % (rng.choice(names), cu, form[1])
                ops = []
                for j in range(rng.randrange(1, 9)):
                    c = rng.choice(["A", "AB", "AC", "AS", "Q", "QB", "P", "R", "CP", "ASG", "SELF", "ST", "A", "Q"])
                    if c in ("A", "AB", "AS"):
                        ops.append("%s:%s" % (c, hx(rb(rng, rng.choice([0, 1, 7, 8, 9, 16, 40])))))
                    elif c == "AC":
                        s = rng.choice(["NULL", hx(b"Hello, World!"), hx(bytes(rng.randrange(1, 256) for _ in range(rng.choice([0, 1, 8, 9, 30])))),
                                        hx(b"ab\x00cd")])
                        ops.append("AC:" + s)
                    elif c in ("Q", "QB"):
                        ops.append("%s:%d" % (c, rng.choice([0, 1, 7, 8, 9, 16, 32, 33, 64, 100])))
                    else:
                        ops.append(c)
                out.append(("XOFC %s %d %s %s" % (alg, L, ctor, " ".join(ops)), "XOFX %s %d %s %s" % (alg, L, ctor, " ".join(ops))))
    for alg in ("hash", "hasha"):
        for i in range(4 * n):
            ops = []
            for j in range(rng.randrange(1, 9)):
                c = rng.choice(["U", "UB", "UC", "US", "F", "FB", "DG", "R", "CP", "ASG", "SELF", "ST", "U"])
                if c in ("U", "UB", "US", "DG"):
                    ops.append("%s:%s" % (c, hx(rb(rng, rng.choice([0, 1, 7, 8, 9, 31, 32, 33, 70])))))
                elif c == "UC":
                    ops.append("UC:" + rng.choice(["NULL", hx(b"Hello, World!"), hx(b"ab\x00cd"), hx(bytes(rng.randrange(1, 256) for _ in range(9)))]))
                else:
                    ops.append(c)
                if c in ("F", "FB"):
                    ops.append("R")        # "the application must call reset() to perform another hashing process"
            out.append(("HSHC %s %s" % (alg, " ".join(ops)), "HSHX %s %s" % (alg, " ".join(ops))))
    return out


def gen_utl(rng, tier):
    lines = []
    for l in [0, 1, 2, 15, 16, 17, 31, 32, 33, 100, 255]:
        d = hx(rb(rng, l))
        for form in ("P", "B"):
            lines += ["UTL TOHEX %s 0 %s" % (d, form), "UTL TOHEX %s 1 %s" % (d, form), "UTL TOHEXD %s %s" % (d, form)]
        if l:
            lines.append("UTL FROMDATA %s" % d)
        for form in ("L", "C", "S"):
            h = rb(rng, l).hex()
            h = "".join(ch.upper() if rng.random() < 0.4 else ch for ch in h)
            if h:
                lines.append("UTL FROMHEX %s %s" % (h.encode().hex(), form))
            lines.append("UTL FROMHEX %s %s" % ((h + "a").encode().hex(), form))                  # odd number of digits
            lines.append("UTL FROMHEX %s %s" % ((h + "zz").encode().hex(), form))                 # invalid character
    # white space inside valid hex: the helper must return exactly the decoded bytes (fewer than strlen/2)
    for txt in ("01 02 03\n", "00 01 02 03 04 05 06 07", "dead beef\t", " a b c d ", "\n\n12\r\n34"):
        for form in ("L", "C", "S"):
            lines.append("UTL FROMHEX %s %s" % (txt.encode().hex(), form))
    lines += ["UTL FROMHEX NULL C", "UTL FROMHEX 00 S"]
    return lines


# ---------------------------------------------------------------------------
# running and judging

def opkind(line, idx):
    """kind of the constructor (idx 0) / idx-th member call of a CPX line"""
    t = line.split()
    tok = t[2 + idx] if 2 + idx < len(t) else "?"
    f = tok.split(":")
    if f[0] in ("SK", "KL") and len(f) == 3:
        return "%s%s%s" % (f[0], f[2] if f[2] in ("0", "16", "20", "80") else "x", "null" if f[1] == "NULL" else "")
    if f[0] == "K":
        return "K" + ("null" if f[1] == "NULL" else "")
    return f[0]


def shrink_cpx(harness, line, want):
    """drop member calls while the harness still reports the same first deviation kind"""
    t = line.split()
    m = re.search(r"doc=DEV@(\d+):(\w+)", want)
    if not m:
        return line
    idx, what = int(m.group(1)), m.group(2)
    t = t[:3 + idx]
    last_kind = opkind(" ".join(t), idx)

    def still(cand):
        rc, out, err = common.run_lines(harness, [" ".join(cand)], timeout=120)
        mm = re.search(r"doc=DEV@(\d+):(\w+)", out[0] if out else "")
        return bool(mm) and mm.group(2) == what and int(mm.group(1)) == len(cand) - 3 and opkind(" ".join(cand), len(cand) - 3) == last_kind
    i = 3
    while i < len(t) - 1 and len(t) > 3:
        cand = t[:i] + t[i + 1:]
        if still(cand):
            t = cand
        else:
            i += 1
    return " ".join(t)


def run_config(res, driver, harness, cfgname, cpx, meta, xof, utl, versions, stats, env=None):
    t0 = time.time()
    # ---- CPX: model and implementation
    rc_m, out_m, err_m = common.run_parallel(driver, cpx)
    if rc_m:
        raise common.Infra("model driver failed: " + err_m[-1500:])
    rc_i, out_i, err_i = common.run_parallel(harness, cpx, env=env)
    combos = set()
    ndev = nmodel = 0
    seen = set()
    for line, (cls, kind), mo, io in zip(cpx, meta, out_m, out_i):
        for tok in line.split()[3:]:
            if tok.split(":")[0] in OVERLOADS:
                combos.add((cls, kind, tok.split(":")[0]))
        # (a) the real classes against the direct C calls under the documented key / nonce
        md = re.search(r"doc=(DEV@(\d+):(\w+))", io)
        if md:
            ndev += 1
            idx = int(md.group(2))
            sig = "doc-dev:%s:%s:%s" % (cls, opkind(line, idx), md.group(3))
            if sig in seen:
                continue
            seen.add(sig)
            small = shrink_cpx(harness, line, io)
            rc, o2, _ = common.run_lines(harness, [small], timeout=120)
            rc, m2, _ = common.run_lines(driver, [small], timeout=120)
            ms = re.search(r"doc=DEV@(\d+):", o2[0] if o2 else "")
            if ms:
                idx = int(ms.group(1))
            coq = ""
            if cls == "siv80pq" and versions.get("siv80pq") == "CodeAsFound":
                coq = "\n  Coq: C17_aead_siv80pq_current / C17_aead_siv80pq_refuted prove the negation of the statement for the model of this code"
            if CLASSES[cls][1] == "isap" and versions.get("isap_setkey0") == "CodeAsFound":
                coq = "\n  Coq: C17_aead_isap_current / C17_aead_isap_refuted prove the negation of the statement for the model of this code"
            res.violation(sig,
                          "ascon::%s departs from its documentation at call %d (%s) of: %s\n  %s: the object's %s differs from what the direct C call "
                          "with the documented key and nonce gives\n  real classes: %s\n  model of the code: %s%s" %
                          (cls, idx, opkind(small, idx), small[:400], md.group(3),
                           {"key": "held key", "nonce": "held nonce", "ret": "return value", "out": "output bytes", "fault": "behaviour (it crashes)"}.get(md.group(3), md.group(3)),
                           (o2[0] if o2 else "")[:600], (m2[0] if m2 else "")[:600], coq),
                          {"config": cfgname, "ops": [small], "impl": o2, "model": m2, "original_line": line,
                           "how": "./check C17 --replay <this file>  (feeds `ops` to the harness built from the working tree and to build/ocaml/driver)"})
        if "fwd=BAD" in io or "CANARY" in io or "BADOP" in io or io.startswith("ERR"):
            res.violation("fwd:%s" % cls, "ascon::%s: a member's result differs from the C function applied to the key and nonce the object holds, "
                          "or wrote outside its buffers: %s\n  %s" % (cls, line[:300], io[:600]),
                          {"config": cfgname, "ops": [line], "impl": [io], "model": [mo]})
        # (b) the model of the code against the code
        if mo != io:
            nmodel += 1
            if ("mvc", cls) in seen:
                continue
            seen.add(("mvc", cls))
            a = mo.split("] "); b = io.split("] ")
            k = 0
            while k < min(len(a), len(b)) and a[k] == b[k]:
                k += 1
            hint = ""
            if cls == "siv80pq" or CLASSES[cls][1] == "isap":
                hint = ("\n  if /repo was fixed, set the flag in coq/Model/Cppm.v: `Definition %s : cpp_code_version := CodeFixed.`" %
                        ("siv80pq_code" if cls == "siv80pq" else "isap_setkey0_code"))
            res.violation("model-vs-code:%s:%s" % (cls, opkind(line, k)),
                          "the model of ascon::%s (coq/Model/Cppm.v, flags %s) and the real class disagree at call %d of: %s\n  model: %s\n  impl:  %s%s" %
                          (cls, versions, k, line[:300], mo[:500], io[:500], hint),
                          {"config": cfgname, "ops": [line], "model": [mo], "impl": [io],
                           "how": "./check C17 --replay <this file>"})
    if rc_i and not ndev and not nmodel:
        res.violation("harness-crash@" + cfgname, "harness exited abnormally: " + err_i[-800:], {"stderr": err_i[-3000:]}, no_input=True)
    # ---- xof / hash: the model's C call sequence, executed by the harness next to the C++ members
    rc_m, calls, err_m = common.run_parallel(driver, [m for (m, h) in xof])
    if rc_m:
        raise common.Infra("model driver failed: " + err_m[-1500:])
    hl = ["%s | %s" % (h, c) for (m, h), c in zip(xof, calls)]
    rc_i, xo, err_x = common.run_parallel(harness, hl, env=env)
    nskipped = 0
    for l, o in zip(hl, xo):
        if "SKIPPED-NONCOMPILING" in o:
            nskipped += 1
        if " C=ok" not in o:
            t = l.split()
            res.violation("xof-hash:%s" % t[1] if t[0] == "HSHX" else "xof-hash:%s<%s>" % (t[1], t[2]),
                          "C++ members and the C call sequence of the model give different output: %s\n  %s" % (l[:400], o[:400]),
                          {"config": cfgname, "ops": [l], "impl": [o]})
    # documented: xof_with_output_length<32> is identical to ascon::hash (xofa<32>: hasha)
    ident = []
    for alg, h in (("xof", "hash"), ("xofa", "hasha")):
        for d in ("-", "616263", "00" * 40):
            ident += ["XOFX %s 32 D A:%s Q:32 | init_fixed:32 absorb:%s squeeze:32" % (alg, d, d), "HSHX %s U:%s F R | update:%s finalize reinit" % (h, d, d)]
    rc, io_, _ = common.run_parallel(harness, ident, env=env)
    for k in range(0, len(ident), 2):
        if io_[k][:64] != io_[k + 1][:64]:
            res.violation("xof32-vs-hash", "xof*_with_output_length<32> differs from the hash class, contrary to the class documentation: %s -> %s ; %s -> %s" %
                          (ident[k], io_[k][:80], ident[k + 1], io_[k + 1][:80]), {"config": cfgname, "ops": ident[k:k + 2], "impl": io_[k:k + 2]})
    # ---- helpers
    rc_m, um, _ = common.run_parallel(driver, utl)
    rc_i, ui, _ = common.run_parallel(harness, utl, env=env)
    for l, mo, io in zip(utl, um, ui):
        if " C=ok" not in io or mo != io:
            res.violation("helper:%s" % l.split()[1], "utility.h helper differs from the C function / the model: %s\n  model: %s\n  impl:  %s" % (l[:200], mo[:300], io[:300]),
                          {"config": cfgname, "ops": [l], "model": [mo], "impl": [io]})
    stats.append({"config": cfgname, "cpx_histories": len(cpx), "cpx_member_calls": sum(len(l.split()) - 2 for l in cpx),
                  "class_path_overload_combinations": len(combos), "histories_departing_from_documentation": ndev,
                  "model_vs_code_disagreements": nmodel, "xof_hash_histories": len(hl), "xofa_string_overloads_skipped_in": nskipped,
                  "helper_cases": len(utl), "wall_s": round(time.time() - t0, 1)})
    return combos


def replay_run(res, driver, replay, scratch):
    rp = json.load(open(replay))["replay"]
    if rp.get("kind") == "compile":
        d = os.path.join(scratch, "replay")
        os.makedirs(d, exist_ok=True)
        open(os.path.join(d, rp["tu_name"]), "w").write(rp["tu"])
        for (n, c) in COMPILERS:
            if not shutil.which(c[0]):
                continue
            rc, out = common.sh(c + ["-I" + os.path.join(common.REPO, "src"), rp["tu_name"]], cwd=d)
            print("[%s] exit %d\n%s" % (n, rc, out[:3000]))
            if rc != 0 or out.strip():
                res.violation("nocompile:replay", "the replayed translation unit still does not compile with %s:\n%s" % (n, out[:1500]),
                              {"kind": "compile", "tu_name": rp["tu_name"], "tu": rp["tu"], "compiler": n, "compiler_output": out[:6000]})
        return
    b = stdflow.Builds(res, scratch)
    got = b.get("default")
    if not got:
        return
    for l in rp["ops"]:
        rc, io, err = common.run_lines(got[1], [l])
        print("op:    " + l)
        print("impl:  " + (io[0] if io else "<none> " + err[-300:]))
        if l.startswith(("CPX", "UTL")):
            rc, mo, _ = common.run_lines(driver, [l])
            print("model: " + (mo[0] if mo else "<none>"))
        o = io[0] if io else ""
        if "doc=DEV" in o or "MISMATCH" in o or "fwd=BAD" in o:
            res.violation("replay", "the replayed case still fails: %s\n  %s" % (l[:300], o[:600]), {"config": "default", "ops": [l], "impl": io})


def run(res, tier, seed, replay=None):
    t0 = time.time()
    rng = random.Random(seed)
    pr = stdflow.prove(res, "C17")
    driver = common.build_driver()
    rc, ver, _ = common.run_lines(driver, ["CPXVER"])
    versions = dict(x.split("=") for x in ver[0].split()) if ver and "=" in ver[0] else {}
    with common.Scratch() as sc:
        if replay:
            replay_run(res, driver, replay, sc)
            res.cov["wall_total"] = round(time.time() - t0, 1)
            return "proof"
        cstats, xofa_ok = compile_coverage(res, sc)
        cpx, meta = gen_cpx(rng, tier)
        xof = gen_xof(rng, tier)
        utl = gen_utl(rng, tier)
        b = stdflow.Builds(res, sc)
        defs = ("-DC17_XOFA_STRING_OK",) if xofa_ok else ()
        plan = [("default", False)] if tier == "quick" else [("default", False), ("c32", False), ("generic", False), ("default", True)]
        stats, combos = [], set()
        for cfg, san in plan:
            got = b.get(cfg, san=san, harness_defs=defs)
            if not got:
                continue
            env = {"VERIF_EXACT": "1", "ASAN_OPTIONS": "detect_leaks=0"} if san else None
            combos |= run_config(res, driver, got[1], got[2], cpx, meta, xof, utl, versions, stats, env=env)
    hist = {}
    for l in cpx:
        for tok in l.split()[2:]:
            k = tok.split(":")[0]
            hist[k] = hist.get(k, 0) + 1
    nontrivial = len(set(l for l in cpx if len(l.split()) > 3))
    res.cov.update({
        "evaluations": sum(s["cpx_histories"] + s["xof_hash_histories"] + s["helper_cases"] for s in stats),
        "distinct_nontrivial": nontrivial + len(set(h for (m, h) in xof)),
        "rule": "CPX: one object history per line = constructor + keying path + nonce setting + a stream of packets over all eight "
                "encrypt/decrypt overload forms (pointer 3/5 args, byte_array 2/3 args; valid, bit-flipped, truncated, too short, extended "
                "ciphertexts, changed AD), for each of the 12 cipher classes x documented construction/keying path; distinct = distinct line "
                "text, non-trivial = has at least one member call; XOFX/HSHX: member-call histories of xof/xofa<0,1,16,32,33,64> and hash/hasha",
        "samples": cpx[:2] + cpx[-1:] + [h for (m, h) in xof[:1]] + utl[:1],
        "members_compiled": cstats["member_uses_compiled"],
        "compile_coverage": cstats,
        "class_path_overload_combinations": len(combos),
        "model_code_versions": versions,
        "xofa_string_overloads_in_harness": bool(xofa_ok),
        "per_config": stats,
        "input_distribution": {"tokens": hist, "message_lengths": LENS, "mutations": sorted(set(MUTS)), "counters": [str(c) for c in COUNTERS],
                               "classes": sorted(CLASSES), "paths_per_class": {c: len(keying_paths(random.Random(1), c)) for c in CLASSES}},
        "oracles": {"plain+masked classes": "extracted Coq model of the C function (x_aead_encrypt/x_aead_decrypt) inside the extracted object model, "
                                            "AND the in-harness direct C call under the documented key/nonce",
                    "siv+isap classes": "in-harness direct C call (documented key/nonce, and held key/nonce); the extracted object model predicts "
                                        "held key identity, nonce, return values and accept/reject through a free cipher - the SIV/ISAP C functions "
                                        "themselves have no Coq model in this check (C06)",
                    "hash/xof classes": "in-harness C call sequence, the sequence being produced by the extracted wrapper model",
                    "helpers": "in-harness C function AND the extracted wrapper model over an OCaml rendering of the two hex functions"},
    })
    res.assumptions += [
        "the C functions satisfy the premise cfun_ok of the theorems (depend on the key object only through the key; write mlen+16 / clen-16 bytes; "
        "refuse inputs shorter than the tag) - C01/C02/C06 state this of the real functions; masked key objects satisfy mkey_ok (C10)",
        "Model/Cppm.v mirrors src/cplusplus/*.cpp and the inline wrappers only as far as the differential run shows (held key, nonce, results after every call)",
        "uninitialised storage is modelled as arbitrary prior bytes (the harness pre-fills the object's storage with 0xC7 and constructs in place)",
        "a diagnostic-free -fsyntax-only compilation of a translation unit that odr-uses the member is taken as 'compiles when used' (g++ 12, clang++ 14, -std=c++11)",
        "ARDUINO / ASCON_NO_STL variants of the headers are not compiled here (byte_array without STL is C20's subject)",
        "all lengths < 2^31",
    ]
    res.cov["wall_total"] = round(time.time() - t0, 1)
    return "proof"
