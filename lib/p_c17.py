"""C17 - the C++ classes compile when used and equal the C API for every keying path.

  1. prove      coq/Props/Properties_C17.v (object model = documented machine, or refuted)
  2. compile    every documented member / overload (tools/gen_cpp_members.py) with g++ and clang++,
                -std=c++11 and -std=c++17, in three variants of the headers: default (STL),
                -DASCON_NO_STL, and -DARDUINO against the stub harness/arduino_stub/
  3. correspond harness/h_cpp.cpp (real classes; in-harness direct C calls under the documented
                key and nonce) against the extracted model (ocaml/drv_cpp.ml); a second harness
                built with -DASCON_NO_STL (src/cplusplus/*.cpp compiled here with the same
                definition) replays the same streams and must print the same lines; a third
                harness built with -DARDUINO=10819 against the functional stub String of
                harness/arduino_stub (configuration `default-arduino`) replays them once more,
                EXECUTING the String overloads (absorb / update (const String &), bytes_to_hex
                returning String, bytes_from_hex(const String &)) where the default build runs the
                std::string / const char * forms: again every line must be identical
"""
import os, sys, re, json, time, random, shutil, shlex
from concurrent.futures import ThreadPoolExecutor
import common, stdflow, diffrun
from common import hx

sys.path.insert(0, os.path.join(common.VERIF, "tools"))
import gen_cpp_members as gcm

CLASSES = {  # name -> (key size, family)
    "aead128": (16, "plain"), "aead128a": (16, "plain"), "aead80pq": (20, "plain"),
    "aead128_masked": (16, "masked"), "aead128a_masked": (16, "masked"), "aead80pq_masked": (20, "masked"),
    "siv128": (16, "siv"), "siv128a": (16, "siv"), "siv80pq": (20, "siv"),
    "isap128": (16, "isap"), "isap128a": (16, "isap"), "isap80pq": (20, "isap"),
}
STD_LEVELS = ["c++11", "c++17"]
COMPILERS = [("%s -std=%s" % (cc, std), [cc, "-std=" + std, "-fsyntax-only"]) for cc in ("g++", "clang++-14") for std in STD_LEVELS]
# compile passes: variant of gen_cpp_members -> signature prefix of a violation
PASSES = [("stl", "nocompile:"), ("nostl", "nocompile-nostl:"), ("arduino", "nocompile-arduino:")]
NOSTL_HARNESS_SRCS = ["main.cpp", "h_cpp.cpp", "h_trng.cpp"]
# the run-time variants of the headers: definitions, what the build is called in messages
RT_VARIANTS = {
    "nostl": {"defs": ["-DASCON_NO_STL"], "inc": [], "flag": "-DASCON_NO_STL", "long": "built with -DASCON_NO_STL (ascon::byte_array = the library's own class)"},
    "arduino": {"defs": ["-DARDUINO=10819"], "inc": ["-I" + gcm.ARDUINO_STUB], "flag": "-DARDUINO=10819",
                "long": "built with -DARDUINO=10819 against the stub String of harness/arduino_stub (String overloads executed; utility.h defines "
                        "ASCON_NO_STL itself, so ascon::byte_array = the library's own class)"},
}


# ---------------------------------------------------------------------------
# 2. compile coverage

def compile_coverage(res, scratch):
    """-> ({variant: stats}, {variant: xofa string overloads compile})"""
    compilers = [(n, c) for (n, c) in COMPILERS if shutil.which(c[0])]
    if len(compilers) < len(COMPILERS):
        res.notes.append("compiler(s) not installed, skipped: " + ", ".join(n for (n, c) in COMPILERS if not shutil.which(c[0])))
    if not compilers:
        raise common.Infra("no C++ compiler found")
    # granularity: at the first language standard every member group has its own small TU; at the further standards the use functions
    # of one class instantiation share a TU (same headers, same function bodies), and the small TUs of an instantiation are compiled
    # only where the shared TU produced a diagnostic - every use function is compiled by every compiler at every standard either way
    first_std = "-std=" + STD_LEVELS[0]
    tus, merged, dirs = {}, {}, {}
    for variant, _ in PASSES:
        dirs[variant] = os.path.join(scratch, "members-" + variant)
        tus[variant] = gcm.emit(dirs[variant], variant)
        merged[variant] = gcm.emit_merged(dirs[variant], variant)
    counter = [0]

    def run_jobs(jobs):
        """jobs: (variant, tu, compiler name, command prefix) -> [(variant, tu, name, rc, output)]; thousands of short compilations are run from
        a few shell scripts (one process per shard) rather than one Python subprocess each, interleaved so that the shards get the same mix"""
        nshards = max(1, min(common.NPROC * 4, len(jobs)))
        logs, scripts = [], [[] for _ in range(nshards)]
        for i, (variant, tu, n, c) in enumerate(jobs):
            counter[0] += 1
            log = os.path.join(dirs[variant], "%s.%d.log" % (tu["file"], counter[0]))
            logs.append(log)
            cmd = " ".join(shlex.quote(x) for x in c + gcm.variant_flags(variant, common.REPO) + [tu["file"]])
            scripts[i % nshards].append("cd %s && { %s > %s 2>&1 || echo $? > %s.rc; }" % (shlex.quote(dirs[variant]), cmd, shlex.quote(log), shlex.quote(log)))

        def work(k):
            path = os.path.join(scratch, "compile-shard-%d-%d.sh" % (counter[0], k))
            open(path, "w").write("\n".join(scripts[k]) + "\nexit 0\n")
            return common.sh(["sh", path], timeout=3000)
        with ThreadPoolExecutor(max_workers=common.NPROC) as ex:
            for rc, out in ex.map(work, range(nshards)):
                if rc != 0:
                    raise common.Infra("compile shard failed: " + out[-500:])
        out = []
        for (variant, tu, n, c), log in zip(jobs, logs):
            if not os.path.exists(log):
                raise common.Infra("compilation did not run: " + log)
            rc = int(open(log + ".rc").read().strip() or 1) if os.path.exists(log + ".rc") else 0
            out.append((variant, tu, n, rc, open(log, errors="replace").read() if os.path.getsize(log) else ""))
        return out
    t0 = time.time()
    jobs = []
    for variant, _ in PASSES:
        for (n, c) in compilers:
            jobs += [(variant, tu, n, c) for tu in (tus[variant] if first_std in c else merged[variant])]
    round1 = run_jobs(jobs)
    results = {v: [] for v, _ in PASSES}
    ncomp = {v: 0 for v, _ in PASSES}
    again, shared_bad = [], []
    for (variant, tu, n, rc, out) in round1:
        ncomp[variant] += 1
        if tu["member"] == "*" and (rc != 0 or out.strip()):
            cc = [c for (nn, c) in compilers if nn == n][0]
            small = [t for t in tus[variant] if t["inst"] == tu["inst"]]
            again += [(variant, t, n, cc) for t in small]
            shared_bad.append((variant, tu, n, rc, out, len(small)))
        else:
            results[variant].append((tu, n, rc, out))
    round2 = run_jobs(again) if again else []
    for (variant, tu, n, rc, out) in round2:
        ncomp[variant] += 1
        results[variant].append((tu, n, rc, out))
    for (variant, tu, n, rc, out, nsmall) in shared_bad:
        # a diagnostic that only the shared TU shows would be an artefact of sharing or a real interaction: keep it visible
        if not any(v == variant and nn == n and t["inst"] == tu["inst"] and (r != 0 or o.strip()) for (v, t, nn, r, o) in round2):
            results[variant].append((tu, n, rc, out))
    wall = time.time() - t0
    all_stats, xofa = {}, {}
    for variant, prefix in PASSES:
        st, ok = judge_pass(res, variant, prefix, dirs[variant], tus[variant], compilers, results[variant])
        st["compilations"] = ncomp[variant]
        st["translation_units_shared_per_instantiation"] = len(merged[variant])
        st["shared_translation_units_with_diagnostics_recompiled_member_by_member"] = sum(1 for x in shared_bad if x[0] == variant)
        st["granularity"] = ("-std=%s: one TU per member group; %s: one TU per class instantiation holding the same use functions, and the "
                             "member-group TUs of an instantiation again wherever that TU produced a diagnostic" %
                             (STD_LEVELS[0], ", ".join("-std=" + x for x in STD_LEVELS[1:])))
        all_stats[variant], xofa[variant] = st, ok
    all_stats["stl"]["all_passes_wall_s"] = round(wall, 1)
    return all_stats, xofa


def judge_pass(res, variant, prefix, d, tus, compilers, results):
    vflags = " ".join(gcm.VARIANTS[variant]["defs"])
    failures = {}          # error location -> {compiler -> [tu]}, first log
    nfail, ndiag = 0, 0
    bad_groups = set()
    for tu, n, rc, out in results:
        if rc == 0 and not out.strip():
            continue
        ndiag += 1
        if rc != 0:
            nfail += 1
        bad_groups.add((tu["inst"], tu["member"]))
        locs = re.findall(r"^(?:/\S*?/src/ascon/)?([\w.-]+):(\d+):\d+: (error|warning): (.*)$", out, flags=re.M)
        keys = []
        for (f, line, kind, msg) in locs:
            key = ("%s:%s" % (f, line)) if f.endswith(".h") else ("%s::%s" % (tu["inst"], tu["member"]))
            if key not in keys:
                keys.append(key)
        if not keys:
            keys = ["%s::%s" % (tu["inst"], tu["member"])]
        for key in keys:
            e = failures.setdefault(key, {"by": {}, "log": None, "tu": None, "compiler": None})
            e["by"].setdefault(n, []).append("%s::%s" % (tu["inst"], tu["member"]))
            # keep the smallest, most direct witness: prefer a TU that names the member itself
            rank = (0 if n.startswith("g++") else 1, len(out))      # g++ only complains when the member is instantiated
            if e["log"] is None or rank < e["rank"]:
                e["log"], e["tu"], e["compiler"], e["rank"] = out, tu, n, rank
    for key, e in sorted(failures.items()):
        where = ""
        m = re.match(r"([\w.-]+\.h):(\d+)$", key)
        if m:
            for base in [os.path.join(common.REPO, "src", "ascon")] + gcm.VARIANTS[variant]["incdirs"]:
                try:
                    lines = open(os.path.join(base, m.group(1))).read().split("\n")
                except Exception:
                    continue
                ln = int(m.group(2))
                decl = ""
                for k in range(ln - 1, max(0, ln - 12), -1):
                    if re.match(r"\s*(inline|static|explicit|virtual|template)\b", lines[k]):
                        decl = lines[k].strip()
                        break
                where = "  member: %s\n  line %d: %s\n" % (decl, ln, lines[ln - 1].strip())
                break
        tu = e["tu"]
        src = open(os.path.join(d, tu["file"])).read()
        affected = {n: sorted(set(v)) for n, v in e["by"].items()}
        vtxt = "" if variant == "stl" else " in the %s variant of the headers (%s)" % (variant, gcm.VARIANTS[variant]["what"])
        extra = {}
        if variant == "arduino":
            extra["stub_headers"] = {f: open(os.path.join(gcm.ARDUINO_STUB, f)).read() for f in sorted(os.listdir(gcm.ARDUINO_STUB))}
        res.violation(prefix + key,
                      "a documented member does not compile when used%s (%s):\n%s  diagnosed by: %s\n  affected member groups: %s\n%s" %
                      (vtxt, key, where, ", ".join("%s in %d TU(s)" % (n, len(v)) for n, v in affected.items()),
                       ", ".join(sorted(set(x for v in affected.values() for x in v))[:12]), e["log"][:900]),
                      dict({"kind": "compile", "variant": variant, "defines": gcm.VARIANTS[variant]["defs"],
                            "tu_name": tu["file"], "tu": src, "compiler": e["compiler"],
                            "command": " ".join([c for (n, c) in compilers if n == e["compiler"]][0] + gcm.VARIANTS[variant]["defs"] + ["-I<repo>/src"] +
                                                ["-I<verif>/harness/arduino_stub"] * (variant == "arduino") + [tu["file"]]),
                            "compiler_output": e["log"][:6000], "affected": affected,
                            "how": "./check C17 --replay <this file> recompiles `tu` against the current headers with every installed compiler "
                                   "and language standard (%s)" % (vflags or "no definitions")}, **extra))
    # the table against the headers as they are now
    cross = None
    try:
        missing, stale, ninv, ndoc = gcm.crosscheck(common.REPO, variant)
        cross = {"declarations_in_headers": ninv, "with_own_doxygen_comment": ndoc, "not_in_table": len(missing), "not_in_headers": len(stale)}
        if missing or stale:
            res.violation("member-table-vs-headers" + ("" if variant == "stl" else "@" + variant),
                          "the member table of tools/gen_cpp_members.py (variant %s) and the public declarations of the headers differ: "
                          "not covered by the table: %s; no longer declared: %s" % (variant, missing[:8], stale[:8]),
                          {"variant": variant, "not_in_table": [list(x) for x in missing], "not_in_headers": [list(x) for x in stale]}, no_input=True)
    except Exception as e:                                     # clang missing: the table is then only self-consistent
        res.notes.append("member table (%s) not cross-checked against clang's AST: %s" % (variant, str(e)[:200]))
    nuses = sum(len(t["uses"]) for t in tus)
    xofa_ok = not any(k.startswith("xof.h:") for k in failures) and \
        not any(inst.startswith("xofa_with_output_length") and mem in ("absorb", "*") for (inst, mem) in bad_groups)
    tab = gcm.table(variant)
    stats = {"variant": variant, "what": gcm.VARIANTS[variant]["what"], "defines": gcm.VARIANTS[variant]["defs"],
             "translation_units": len(tus), "member_uses_compiled": nuses, "table_rows": len(tab),
             "rows_only_in_this_variant": sorted(set("%s::%s %s" % (r["inst"], r["name"], r["sig"]) for r in tab if r["flags"] in ("stl", "nostl", "arduino")))[:80],
             "compilers": [n for (n, c) in compilers], "std_levels": STD_LEVELS, "compilations": len(results), "compilations_with_diagnostics": ndiag,
             "compilations_failed": nfail, "distinct_failure_locations": sorted(failures), "crosscheck": cross,
             "template_lengths": gcm.XOF_LENGTHS}
    if variant == "arduino":
        stats["stub"] = ("STUB: <Arduino.h>/<WString.h> are the stand-ins of harness/arduino_stub (a functional String with c_str()/length()/concat/"
                         "operators and the real class's signatures), host compilers; this is not a build with the Arduino core or an AVR/ARM cross compiler")
    return stats, xofa_ok


# ---------------------------------------------------------------------------
# 3. generators

LENS = [0, 1, 7, 8, 9, 15, 16, 17, 31, 32, 33, 47, 64]
MUTS = ["ok", "ok", "ok", "flipR", "trunc1", "trunc16", "trunc17", "short0", "short15", "ext", "adflip"]
OVERLOADS = ("E", "E3", "EB", "EB2", "DV", "D3", "DB", "DB2")   # pointer 5/3 args, byte_array 3/2 args, encrypt and decrypt
COUNTERS = [0, 1, 255, 256, 2 ** 32 - 1, 2 ** 32, 2 ** 63, 2 ** 64 - 1]


def rb(rng, n):
    return common.rnd_bytes(rng, n)


def packets(rng, count, big=False):
    """a stream of packet operations over all eight overload forms"""
    ops = []
    forms = ["E", "E3", "EB", "EB2", "DV", "D3", "DB", "DB2"]
    rng.shuffle(forms)
    for i in range(count):
        f = forms[i % len(forms)]
        ml = rng.choice(LENS + ([200] if big else []))
        al = rng.choice([0, 0, 1, 8, 9, 16, 17, 40])
        m, ad = hx(rb(rng, ml)), hx(rb(rng, al))
        mut = rng.choice(MUTS)
        if mut == "flipR":
            mut = "flip%d" % rng.randrange(0, (ml + 16) * 8)
        if f in ("E", "EB"):
            ops.append("%s:%s:%s" % (f, ad, m))
        elif f in ("E3", "EB2"):
            ops.append("%s:%s" % (f, m))
        elif f in ("DV", "DB"):
            ops.append("%s:%s:%s:%s" % (f, ad, m, mut))
        else:
            ops.append("%s:%s:%s" % (f, m, mut))
    return ops


def nonce_ops(rng):
    k = rng.randrange(9)
    if k == 0:
        return []
    if k <= 3:
        l = rng.choice([0, 1, 3, 8, 15])
        return ["SN:%s:%d" % (hx(rb(rng, l)) if l else rng.choice(["NULL", "-"]), l)]
    if k == 4:
        return ["SN:%s:16" % hx(rb(rng, 16))]
    if k == 5:
        l = rng.choice([17, 24, 40])
        return ["SN:%s:%d" % (hx(rb(rng, l)), l)]
    if k == 6:      # carry chains of every length
        c = rng.randrange(0, 17)
        return ["SN:%s:16" % hx(rb(rng, 16 - c) + b"\xff" * c)]
    return ["SC:%x" % rng.choice(COUNTERS + [rng.getrandbits(64)])]


def keying_paths(rng, cls):
    """-> list of (path kind, ctor token, [op tokens]) covering the documented construction and keying paths"""
    K, fam = CLASSES[cls]
    key = lambda: hx(rb(rng, K))
    isap = fam == "isap"
    kctor = (lambda k: "KL:%s:%d" % (k, K)) if isap else (lambda k: "K:%s" % k)
    P = [("default", "D", []),
         ("keyctor", kctor(key()), []),
         ("keyctor-null", "KL:NULL:0" if isap else "K:NULL", []),
         ("setkey-full", "D", ["SK:%s:%d" % (key(), K)]),
         ("setkey-full-after-keyctor", kctor(key()), ["SK:%s:%d" % (key(), K)]),
         ("setkey-zero-null", kctor(key()), ["SK:NULL:0"]),
         ("setkey-zero-null-after-default", "D", ["SK:NULL:0"]),
         ("setkey-zero-ptr", kctor(key()), ["SK:%s:0" % hx(rb(rng, 24))]),
         ("setkey-null-full", kctor(key()), ["SK:NULL:%d" % K]),
         ("clear-rekey", kctor(key()), ["CL", "SK:%s:%d" % (key(), K), "SN:%s:16" % hx(rb(rng, 16))])]
    wrong = [1, K - 1, K + 1, 15, 16, 17, 19, 20, 21, 32, 40, 79, 81] + ([] if isap else [80])   # 16/20: the other variant's key size
    for w in sorted(set(wrong) - {K}):
        P.append(("setkey-wrong-%d" % w, kctor(key()), ["SK:%s:%d" % (hx(rb(rng, w)), w)]))
    if isap:
        P += [("keyctor-zero-ptr", "KL:%s:0" % hx(rb(rng, 24)), []),
              ("keyctor-saved", "KLS:%s" % key(), []),
              ("setkey-saved", "D", ["SKS:%s" % key()]),
              ("setkey-saved-after-keyctor", kctor(key()), ["SKS:%s" % key()]),
              ("setkey-saved-raw80", "D", ["SK:%s:80" % hx(rb(rng, 80))]),
              ("setkey-null-80", kctor(key()), ["SK:NULL:80"])]
    if fam == "masked":
        P += [("randomize", kctor(key()), ["RK"]), ("randomize-default", "D", ["RK", "RK"]),
              ("randomize-setkey", "D", ["SK:%s:%d" % (key(), K), "RK"])]
    return P


def gen_cpx(rng, tier):
    lines, meta = [], []
    reps = 2 if tier == "quick" else 6
    for cls in CLASSES:
        for rep in range(reps):
            for (kind, ctor, ops) in keying_paths(rng, cls):
                pk = packets(rng, 8 if tier == "quick" else 12, big=(rep == 0))
                # a second keying step in the middle of the stream for half of the histories
                mid = []
                if rep % 2 == 1:
                    k2 = rng.choice(keying_paths(rng, cls))
                    mid = k2[2]
                half = len(pk) // 2
                allops = ops + nonce_ops(rng) + pk[:half] + mid + nonce_ops(rng) + pk[half:]
                lines.append("CPX %s %s %s" % (cls, ctor, " ".join(allops)))
                meta.append((cls, kind))
    return lines, meta


def gen_xof(rng, tier):
    """-> list of (model line, harness prefix) for xof / xofa templates and hash / hasha"""
    out = []
    n = 6 if tier == "quick" else 20
    names = ["NULL", hx(b"KMAC"), "-", hx(b"a" * 33)]
    for alg in ("xof", "xofa"):
        for L in (0, 1, 16, 32, 33, 64):
            for i in range(n):
                form = rng.choice(["D", "D", "N1", "N3", "NB"])
                if form == "D":
                    ctor = "D"
                else:
                    cu = hx(rb(rng, rng.choice([0, 1, 8, 40]))) if form != "N1" else "-"
                    ctor = "N:%s:%s:%s" % (rng.choice(names), cu, form[1])
                ops = []
                for j in range(rng.randrange(1, 9)):
                    c = rng.choice(["A", "AB", "AC", "AS", "Q", "QB", "P", "R", "CP", "ASG", "SELF", "ST", "A", "Q"])
                    if c in ("A", "AB", "AS"):
                        ops.append("%s:%s" % (c, hx(rb(rng, rng.choice([0, 1, 7, 8, 9, 16, 40])))))
                    elif c == "AC":
                        s = rng.choice(["NULL", hx(b"Hello, World!"), hx(bytes(rng.randrange(1, 256) for _ in range(rng.choice([0, 1, 8, 9, 30])))),
                                        hx(b"ab\x00cd")])
                        ops.append("AC:" + s)
                    elif c in ("Q", "QB"):
                        ops.append("%s:%d" % (c, rng.choice([0, 1, 7, 8, 9, 16, 32, 33, 64, 100])))
                    else:
                        ops.append(c)
                out.append(("XOFC %s %d %s %s" % (alg, L, ctor, " ".join(ops)), "XOFX %s %d %s %s" % (alg, L, ctor, " ".join(ops))))
    for alg in ("hash", "hasha"):
        for i in range(4 * n):
            ops = []
            for j in range(rng.randrange(1, 9)):
                c = rng.choice(["U", "UB", "UC", "US", "F", "FB", "DG", "R", "CP", "ASG", "SELF", "ST", "U"])
                if c in ("U", "UB", "US", "DG"):
                    ops.append("%s:%s" % (c, hx(rb(rng, rng.choice([0, 1, 7, 8, 9, 31, 32, 33, 70])))))
                elif c == "UC":
                    ops.append("UC:" + rng.choice(["NULL", hx(b"Hello, World!"), hx(b"ab\x00cd"), hx(bytes(rng.randrange(1, 256) for _ in range(9)))]))
                else:
                    ops.append(c)
                if c in ("F", "FB"):
                    ops.append("R")        # "the application must call reset() to perform another hashing process"
            out.append(("HSHC %s %s" % (alg, " ".join(ops)), "HSHX %s %s" % (alg, " ".join(ops))))
    # directed: the string-object and C-string overloads of every class on every run (std::string in the default build, String in the
    # ARDUINO build): empty, one character, around the 8-byte rate, with a NUL inside the object, a text that ends at its first NUL
    strs = [b"", b"a", b"1234567", b"12345678", b"123456789", b"ab\x00cd", b"\x00", rb(rng, 40)]
    texts = [b"Hello, World!", b"ab\x00cd", b"x", bytes(rng.randrange(1, 256) for _ in range(17))]
    for alg in ("xof", "xofa"):
        for L in (0, 32):
            for k, d in enumerate(strs):
                ops = ["AS:%s" % hx(d), "AC:%s" % hx(texts[k % len(texts)]), "Q:%d" % (9 if L == 0 else 32), "AS:%s" % hx(strs[(k + 3) % len(strs)])]
                out.append(("XOFC %s %d D %s" % (alg, L, " ".join(ops)), "XOFX %s %d D %s" % (alg, L, " ".join(ops))))
    for alg in ("hash", "hasha"):
        for k, d in enumerate(strs):
            ops = ["US:%s" % hx(d), "UC:%s" % hx(texts[k % len(texts)]), "US:%s" % hx(strs[(k + 3) % len(strs)]), "F", "R", "UC:%s" % hx(texts[(k + 1) % len(texts)])]
            out.append(("HSHC %s %s" % (alg, " ".join(ops)), "HSHX %s %s" % (alg, " ".join(ops))))
    return out


def gen_utl(rng, tier):
    lines = []
    for l in [0, 1, 2, 15, 16, 17, 31, 32, 33, 100, 255]:
        d = hx(rb(rng, l))
        for form in ("P", "B"):
            lines += ["UTL TOHEX %s 0 %s" % (d, form), "UTL TOHEX %s 1 %s" % (d, form), "UTL TOHEXD %s %s" % (d, form)]
        if l:
            lines.append("UTL FROMDATA %s" % d)
        for form in ("L", "C", "S"):
            h = rb(rng, l).hex()
            h = "".join(ch.upper() if rng.random() < 0.4 else ch for ch in h)
            if h:
                lines.append("UTL FROMHEX %s %s" % (h.encode().hex(), form))
            lines.append("UTL FROMHEX %s %s" % ((h + "a").encode().hex(), form))                  # odd number of digits
            lines.append("UTL FROMHEX %s %s" % ((h + "zz").encode().hex(), form))                 # invalid character
    # white space inside valid hex: the helper must return exactly the decoded bytes (fewer than strlen/2)
    for txt in ("01 02 03\n", "00 01 02 03 04 05 06 07", "dead beef\t", " a b c d ", "\n\n12\r\n34"):
        for form in ("L", "C", "S"):
            lines.append("UTL FROMHEX %s %s" % (txt.encode().hex(), form))
    lines += ["UTL FROMHEX NULL C", "UTL FROMHEX 00 S"]
    return lines


# ---------------------------------------------------------------------------
# running and judging

def opkind(line, idx):
    """kind of the constructor (idx 0) / idx-th member call of a CPX line"""
    t = line.split()
    tok = t[2 + idx] if 2 + idx < len(t) else "?"
    f = tok.split(":")
    if f[0] in ("SK", "KL") and len(f) == 3:
        return "%s%s%s" % (f[0], f[2] if f[2] in ("0", "16", "20", "80") else "x", "null" if f[1] == "NULL" else "")
    if f[0] == "K":
        return "K" + ("null" if f[1] == "NULL" else "")
    return f[0]


def shrink_cpx(harness, line, want):
    """drop member calls while the harness still reports the same first deviation kind"""
    t = line.split()
    m = re.search(r"doc=DEV@(\d+):(\w+)", want)
    if not m:
        return line
    idx, what = int(m.group(1)), m.group(2)
    t = t[:3 + idx]
    last_kind = opkind(" ".join(t), idx)

    def still(cand):
        rc, out, err = common.run_lines(harness, [" ".join(cand)], timeout=120)
        mm = re.search(r"doc=DEV@(\d+):(\w+)", out[0] if out else "")
        return bool(mm) and mm.group(2) == what and int(mm.group(1)) == len(cand) - 3 and opkind(" ".join(cand), len(cand) - 3) == last_kind
    i = 3
    while i < len(t) - 1 and len(t) > 3:
        cand = t[:i] + t[i + 1:]
        if still(cand):
            t = cand
        else:
            i += 1
    return " ".join(t)


def build_nostl(res, got, san=False, defs=(), variant="nostl"):
    """The second / third harness: main.cpp + h_cpp.cpp + h_trng.cpp and /repo's src/cplusplus/*.cpp (working tree), all compiled
    with -DASCON_NO_STL (variant "nostl") or with -DARDUINO=10819 and harness/arduino_stub on the include path (variant "arduino"),
    linked before libascon_static.a of the build `got` (whose own C++ members were compiled by CMake without the definition and
    must stay out of the link).  -> (exe, name, info) or None"""
    bdir, _, name = got
    V = RT_VARIANTS[variant]
    vflag = V["flag"]
    name += "-" + variant
    d = os.path.join(bdir, variant)
    os.makedirs(d, exist_ok=True)
    t0 = time.time()
    inc = ["-I" + os.path.join(common.REPO, "src"), "-I" + os.path.join(common.REPO, "src", "ascon"), "-I" + bdir] + V["inc"]
    fl = ["-std=c++11"] + V["defs"] + ["-DHAVE_CONFIG_H", "-DASCON_SUITE_VERIF"] + (common.SAN_FLAGS.split() if san else ["-O1", "-g"])
    cdir = os.path.join(common.REPO, "src", "cplusplus")
    libsrcs = sorted(f for f in os.listdir(cdir) if f.endswith(".cpp"))
    jobs = [("lib", f, ["g++"] + fl + ["-Wall", "-Wextra"] + inc + ["-c", os.path.join(cdir, f), "-o", os.path.join(d, "lib-" + f[:-4] + ".o")]) for f in libsrcs]
    jobs += [("harness", f, ["g++"] + fl + ["-w"] + list(defs) + inc + ["-I" + os.path.join(common.VERIF, "harness"), "-c",
                                                                      os.path.join(common.VERIF, "harness", f), "-o", os.path.join(d, "h-" + f[:-4] + ".o")])
             for f in NOSTL_HARNESS_SRCS]
    with ThreadPoolExecutor(max_workers=len(jobs)) as ex:
        outs = list(ex.map(lambda j: common.sh(j[2], timeout=900), jobs))
    libwarn = sum(len(re.findall(r"\bwarning:", o)) for (j, (rc, o)) in zip(jobs, outs) if j[0] == "lib")
    for (kind, f, cmd), (rc, o) in zip(jobs, outs):
        if rc != 0:
            sig = ("nocompile-%s:src/cplusplus/%s" % (variant, f)) if kind == "lib" else ("harness-build-failed@" + name)
            res.violation(sig, ("/repo's src/cplusplus/%s does not compile with " + vflag + ":\n%s" if kind == "lib" else
                                "the correspondence harness (%s) no longer compiles with " + vflag + " against /repo:\n%s") % (f, o[-1500:]),
                          {"config": name, "command": " ".join(cmd), "log_tail": o[-6000:]}, no_input=True)
            return None
    exe = os.path.join(d, "verif_harness_" + variant)
    objs = [os.path.join(d, "h-" + f[:-4] + ".o") for f in NOSTL_HARNESS_SRCS] + [os.path.join(d, "lib-" + f[:-4] + ".o") for f in libsrcs]
    cmd = ["g++"] + (common.SAN_FLAGS.split() if san else []) + objs + [os.path.join(bdir, "src", "libascon_static.a"), "-lpthread", "-o", exe]
    rc, o = common.sh(cmd, timeout=900)
    if rc != 0:
        res.violation("harness-build-failed@" + name, "the " + vflag + " harness does not link (duplicate or missing symbols between the NO_STL objects "
                      "of src/cplusplus and libascon_static.a?):\n" + o[-1500:], {"config": name, "command": " ".join(cmd), "log_tail": o[-6000:]}, no_input=True)
        return None
    # where do the class members come from?  every ascon:: function must be defined exactly once, the byte_array overloads must be the
    # ones over the library's own class, and nothing over std::vector may have come in from the archive
    rc, nm = common.sh(["nm", "-C", "--defined-only", exe], timeout=300)
    defs_ = [l.split(" ", 2)[2] for l in nm.split("\n") if len(l.split(" ", 2)) == 3 and l.split(" ", 2)[1] in "TtWw" and l.split(" ", 2)[2].startswith("ascon::")]
    own = [x for x in defs_ if re.match(r"ascon::aead::(en|de)crypt\(ascon::byte_array&", x)]
    vec = [x for x in defs_ if "std::vector" in x]
    ba = [x for x in defs_ if x.startswith("ascon::byte_array::")]
    libdefs = set()
    for f in libsrcs:
        rc2, nm2 = common.sh(["nm", "-C", "--defined-only", os.path.join(d, "lib-" + f[:-4] + ".o")], timeout=300)
        libdefs |= set(l.split(" ", 2)[2] for l in nm2.split("\n") if len(l.split(" ", 2)) == 3 and l.split(" ", 2)[1] in "T")
    strong = [x for x in defs_ if x in libdefs]
    strs = [x for x in defs_ if "String const&" in x or "String const &" in x]
    info = {"library_sources_compiled_with_" + vflag[2:].split("=")[0]: libsrcs, "harness_sources": NOSTL_HARNESS_SRCS, "definitions": V["defs"],
            "library_source_warnings": libwarn, "sanitizers": bool(san),
            "nm": {"ascon_functions_defined_in_exe": len(defs_), "of_them_defined_by_the_NO_STL_objects": len(strong),
                   "aead_byte_array_overloads_over_own_class": len(own), "byte_array_class_members": len(ba), "symbols_over_std_vector": len(vec)},
            "build_wall_s": round(time.time() - t0, 1)}
    if variant == "arduino":
        # the String overloads are inline members of the headers (usually inlined into the harness: the list may be empty)
        info["nm"]["String_overloads_emitted_out_of_line"] = sorted(set(re.sub(r"<[^>]*>", "<L>", x.split("(")[0]) for x in strs))
        info["stub"] = "harness/arduino_stub (functional stand-in for the Arduino core's String class; host compiler)"
    if len(own) != 4 or not ba or vec:
        res.violation("harness-build-failed@" + name, "the " + vflag + " harness is not made of NO_STL objects: %s" % info["nm"],
                      {"config": name, "nm": info["nm"], "std_vector_symbols": vec[:10]}, no_input=True)
        return None
    return exe, name, info


def first_diff_call(a, b):
    """index of the first call whose printed part differs between two CPX result lines"""
    x, y = a.split("] "), b.split("] ")
    k = 0
    while k < min(len(x), len(y)) and x[k] == y[k]:
        k += 1
    return k


def shrink_nostl(harness, ref_harness, line, env=None):
    """drop earlier member calls while the two builds still first differ at the last call, which keeps its kind"""
    t = line.split()
    kind = opkind(line, len(t) - 3)

    def still(cand):
        l = " ".join(cand)
        rc, a, _ = common.run_lines(harness, [l], env=env, timeout=120)
        rc, b, _ = common.run_lines(ref_harness, [l], timeout=120)
        return bool(a and b) and a[0] != b[0] and first_diff_call(b[0], a[0]) == len(cand) - 3 and opkind(l, len(cand) - 3) == kind
    if len(t) <= 4 or not still(t):
        return line
    i = 3
    while i < len(t) - 1:
        cand = t[:i] + t[i + 1:]
        if still(cand):
            t = cand
        else:
            i += 1
    return " ".join(t)


BA_TOKENS = ("EB", "EB2", "DB", "DB2", "QB", "AB", "FB", "UB")


def shrink_xof(driver, harness, ref_harness, model_line, env=None):
    """drop member calls of an XOFC/HSHC history while the two harnesses still print different lines"""
    t = model_line.split()
    first = 4 if t[0] == "XOFC" else 2

    def differs(cand):
        ml = " ".join(cand)
        rc, calls, _ = common.run_lines(driver, [ml], timeout=120)
        if not calls:
            return False
        hl = "%s | %s" % (ml.replace("XOFC", "XOFX", 1).replace("HSHC", "HSHX", 1), calls[0])
        rc, a, _ = common.run_lines(harness, [hl], env=env, timeout=120)
        rc, b, _ = common.run_lines(ref_harness, [hl], timeout=120)
        return bool(a and b) and a[0].replace(" SKIPPED-NOSTL", "") != b[0]
    i = first
    while i < len(t) and len(t) > first + 1:
        cand = t[:i] + t[i + 1:]
        if differs(cand):
            t = cand
        else:
            i += 1
    return " ".join(t)


def run_config(res, driver, harness, cfgname, cpx, meta, xof, utl, versions, stats, env=None, ref=None, ref_harness=None, info=None, variant="nostl"):
    """ref: the result lines of the default (STL) harness for the same streams; given for the ASCON_NO_STL harness (variant "nostl") and for
    the ARDUINO harness (variant "arduino"), whose lines must be identical"""
    t0 = time.time()
    nostl = ref is not None
    vlong, vflag = RT_VARIANTS[variant]["long"], RT_VARIANTS[variant]["flag"]
    skip_ok = variant == "nostl"          # the ARDUINO build has a String form for every STL-only operation: nothing may be skipped there
    nident = ndiff = 0
    skipped_nostl = {"xof_histories_with_AS": 0, "hash_histories_with_US": 0, "helper_cases": 0}
    # ---- CPX: model and implementation
    rc_m, out_m, err_m = common.run_parallel(driver, cpx)
    if rc_m:
        raise common.Infra("model driver failed: " + err_m[-1500:])
    rc_i, out_i, err_i = common.run_parallel(harness, cpx, env=env)
    combos = set()
    ndev = nmodel = 0
    seen = set()
    for k_, (line, (cls, kind), mo, io) in enumerate(zip(cpx, meta, out_m, out_i)):
        for tok in line.split()[3:]:
            if tok.split(":")[0] in OVERLOADS:
                combos.add((cls, kind, tok.split(":")[0]))
        if nostl:
            # the ASCON_NO_STL build against the default build, line by line; what both print alike has been judged under the default build
            if io == ref["cpx"][k_]:
                nident += 1
                continue
            ndiff += 1
            k = first_diff_call(ref["cpx"][k_], io)
            sig = "%s-differs:%s:%s" % (variant, cls, opkind(line, k))
            if sig in seen:
                continue
            seen.add(sig)
            t = line.split()
            small = " ".join(t[:3 + k])                      # the history up to the first differing call, then without the calls it does not need
            if k >= 1:
                small = shrink_nostl(harness, ref_harness, small, env=env)
                k = len(small.split()) - 3
            rc, a2, _ = common.run_lines(harness, [small], env=env, timeout=120)
            rc, b2, _ = common.run_lines(ref_harness, [small], timeout=120)
            if not (a2 and b2 and a2[0] != b2[0]):
                small, a2, b2, k = line, [io], [ref["cpx"][k_]], first_diff_call(ref["cpx"][k_], io)
            rc, m2, _ = common.run_lines(driver, [small], timeout=120)
            res.violation(sig, "ascon::%s %s behaves differently from the default "
                          "build at call %d (%s) of: %s\n  default build:  %s\n  %s:   %s\n  model:          %s" %
                          (cls, vlong, k, opkind(small, k), small[:400], b2[0][:600], vflag, a2[0][:600], (m2[0] if m2 else "")[:600]),
                          {"config": cfgname, "ops": [small], "impl": a2, "default": b2, "model": m2, "original_line": line,
                           "how": "./check C17 --replay <this file>  (rebuilds the %s harness and the default harness from the working tree and "
                                  "feeds `ops` to both and to build/ocaml/driver)" % vflag})
            continue
        # (a) the real classes against the direct C calls under the documented key / nonce
        md = re.search(r"doc=(DEV@(\d+):(\w+))", io)
        if md:
            ndev += 1
            idx = int(md.group(2))
            sig = "doc-dev:%s:%s:%s" % (cls, opkind(line, idx), md.group(3))
            if sig in seen:
                continue
            seen.add(sig)
            small = shrink_cpx(harness, line, io)
            rc, o2, _ = common.run_lines(harness, [small], timeout=120)
            rc, m2, _ = common.run_lines(driver, [small], timeout=120)
            ms = re.search(r"doc=DEV@(\d+):", o2[0] if o2 else "")
            if ms:
                idx = int(ms.group(1))
            coq = ""
            if cls == "siv80pq" and versions.get("siv80pq") == "CodeAsFound":
                coq = "\n  Coq: C17_aead_siv80pq_current / C17_aead_siv80pq_refuted prove the negation of the statement for the model of this code"
            if CLASSES[cls][1] == "isap" and versions.get("isap_setkey0") == "CodeAsFound":
                coq = "\n  Coq: C17_aead_isap_current / C17_aead_isap_refuted prove the negation of the statement for the model of this code"
            res.violation(sig,
                          "ascon::%s departs from its documentation at call %d (%s) of: %s\n  %s: the object's %s differs from what the direct C call "
                          "with the documented key and nonce gives\n  real classes: %s\n  model of the code: %s%s" %
                          (cls, idx, opkind(small, idx), small[:400], md.group(3),
                           {"key": "held key", "nonce": "held nonce", "ret": "return value", "out": "output bytes", "fault": "behaviour (it crashes)"}.get(md.group(3), md.group(3)),
                           (o2[0] if o2 else "")[:600], (m2[0] if m2 else "")[:600], coq),
                          {"config": cfgname, "ops": [small], "impl": o2, "model": m2, "original_line": line,
                           "how": "./check C17 --replay <this file>  (feeds `ops` to the harness built from the working tree and to build/ocaml/driver)"})
        if "fwd=BAD" in io or "CANARY" in io or "BADOP" in io or io.startswith("ERR"):
            res.violation("fwd:%s" % cls, "ascon::%s: a member's result differs from the C function applied to the key and nonce the object holds, "
                          "or wrote outside its buffers: %s\n  %s" % (cls, line[:300], io[:600]),
                          {"config": cfgname, "ops": [line], "impl": [io], "model": [mo]})
        # (b) the model of the code against the code
        if mo != io:
            nmodel += 1
            if ("mvc", cls) in seen:
                continue
            seen.add(("mvc", cls))
            a = mo.split("] "); b = io.split("] ")
            k = 0
            while k < min(len(a), len(b)) and a[k] == b[k]:
                k += 1
            hint = ""
            if cls == "siv80pq" or CLASSES[cls][1] == "isap":
                hint = ("\n  if /repo was fixed, set the flag in coq/Model/Cppm.v: `Definition %s : cpp_code_version := CodeFixed.`" %
                        ("siv80pq_code" if cls == "siv80pq" else "isap_setkey0_code"))
            res.violation("model-vs-code:%s:%s" % (cls, opkind(line, k)),
                          "the model of ascon::%s (coq/Model/Cppm.v, flags %s) and the real class disagree at call %d of: %s\n  model: %s\n  impl:  %s%s" %
                          (cls, versions, k, line[:300], mo[:500], io[:500], hint),
                          {"config": cfgname, "ops": [line], "model": [mo], "impl": [io],
                           "how": "./check C17 --replay <this file>"})
    if rc_i and not ndev and not nmodel:
        res.violation("harness-crash@" + cfgname, "harness exited abnormally: " + err_i[-800:], {"stderr": err_i[-3000:]}, no_input=True)
    # ---- xof / hash: the model's C call sequence, executed by the harness next to the C++ members
    rc_m, calls, err_m = common.run_parallel(driver, [m for (m, h) in xof])
    if rc_m:
        raise common.Infra("model driver failed: " + err_m[-1500:])
    hl = ["%s | %s" % (h, c) for (m, h), c in zip(xof, calls)]
    rc_i, xo, err_x = common.run_parallel(harness, hl, env=env)
    nskipped = 0
    for k_, (l, o) in enumerate(zip(hl, xo)):
        if "SKIPPED-NONCOMPILING" in o:
            nskipped += 1
        if nostl:
            if " SKIPPED-NOSTL" in o and skip_ok:       # std::string overload (AS / US): absorbed through the pointer overload instead, counted
                skipped_nostl["xof_histories_with_AS" if l.startswith("XOFX") else "hash_histories_with_US"] += 1
                o = o.replace(" SKIPPED-NOSTL", "")
            if o == ref["xof"][k_]:
                nident += 1
                continue
            ndiff += 1
            t = l.split()
            cls = t[1] if t[0] == "HSHX" else "%s<%s>" % (t[1], t[2])
            small = shrink_xof(driver, harness, ref_harness, xof[k_][0], env=env)
            kinds = []
            for tok in small.split()[(4 if t[0] == "XOFX" else 2):]:
                if tok.split(":")[0] not in kinds:
                    kinds.append(tok.split(":")[0])
            sig = "%s-differs:%s:%s" % (variant, cls, "+".join(kinds[:4]) or "ctor")
            if sig in seen:
                continue
            seen.add(sig)
            rc, calls2, _ = common.run_lines(driver, [small], timeout=120)
            hl2 = "%s | %s" % (small.replace("XOFC", "XOFX", 1).replace("HSHC", "HSHX", 1), calls2[0] if calls2 else "")
            rc, a2, _ = common.run_lines(harness, [hl2], env=env, timeout=120)
            rc, b2, _ = common.run_lines(ref_harness, [hl2], timeout=120)
            res.violation(sig, "ascon::%s %s gives a different result from the default build (and from the C call sequence) for: %s\n"
                          "  default build:  %s\n  %s:   %s" % (cls, vlong, hl2[:400], (b2[0] if b2 else "")[:300], vflag, (a2[0] if a2 else "")[:300]),
                          {"config": cfgname, "ops": [hl2], "impl": a2, "default": b2, "original_line": l,
                           "how": "./check C17 --replay <this file>"})
            continue
        if " C=ok" not in o:
            t = l.split()
            res.violation("xof-hash:%s" % t[1] if t[0] == "HSHX" else "xof-hash:%s<%s>" % (t[1], t[2]),
                          "C++ members and the C call sequence of the model give different output: %s\n  %s" % (l[:400], o[:400]),
                          {"config": cfgname, "ops": [l], "impl": [o]})
    # documented: xof_with_output_length<32> is identical to ascon::hash (xofa<32>: hasha)
    ident = []
    for alg, h in (("xof", "hash"), ("xofa", "hasha")):
        for d in ("-", "616263", "00" * 40):
            ident += ["XOFX %s 32 D A:%s Q:32 | init_fixed:32 absorb:%s squeeze:32" % (alg, d, d), "HSHX %s U:%s F R | update:%s finalize reinit" % (h, d, d)]
    rc, io_, _ = common.run_parallel(harness, ident, env=env)
    for k in range(0, len(ident), 2):
        if io_[k][:64] != io_[k + 1][:64]:
            res.violation("xof32-vs-hash", "xof*_with_output_length<32> differs from the hash class, contrary to the class documentation: %s -> %s ; %s -> %s" %
                          (ident[k], io_[k][:80], ident[k + 1], io_[k + 1][:80]), {"config": cfgname, "ops": ident[k:k + 2], "impl": io_[k:k + 2]})
    # ---- helpers
    rc_m, um, _ = common.run_parallel(driver, utl)
    rc_i, ui, _ = common.run_parallel(harness, utl, env=env)
    for k_, (l, mo, io) in enumerate(zip(utl, um, ui)):
        if nostl:
            if io == "SKIPPED-NOSTL" and skip_ok:        # bytes_to_hex / bytes_from_hex(std::string): not declared without the STL
                skipped_nostl["helper_cases"] += 1
                continue
            if io == ref["utl"][k_] and io == mo:
                nident += 1
                continue
            ndiff += 1
            t = l.split()
            res.violation("%s-differs:utility:%s" % (variant, "-".join([t[1]] + (t[-1:] if t[1] != "FROMDATA" else []))),
                          "utility.h helper %s differs from the default build / the model: %s\n  default build:  %s\n  %s:   %s\n"
                          "  model:          %s" % (vlong, l[:200], ref["utl"][k_][:300], vflag, io[:300], mo[:300]),
                          {"config": cfgname, "ops": [l], "impl": [io], "default": [ref["utl"][k_]], "model": [mo], "how": "./check C17 --replay <this file>"})
            continue
        if " C=ok" not in io or mo != io:
            res.violation("helper:%s" % l.split()[1], "utility.h helper differs from the C function / the model: %s\n  model: %s\n  impl:  %s" % (l[:200], mo[:300], io[:300]),
                          {"config": cfgname, "ops": [l], "model": [mo], "impl": [io]})
    stats.append({"config": cfgname, "cpx_histories": len(cpx), "cpx_member_calls": sum(len(l.split()) - 2 for l in cpx),
                  "class_path_overload_combinations": len(combos), "histories_departing_from_documentation": ndev,
                  "model_vs_code_disagreements": nmodel, "xof_hash_histories": len(hl), "xofa_string_overloads_skipped_in": nskipped,
                  "helper_cases": len(utl), "wall_s": round(time.time() - t0, 1)})
    if nostl:
        ntok = {}
        for l in cpx + [h for (m, h) in xof]:
            for tok in l.split()[2:]:
                if tok.split(":")[0] in BA_TOKENS or tok.startswith("N:") and tok.endswith(":B"):
                    kk = "NB" if tok.startswith("N:") else tok.split(":")[0]
                    ntok[kk] = ntok.get(kk, 0) + 1
        ntok["UTL-FROMHEX-L/C,FROMDATA"] = len(utl) - skipped_nostl["helper_cases"]
        if variant == "arduino":
            # what ran through a String: AS / US always, TOHEX / TOHEXD (String result), FROMHEX S; AC / UC / FROMHEX C with a text on a coin toss
            sf = {}
            for l in [h for (m, h) in xof]:
                for tok in l.split("|")[0].split()[2:]:
                    f = tok.split(":")
                    if f[0] in ("AS", "US") or (f[0] in ("AC", "UC") and f[1:2] != ["NULL"]):
                        kk = {"AS": "absorb(const String &) [AS]", "US": "update(const String &) [US]",
                              "AC": "absorb(String(text)) or absorb(const char *) by coin [AC]", "UC": "update(String(text)) or update(const char *) by coin [UC]"}[f[0]]
                        sf[kk] = sf.get(kk, 0) + 1
            for l in utl:
                t = l.split()
                if t[1] in ("TOHEX", "TOHEXD"):
                    kk = "bytes_to_hex(%s) -> String" % ("pointer, length" if t[-1] == "P" else "byte_array")
                elif t[1] == "FROMHEX" and t[3] == "S":
                    kk = "bytes_from_hex(const String &) [FROMHEX S]"
                elif t[1] == "FROMHEX" and t[3] == "C" and t[2] != "NULL":
                    kk = "bytes_from_hex(String(text)) or (const char *) by coin [FROMHEX C]"
                else:
                    continue
                sf[kk] = sf.get(kk, 0) + 1
            stats[-1]["arduino"] = True
            stats[-1]["string_form_calls_executed"] = sf
        stats[-1].update({("ascon_no_stl" if variant == "nostl" else "ascon_no_stl_through_ARDUINO"): True, "lines_compared_with_default_build": len(cpx) + len(hl) + len(utl) - skipped_nostl["helper_cases"],
                          "lines_identical_to_default_build": nident, "lines_differing": ndiff,
                          "skipped_stl_only": {"none": "every STL-only operation has a String form in this build and was executed"} if variant == "arduino" else dict(skipped_nostl, note="AS/US: the data went through the pointer overload instead and the line was still compared; "
                                                                       "helper cases: TOHEX/TOHEXD (both forms) and FROMHEX S answer SKIPPED-NOSTL and are not compared"),
                          "byte_array_form_calls_over_own_class": ntok, "build": info})
    return combos, {"cpx": out_i, "xof": xo, "utl": ui}


def replay_run(res, driver, replay, scratch):
    rp = json.load(open(replay))["replay"]
    if rp.get("kind") == "compile":
        variant = rp.get("variant", "stl")
        d = os.path.join(scratch, "replay")
        os.makedirs(d, exist_ok=True)
        open(os.path.join(d, rp["tu_name"]), "w").write(rp["tu"])
        for (n, c) in COMPILERS:
            if not shutil.which(c[0]):
                continue
            cmd = c + gcm.variant_flags(variant, common.REPO) + [rp["tu_name"]]
            rc, out = common.sh(cmd, cwd=d)
            print("[%s] %s\n  exit %d\n%s" % (n, " ".join(cmd), rc, out[:3000]))
            if rc != 0 or out.strip():
                res.violation("nocompile:replay", "the replayed translation unit (variant %s) still does not compile with %s:\n%s" % (variant, n, out[:1500]),
                              {"kind": "compile", "variant": variant, "tu_name": rp["tu_name"], "tu": rp["tu"], "compiler": n, "compiler_output": out[:6000]})
        return
    b = stdflow.Builds(res, scratch)
    got = b.get("default")
    if not got:
        return
    nostl = None
    rvar = "nostl" if str(rp.get("config", "")).endswith("-nostl") else "arduino" if str(rp.get("config", "")).endswith("-arduino") else None
    if rvar:
        nostl = build_nostl(res, got, variant=rvar, defs=(("-DC17_XOFA_STRING_OK",) if rvar == "arduino" else ()))
        if not nostl:
            return
        print("%s harness rebuilt: %s" % (RT_VARIANTS[rvar]["flag"], nostl[2]["nm"]))
    for l in rp["ops"]:
        rc, io, err = common.run_lines(got[1], [l])
        print("op:    " + l)
        print("impl:  " + (io[0] if io else "<none> " + err[-300:]))
        mo = None
        if l.startswith(("CPX", "UTL")):
            rc, mo, _ = common.run_lines(driver, [l])
            print("model: " + (mo[0] if mo else "<none>"))
        o = io[0] if io else ""
        if "doc=DEV" in o or "MISMATCH" in o or "fwd=BAD" in o:
            res.violation("replay", "the replayed case still fails: %s\n  %s" % (l[:300], o[:600]), {"config": "default", "ops": [l], "impl": io})
        if nostl:
            rc, no, err = common.run_lines(nostl[0], [l])
            n0 = (no[0] if no else "<none> " + err[-300:])
            print("%s: %s" % (rvar, n0))
            n1 = n0.replace(" SKIPPED-NOSTL", "") if rvar == "nostl" else n0
            if (n1 != "SKIPPED-NOSTL" or rvar != "nostl") and (n1 != o or (mo and n1 != mo[0])):
                res.violation("replay-" + rvar, "the replayed case still differs between the " + RT_VARIANTS[rvar]["flag"] + " build and the default build / the model: %s\n"
                              "  default build:  %s\n  this build:     %s" % (l[:300], o[:600], n0[:600]),
                              {"config": nostl[1], "ops": [l], "impl": no, "default": io, "model": mo})


def run(res, tier, seed, replay=None):
    t0 = time.time()
    rng = random.Random(seed)
    pr = stdflow.prove(res, "C17")
    driver = common.build_driver()
    rc, ver, _ = common.run_lines(driver, ["CPXVER"])
    versions = dict(x.split("=") for x in ver[0].split()) if ver and "=" in ver[0] else {}
    with common.Scratch() as sc:
        if replay:
            replay_run(res, driver, replay, sc)
            res.cov["wall_total"] = round(time.time() - t0, 1)
            return "proof"
        tc = time.time()
        call, xofa = compile_coverage(res, sc)
        cstats, xofa_ok = call["stl"], xofa["stl"]
        stage = {"compile_coverage": round(time.time() - tc, 1)}
        cpx, meta = gen_cpx(rng, tier)
        xof = gen_xof(rng, tier)
        utl = gen_utl(rng, tier)
        b = stdflow.Builds(res, sc)
        defs = ("-DC17_XOFA_STRING_OK",) if xofa_ok else ()
        ndefs = ("-DC17_XOFA_STRING_OK",) if xofa["nostl"] else ()
        adefs = ("-DC17_XOFA_STRING_OK",) if xofa["arduino"] else ()
        # (configuration, sanitizers, run-time variant of the headers: None = STL, "nostl" = -DASCON_NO_STL, "arduino" = -DARDUINO against the stub)
        plan = [("default", False, None), ("default", False, "nostl"), ("default", False, "arduino")] if tier == "quick" else \
               [("default", False, None), ("default", False, "nostl"), ("default", False, "arduino"), ("c32", False, None), ("generic", False, None),
                ("default", True, None), ("default", True, "nostl"), ("default", True, "arduino")]
        stats, combos = [], set()
        ref = ref_harness = None
        for cfg, san, nostl in plan:
            tb = time.time()
            got = b.get(cfg, san=san, harness_defs=defs)
            if not got:
                continue
            env = {"VERIF_EXACT": "1", "ASAN_OPTIONS": "detect_leaks=0"} if san else None
            if not nostl:
                stage["build:" + got[2]] = round(time.time() - tb, 1)
                cb, outs = run_config(res, driver, got[1], got[2], cpx, meta, xof, utl, versions, stats, env=env)
                combos |= cb
                if ref is None and cfg == "default" and not san:
                    ref, ref_harness = outs, got[1]
                continue
            if ref is None:
                res.notes.append("%s run-time replay skipped: no default-build reference run" % RT_VARIANTS[nostl]["flag"])
                continue
            n = build_nostl(res, got, san=san, defs=(ndefs if nostl == "nostl" else adefs), variant=nostl)
            if not n:
                continue
            stage["build:" + n[1]] = round(time.time() - tb, 1)
            run_config(res, driver, n[0], n[1], cpx, meta, xof, utl, versions, stats, env=env, ref=ref, ref_harness=ref_harness, info=n[2], variant=nostl)
    hist = {}
    for l in cpx:
        for tok in l.split()[2:]:
            k = tok.split(":")[0]
            hist[k] = hist.get(k, 0) + 1
    nontrivial = len(set(l for l in cpx if len(l.split()) > 3))
    res.cov.update({
        "evaluations": sum(s["cpx_histories"] + s["xof_hash_histories"] + s["helper_cases"] for s in stats),
        "distinct_nontrivial": nontrivial + len(set(h for (m, h) in xof)),
        "rule": "CPX: one object history per line = constructor + keying path + nonce setting + a stream of packets over all eight "
                "encrypt/decrypt overload forms (pointer 3/5 args, byte_array 2/3 args; valid, bit-flipped, truncated, too short, extended "
                "ciphertexts, changed AD), for each of the 12 cipher classes x documented construction/keying path; distinct = distinct line "
                "text, non-trivial = has at least one member call; XOFX/HSHX: member-call histories of xof/xofa<0,1,16,32,33,64> and hash/hasha",
        "samples": cpx[:2] + cpx[-1:] + [h for (m, h) in xof[:1]] + utl[:1],
        "members_compiled": cstats["member_uses_compiled"],
        "compile_coverage": cstats,
        "compile_coverage_nostl": call["nostl"],
        "compile_coverage_arduino": call["arduino"],
        "compile_passes": {v: {"defines": st["defines"], "translation_units": st["translation_units"], "member_uses": st["member_uses_compiled"],
                               "compilers_x_standards": len(st["compilers"]), "compilations": st["compilations"],
                               "failed": st["compilations_failed"], "failure_locations": st["distinct_failure_locations"]} for v, st in call.items()},
        "stage_wall_s": stage,
        "class_path_overload_combinations": len(combos),
        "model_code_versions": versions,
        "xofa_string_overloads_in_harness": bool(xofa_ok),
        "per_config": stats,
        "input_distribution": {"tokens": hist, "message_lengths": LENS, "mutations": sorted(set(MUTS)), "counters": [str(c) for c in COUNTERS],
                               "classes": sorted(CLASSES), "paths_per_class": {c: len(keying_paths(random.Random(1), c)) for c in CLASSES},
                               "std-levels": STD_LEVELS,
                               "nostl-compile-pass": "every row of the member table that exists with -DASCON_NO_STL (std::string rows dropped, the 29 non-private "
                                                     "members of the library's own class ascon::byte_array added): %d TUs, %d uses, x %d compiler/standard pairs" %
                                                     (call["nostl"]["translation_units"], call["nostl"]["member_uses_compiled"], len(call["nostl"]["compilers"])),
                               "arduino-compile-pass": "the same with -DARDUINO=10819 plus the String overloads (hash/hasha update, xof/xofa absorb, bytes_from_hex, "
                                                       "bytes_to_hex -> String), against the STUB <Arduino.h>/<WString.h> of harness/arduino_stub: %d TUs, %d uses, "
                                                       "x %d compiler/standard pairs" %
                                                       (call["arduino"]["translation_units"], call["arduino"]["member_uses_compiled"], len(call["arduino"]["compilers"])),
                               "nostl-runtime-replay": "the same CPX / XOFX / HSHX / UTL streams fed to a second harness built with -DASCON_NO_STL "
                                                       "(byte_array forms EB/EB2/DB/DB2, QB/AB/N..B, FB/UB, FROMHEX L/C, FROMDATA over the library's own class); "
                                                       "every line must equal the default-build line and the model line; STL-only operations (AS, US, TOHEX*, FROMHEX S) "
                                                       "are counted in per_config[].skipped_stl_only; empty input arrays alternate between the array without a buffer "
                                                       "and the zero-sized array with one, and in half of the encrypt/decrypt calls the output array shares its buffer "
                                                       "with a copy taken before the call, which must keep its contents",
                               "arduino-runtime-replay": "the same streams fed to a third harness built with -DARDUINO=10819 against the stub String: AS / US run "
                                                         "through absorb / update (const String &) (Strings built character by character, NULs inside included), "
                                                         "TOHEX / TOHEXD through the bytes_to_hex forms returning String, FROMHEX S through bytes_from_hex(const String &), "
                                                         "AC / UC / FROMHEX C with a text through a String built from the text or the const char * form (coin per call); "
                                                         "gen_xof adds directed histories (strings of 0, 1, 7, 8, 9, 40 characters, with a NUL inside, a lone NUL) for "
                                                         "xof/xofa<0>, <32>, hash, hasha on every run; every line must equal the default-build line; counts in "
                                                         "per_config[].string_form_calls_executed"},
        "oracles": {"plain+masked classes": "extracted Coq model of the C function (x_aead_encrypt/x_aead_decrypt) inside the extracted object model, "
                                            "AND the in-harness direct C call under the documented key/nonce",
                    "siv+isap classes": "in-harness direct C call (documented key/nonce, and held key/nonce); the extracted object model predicts "
                                        "held key identity, nonce, return values and accept/reject through a free cipher - the SIV/ISAP C functions "
                                        "themselves have no Coq model in this check (C06)",
                    "hash/xof classes": "in-harness C call sequence, the sequence being produced by the extracted wrapper model",
                    "helpers": "in-harness C function AND the extracted wrapper model over an OCaml rendering of the two hex functions"},
    })
    res.assumptions += [
        "the C functions satisfy the premise cfun_ok of the theorems (depend on the key object only through the key; write mlen+16 / clen-16 bytes; "
        "refuse inputs shorter than the tag) - C01/C02/C06 state this of the real functions; masked key objects satisfy mkey_ok (C10)",
        "Model/Cppm.v mirrors src/cplusplus/*.cpp and the inline wrappers only as far as the differential run shows (held key, nonce, results after every call)",
        "uninitialised storage is modelled as arbitrary prior bytes (the harness pre-fills the object's storage with 0xC7 and constructs in place)",
        "a diagnostic-free -fsyntax-only compilation of a translation unit that odr-uses the member is taken as 'compiles when used' "
        "(g++ 12 and clang++ 14, each with -std=c++11 and -std=c++17; other standards and compilers are not tried)",
        "the ASCON_NO_STL variant of the headers is compiled member by member (second pass) and run: src/cplusplus/*.cpp are compiled here with "
        "-DASCON_NO_STL (g++ -std=c++11) and linked with the C objects of the default CMake build; the run-time comparison covers the default backend "
        "and share configuration only; the semantics of the library's own byte_array class beyond what these calls exercise is C20's subject",
        "the ARDUINO variant is compiled (third pass) and run (configuration default-arduino: src/cplusplus/*.cpp and the harness compiled with "
        "-DARDUINO=10819, the String overloads executed, every line equal to the default build's), on the host, against a STUB of <Arduino.h>/<WString.h> "
        "(harness/arduino_stub: a functional String class with the real signatures of the members used); it is not built with the Arduino core and not "
        "cross-compiled; default backend and share configuration only",
        "all lengths < 2^31",
    ]
    res.cov["wall_total"] = round(time.time() - t0, 1)
    return "proof"
