"""C20 - hex codec round-trips and rejects bad input; the ASCON_NO_STL byte_array is a vector.

Proof: coq/Props/Properties_C20.v (Model/Hexm.v, Model/ByteArraym.v).
Tie (D), every run:
  * hex: the main harness (STL configuration of the headers, library built
    from the working tree) runs HEXENC/HEXDEC/HEXRT/HEXCPP/HEXCPPENC lines;
  * byte_array: harness/x_bytearray.cpp is compiled with -DASCON_NO_STL
    together with src/cplusplus/ascon-byte-array.cpp and src/core/ascon-hex.c
    of the working tree (plain and ASan/UBSan) and runs `BA ...` sessions,
    once on ascon::byte_array and once on std::vector.
Each implementation output is compared line by line with
  - the extracted model of the code after the patches in /verif/fixes (the
    model for which the property is PROVED): a difference is a concrete input
    on which the code departs from the property -> VIOLATION with replay
    (byte_array: the comparison is on results and variable VALUES - the form
    std::vector prints - because the unshare patch changes which blocks are
    shared even where no value differs);
  - std::vector run side by side (byte_array only): likewise;
  - the extracted *selected* model (Model/C20Config.v: the code /repo is
    believed to have), complete lines (reference counts, alias classes,
    capacities, leaked marks, live blocks): a difference that is not explained
    by "the code equals a more-fixed model here" means the model no longer
    describes the code -> VIOLATION (tie broken); if the code equals the fixed
    (or fixed-index) model the flag is merely stale and a NOTE is printed.
Held references (operations SET2 SWAP GETHELD GETHELDC HELDPOP DATAHELDCOPY
DATAHELDASSIGN CDATAHELD): the harness keeps released storage aside while such
an operation runs and prints UAF instead of using a reference into released
storage (deterministic in every build, also when the stale value would "look
right"); the model prints UAF when the block of a held reference is deleted.
For every reported UAF the shrunk replay is run once more in the ASan build
with VERIF_BA_RAW=1 (the access really performed) and AddressSanitizer's
heap-use-after-free report is attached to the violation.
The Coq specification of std::vector (vec_step) is itself run against the real
std::vector; a difference there is an error of the check (exit 2)."""
import os, re, json, time, random, collections
import common, stdflow, diffrun
from common import hx

WS = [0x20, 0x09, 0x0A, 0x0B, 0x0C, 0x0D]
HEXD = list(b"0123456789abcdefABCDEF")


def sh(b):
    return bytes(b).hex() if len(b) else "-"


# --------------------------------------------------------------------------
# reference (Python) for generator bookkeeping only
def py_decode(s):
    out, hi = [], None
    for c in s:
        ch = chr(c)
        if ch in "0123456789abcdefABCDEF":
            d = int(ch, 16)
            if hi is None:
                hi = d
            else:
                out.append(hi * 16 + d); hi = None
        elif c in WS:
            continue
        else:
            return None
    return None if hi is not None else out


# --------------------------------------------------------------------------
# hex workload
def gen_hex(rng, tier):
    lines, stats = [], collections.Counter()
    lens = collections.Counter()

    def add(kind, line):
        lines.append(line); stats[kind] += 1

    # encoder: every length 0..40 and a few long ones, outlen around the exact need, both cases
    enc_lens = list(range(0, 41)) + [63, 64, 65, 255, 256, 1000] + ([4096, 20000] if tier == "thorough" else [])
    for n in enc_lens:
        data = bytes(rng.getrandbits(8) for _ in range(n))
        need = 2 * n + 1
        for outlen in sorted(set([0, 1, max(need - 2, 0), need - 1, need, need + 1, need + 7])):
            for up in ("0", "1"):
                add("enc", "HEXENC %d %s %s" % (outlen, sh(data), up)); lens[n] += 1
    allb = bytes(range(256))
    for up in ("0", "1", "2", "-1"):
        add("enc", "HEXENC 513 %s %s" % (sh(allb), up))
        add("rt", "HEXRT %s %s" % (sh(allb), "1" if up != "0" else "0"))
    for n in list(range(0, 65)) + [100, 255, 1000]:
        for _ in range(2 if tier == "quick" else 6):
            data = bytes(rng.getrandbits(8) for _ in range(n))
            add("rt", "HEXRT %s %d" % (sh(data), rng.randrange(2)))
    # decoder: every byte value in every nibble position of a short string, outlen = need-1, need, need+1
    for c in range(256):
        for k, s in enumerate(([c] + list(b"12"), [ord("1"), c, ord("2")], list(b"12") + [c], list(b"12") + [c] + list(b"3f"),
                               [ord("A"), c], [c], [c, c])):
            d = py_decode(s)
            need = len(d) if d is not None else sum(1 for x in s if x in HEXD) // 2
            for outlen in sorted(set([max(need - 1, 0), need, need + 1])):
                add("dec-allbytes", "HEXDEC %d %s" % (outlen, sh(s)))
    # white space in every position (each of the six characters; runs of several)
    for npairs in range(0, 5):
        base = [rng.choice(HEXD) for _ in range(2 * npairs)]
        for pos in range(len(base) + 1):
            for w in WS:
                s = base[:pos] + [w] + base[pos:]
                add("dec-ws", "HEXDEC %d %s" % (npairs, sh(s)))
                add("cpp-ws", "HEXCPP %s %s" % (rng.choice(["PL", "ST", "PZ"]), sh(s)))
            s = base[:pos] + [rng.choice(WS) for _ in range(rng.randrange(2, 5))] + base[pos:]
            add("dec-ws", "HEXDEC %d %s" % (npairs + rng.randrange(2), sh(s)))
            for var in ("PL", "ST", "PZ"):
                add("cpp-ws", "HEXCPP %s %s" % (var, sh(s)))
    # odd digit counts, with and without white space
    for nd in (1, 3, 5, 7, 33):
        s = [rng.choice(HEXD) for _ in range(nd)]
        for outlen in (nd // 2, nd // 2 + 1, nd):
            add("dec-odd", "HEXDEC %d %s" % (outlen, sh(s)))
        s2 = []
        for x in s:
            s2 += [x] + ([rng.choice(WS)] if rng.random() < 0.5 else [])
        add("dec-odd", "HEXDEC %d %s" % (nd, sh(s2)))
        for var in ("PL", "ST", "PZ"):
            add("cpp-odd", "HEXCPP %s %s" % (var, sh(s2)))
    # random strings over digits / white space / a few other characters, random outlen around the need
    nrand = 1500 if tier == "quick" else 12000
    for _ in range(nrand):
        n = rng.choice([0, 1, 2, 3, 4, 7, 8, 16, 31, 32, 33, 64, 200])
        pbad = rng.choice([0, 0, 0, 0.02, 0.2])
        pws = rng.choice([0, 0.1, 0.3, 0.7])
        s = []
        for _ in range(n):
            r = rng.random()
            if r < pbad:
                s.append(rng.choice([0, 0x2F, 0x3A, 0x40, 0x47, 0x60, 0x67, 0x7F, 0x80, 0xFF, ord("g"), ord("G"), ord("x"), 0x08, 0x0E, 0x1F, 0x21]))
            elif r < pbad + pws:
                s.append(rng.choice(WS))
            else:
                s.append(rng.choice(HEXD))
        nd = sum(1 for x in s if x in HEXD)
        need = nd // 2
        outlen = rng.choice([max(need - 1, 0), need, need, need + 1, 0, need + 9])
        kind = rng.random()
        if kind < 0.6:
            add("dec-rand", "HEXDEC %d %s" % (outlen, sh(s))); lens[len(s)] += 1
        else:
            add("cpp-rand", "HEXCPP %s %s" % (rng.choice(["PL", "ST", "PZ"]), sh(s)))
    # embedded NUL: a bad character for (ptr,len) and std::string, the end of the string for the NUL-terminated overload
    for s in (list(b"00\x0011"), list(b"\x00"), list(b"0\x000"), list(b"ab cd\x00zz"), list(b"abc\x00d")):
        for var in ("PL", "ST", "PZ"):
            add("cpp-nul", "HEXCPP %s %s" % (var, sh(s)))
    add("cpp-null", "HEXCPP PZ NULL")
    add("cpp-null", "HEXCPP PL -"); add("cpp-null", "HEXCPP ST -"); add("cpp-null", "HEXCPP PZ -")
    # C++ encoders
    for n in list(range(0, 34)) + [100, 1000]:
        data = bytes(rng.getrandbits(8) for _ in range(n))
        for var in ("P", "BA"):
            for up in ("0", "1", "D"):
                add("cppenc", "HEXCPPENC %s %s %s" % (var, sh(data), up))
    add("cppenc", "HEXCPPENC P %s 1" % sh(allb)); add("cppenc", "HEXCPPENC BA %s D" % sh(allb))
    return lines, stats, lens


def hex_sig(line):
    t = line.split()
    return t[0]


# --------------------------------------------------------------------------
# byte_array workload
SIZES = [0, 1, 2, 3, 5, 15, 16, 17, 31, 32, 33, 40]
CMPS = ["EQ", "NE", "LT", "LE", "GT", "GE"]


def rand_hexstr(rng):
    n = rng.choice([0, 2, 4, 6, 8, 20, 34])
    s = []
    for _ in range(n):
        r = rng.random()
        s.append(rng.choice(WS) if r < 0.15 else rng.choice(HEXD))
    if rng.random() < 0.1 and s:
        s[rng.randrange(len(s))] = rng.choice([ord("g"), 0x2F, 0xFF])
    return s


def gen_held_op(rng, vals, v, emit):
    """One operation that holds an element reference or data() pointer of variable v (non-empty) across
    another operation on v.  Updates vals (the std::vector meaning).  Returns False when none applies."""
    n = len(vals[v])
    nv = len(vals)
    pick = lambda: rng.choice([0, n - 1, rng.randrange(n)])
    i, j = pick(), pick()
    dead = [w for w in range(nv) if vals[w] is None]
    live = [w for w in range(nv) if vals[w] is not None]
    k = rng.random()
    if k < 0.18:
        x, y = rng.randrange(256), rng.randrange(256)
        emit("held_set2", "SET2 %d %d %d %d %d", v, i, x, j, y); vals[v][i] = x; vals[v][j] = y
    elif k < 0.34:
        emit("held_swap", "SWAP %d %d %d", v, i, j); vals[v][i], vals[v][j] = vals[v][j], vals[v][i]
    elif k < 0.50:
        emit("held_get", "%s %d %d %d", rng.choice(["GETHELD", "GETHELDC"]), v, i, j)
    elif k < 0.60:
        if n < 2:
            return False
        emit("held_pop", "HELDPOP %d %d", v, rng.choice([0, n - 2, rng.randrange(n - 1)])); vals[v].pop()
    elif k < 0.74:
        if not dead:
            return False
        w = rng.choice(dead); val = rng.randrange(256)
        emit("held_data_copy", "DATAHELDCOPY %d %d %d %d%s", v, w, i, val, rng.choice(["", " I"]))
        vals[w] = list(vals[v]); vals[v][i] = val
    elif k < 0.88:
        w = v if rng.random() < 0.15 else rng.choice(live); val = rng.randrange(256)
        emit("held_data_assign_self" if w == v else "held_data_assign", "DATAHELDASSIGN %d %d %d %d%s", v, w, i, val, rng.choice(["", " I"]))
        vals[w] = list(vals[v]); vals[v][i] = val
    else:
        val = rng.randrange(256)
        emit("held_cdata", "CDATAHELD %d %d %d %d%s", v, i, j, val, rng.choice(["", " I", " J"])); vals[v][j] = val
    return True


def gen_ba_session(rng, nv, nops, opmix, held=0.0):
    """held: probability that an operation on a non-empty variable is a held-reference one."""
    vals = [None] * nv
    lines = ["BA RESET %d" % nv]

    def emit(name, fmt, *a):
        lines.append("BA " + (fmt % a)); opmix[name] += 1

    while len(lines) < nops + 1:
        live = [i for i in range(nv) if vals[i] is not None]
        dead = [i for i in range(nv) if vals[i] is None]
        r = rng.random()
        if not live or (dead and r < 0.12):
            v = rng.choice(dead)
            k = rng.random()
            if k < 0.2 or not live:
                if k < 0.1:
                    emit("ctor", "CTOR %d", v); vals[v] = []
                else:
                    n = rng.choice(SIZES); val = rng.randrange(256)
                    if rng.random() < 0.2:
                        emit("ctor_size", "CSIZE1 %d %d", v, n); vals[v] = [0] * n
                    else:
                        emit("ctor_size", "CSIZE %d %d %d", v, n, val); vals[v] = [val] * n
            elif k < 0.85:
                w = rng.choice(live)
                emit("ctor_copy", "COPY %d %d", v, w); vals[v] = list(vals[w])
            else:
                s = rand_hexstr(rng)
                if rng.random() < 0.3 and 0 not in s:
                    emit("from_hex", "FROMHEXZ %d %s", v, sh(s))
                else:
                    emit("from_hex", "FROMHEX %d %s", v, sh(s))
                vals[v] = py_decode(s) or []
            continue
        v = rng.choice(live)
        if held and vals[v] and rng.random() < held:
            if gen_held_op(rng, vals, v, emit):
                continue
        if r < 0.17:
            emit("dtor", "DTOR %d", v); vals[v] = None
        elif r < 0.30:
            w = v if rng.random() < 0.15 else rng.choice(live)
            emit("assign_self" if w == v else "assign", "ASSIGN %d %d", v, w); vals[v] = list(vals[w])
        elif r < 0.40 and vals[v]:
            pos = rng.choice([0, len(vals[v]) - 1, rng.randrange(len(vals[v]))]); val = rng.randrange(256)
            if rng.random() < 0.6:
                emit("index_set", "SET %d %d %d", v, pos, val)
            else:
                emit("data_set", "DATASET %d %d %d", v, pos, val)
            vals[v][pos] = val
        elif r < 0.46 and vals[v]:
            pos = rng.randrange(len(vals[v]))
            emit("index_get", "%s %d %d", rng.choice(["GET", "GETC"]), v, pos)
        elif r < 0.52:
            emit("observe", "%s %d", rng.choice(["SIZE", "CAP", "EMPTY"]), v)
        elif r < 0.58:
            k = rng.choice(["DATA", "DATA I", "DATAC", "DATAC I", "DATAC J"]).split()
            emit("data_read" if k[0] == "DATA" else "data_read_const", "%s %d%s", k[0], v, " " + k[1] if len(k) > 1 else "")
        elif r < 0.64:
            emit("reserve", "RESERVE %d %d", v, rng.choice(SIZES + [64, 100]))
        elif r < 0.76:
            cur = len(vals[v])
            n = rng.choice(SIZES + [max(cur - 1, 0), cur, cur + 1, cur + 1])
            emit("resize", "RESIZE %d %d", v, n)
            vals[v] = vals[v][:n] + [0] * (n - cur)
        elif r < 0.80:
            emit("clear", "CLEAR %d", v); vals[v] = []
        elif r < 0.90:
            val = rng.randrange(256)
            emit("push", "PUSH %d %d", v, val); vals[v].append(val)
        elif r < 0.95:
            if vals[v] or rng.random() < 0.3:
                emit("pop", "POP %d", v)
                if vals[v]:
                    vals[v].pop()
        else:
            w = rng.choice(live)
            emit("compare", "%s %d %d", rng.choice(CMPS), v, w)
    return lines


def directed_ba():
    """Hand-written sessions: the Coq witnesses of Proofs/ByteArrayP.v and the aliasing corner cases."""
    S = collections.OrderedDict()
    S["coq-witness-resize"] = ["RESET 2", "CSIZE 0 3 7", "COPY 1 0", "RESIZE 1 1", "DATAC 0", "DATAC 1"]
    S["coq-witness-cmp"] = ["RESET 2", "CTOR 0", "CSIZE 1 3 0", "LT 0 1"]
    S["cmp-null-nonempty"] = ["RESET 3", "CTOR 0", "CSIZE 1 3 0", "CSIZE 2 0 0"] + \
        ["%s %d %d" % (c, a, b) for c in CMPS for (a, b) in ((0, 1), (1, 0), (0, 2), (2, 0), (1, 2), (2, 1), (0, 0), (1, 1))]
    S["cmp-prefix-and-bytes"] = ["RESET 4", "CSIZE 0 3 5", "CSIZE 1 4 5", "CSIZE 2 3 5", "SET 2 1 200", "COPY 3 0"] + \
        ["%s %d %d" % (c, a, b) for c in CMPS for a in range(4) for b in range(4)]
    S["fromhex-ws"] = ["RESET 4", "FROMHEX 0 61622020", "FROMHEX 1 20303020", "FROMHEXZ 2 3031200a3233", "FROMHEXZ 3 NULL", "SIZE 0", "SIZE 1", "DATAC 2"]
    S["fromhex-bad"] = ["RESET 3", "FROMHEX 0 3031673233", "FROMHEX 1 303132", "FROMHEX 2 -", "EMPTY 0", "EMPTY 1", "PUSH 0 1"]
    S["resize-grow-shared-within-capacity"] = ["RESET 3", "CSIZE 0 3 9", "COPY 1 0", "COPY 2 1", "RESIZE 1 5", "DATAC 0", "DATAC 2", "RESIZE 2 16", "RESIZE 0 17", "RESIZE 0 0"]
    S["resize-null-and-zero"] = ["RESET 2", "CTOR 0", "RESIZE 0 0", "CTOR 1", "RESIZE 1 4", "RESIZE 1 0", "RESIZE 1 40", "EQ 0 1"]
    S["self-assign"] = ["RESET 3", "CSIZE 0 2 1", "ASSIGN 0 0", "COPY 1 0", "ASSIGN 0 1", "ASSIGN 1 0", "CTOR 2", "ASSIGN 2 2", "ASSIGN 0 2", "DATAC 1", "ASSIGN 1 2"]
    S["write-through-shared"] = ["RESET 4", "CSIZE 0 4 1", "COPY 1 0", "COPY 2 0", "SET 1 0 9", "DATASET 2 3 8", "GET 0 0", "GETC 1 0", "DATA 0", "DATA 1 I", "DATAC 2 I", "DATAC 0 J", "COPY 3 2", "PUSH 3 7", "POP 2", "POP 0", "CLEAR 1", "PUSH 1 4"]
    S["destroy-order"] = ["RESET 4", "CSIZE 0 33 3", "COPY 1 0", "COPY 2 1", "COPY 3 2", "DTOR 0", "DTOR 2", "PUSH 1 1", "DTOR 3", "DTOR 1", "CTOR 0", "PUSH 0 1"]
    S["reserve-then-index"] = ["RESET 2", "CSIZE 0 2 7", "RESERVE 0 100", "CAP 0", "SET 0 1 3", "CAP 0", "COPY 1 0", "RESERVE 1 10", "RESERVE 1 64", "CAP 1", "CAP 0"]
    S["push-across-capacity"] = ["RESET 2", "CTOR 0"] + ["PUSH 0 %d" % i for i in range(35)] + ["COPY 1 0"] + ["POP 1"] * 36 + ["EMPTY 1", "SIZE 0"]
    # references / pointers held across other operations on the same object (Coq witnesses of Proofs/ByteArrayP.v first)
    S["coq-witness-set2"] = ["RESET 1", "CSIZE 0 2 7", "SET2 0 0 1 1 2"]
    S["coq-witness-swap"] = ["RESET 1", "CSIZE 0 2 7", "SET 0 1 9", "SWAP 0 0 1"]
    S["coq-witness-get-held"] = ["RESET 1", "CSIZE 0 2 7", "GETHELD 0 0 1"]
    S["coq-witness-get-held-c"] = ["RESET 1", "CSIZE 0 2 7", "GETHELDC 0 0 1"]
    S["coq-witness-held-pop"] = ["RESET 1", "CSIZE 0 2 7", "HELDPOP 0 0"]
    S["coq-witness-data-copy"] = ["RESET 2", "CSIZE 0 2 7", "DATAHELDCOPY 0 1 0 9"]
    S["coq-witness-data-assign"] = ["RESET 2", "CSIZE 0 2 7", "CTOR 1", "DATAHELDASSIGN 0 1 0 9"]
    S["coq-witness-cdata"] = ["RESET 2", "CSIZE 0 2 7", "COPY 1 0", "CDATAHELD 0 0 0 9"]
    S["held-swap-two-elements"] = ["RESET 2", "CSIZE 0 4 7", "SET 0 1 9", "SET 0 3 5", "SWAP 0 1 3", "DATAC 0", "SWAP 0 0 0", "SET2 0 0 1 3 2", "SET2 0 2 4 2 6", "DATAC 0", "CAP 0"]
    S["held-ref-across-subscript"] = ["RESET 2", "CSIZE 0 4 7", "SET 0 0 1", "SET 0 3 4", "GETHELD 0 0 3", "GETHELDC 0 3 0", "GETHELD 0 3 3", "HELDPOP 0 0", "HELDPOP 0 1", "DATAC 0", "PUSH 0 8", "GETHELDC 0 2 1"]
    S["held-ref-on-shared-buffer"] = ["RESET 4", "CSIZE 0 4 7", "COPY 1 0", "SET2 0 0 1 1 2", "DATAC 1", "COPY 2 0", "SWAP 2 0 3", "DATAC 0", "GETHELD 1 0 1", "COPY 3 1", "GETHELDC 3 2 0", "HELDPOP 1 1", "DATAC 3", "HELDPOP 2 0", "DATAC 0"]
    S["held-data-across-copy"] = ["RESET 4", "CSIZE 0 3 7", "DATAHELDCOPY 0 1 0 9", "DATAC 0", "DATAC 1", "DATAHELDCOPY 0 2 1 8 I", "DATAC 2", "SET 1 2 1", "DATAHELDCOPY 1 3 2 6", "DATAC 3", "EQ 0 2"]
    S["held-data-across-assign"] = ["RESET 3", "CSIZE 0 3 7", "CTOR 1", "DATAHELDASSIGN 0 1 0 9", "DATAC 1", "CSIZE 2 5 1", "DATAHELDASSIGN 0 2 1 8 I", "DATAC 2", "DATAHELDASSIGN 0 0 2 6", "DATAC 0", "DATAHELDASSIGN 2 1 0 3", "DATAC 1"]
    S["held-data-on-shared-buffer"] = ["RESET 4", "CSIZE 0 3 7", "COPY 1 0", "DATAHELDCOPY 0 2 0 9", "DATAC 1", "DATAC 2", "DATAHELDASSIGN 1 0 1 8", "DATAC 0", "DATAC 2", "COPY 3 1", "DATAHELDASSIGN 3 1 2 5 I", "DATAC 1"]
    S["held-const-pointer-on-shared-buffer"] = ["RESET 3", "CSIZE 0 3 7", "COPY 1 0", "CDATAHELD 0 0 0 9", "DATAC 1", "COPY 2 0", "CDATAHELD 2 1 1 8 I", "CDATAHELD 0 2 1 6 J", "CDATAHELD 1 0 2 5", "DATAC 0", "DATAC 1", "DATAC 2"]
    S["held-then-copy-later"] = ["RESET 3", "CSIZE 0 3 7", "DATA 0", "COPY 1 0", "SET 0 0 1", "DATAC 1", "GET 1 0", "COPY 2 1", "DATASET 2 1 4", "DATAC 1", "DTOR 0", "FROMHEX 0 30312032", "DATAC 0"]
    S["empty-pop-clear"] = ["RESET 2", "CTOR 0", "POP 0", "CLEAR 0", "CSIZE 1 0 0", "POP 1", "CLEAR 1", "EQ 0 1", "PUSH 1 0", "POP 1", "POP 1"]
    return [(name, ["BA " + l for l in ls]) for name, ls in S.items()]


def ba_sig(line):
    t = line.split()
    o = t[1] if len(t) > 1 else "?"
    if o in ("LT", "LE", "GT", "GE"):
        o = "CMP"
    if o in ("EQ", "NE"):
        o = "EQ"
    if o.startswith("FROMHEX"):
        o = "FROMHEX"
    if o in ("CSIZE1",):
        o = "CSIZE"
    if o in ("SET2", "SWAP", "GETHELD", "GETHELDC", "HELDPOP"):
        o = "HELDREF"       # an element reference held across operator[] / pop_back
    if o in ("DATAHELDCOPY", "DATAHELDASSIGN", "CDATAHELD"):
        o = "HELDPTR"       # a data()/begin() pointer held across a copy of / a write to the array
    return "BA-" + o


def proj_line(op_line, out):
    """ascon::byte_array / model state line -> the form the std::vector side prints."""
    res, sep, dump = out.partition(" | ")
    if not sep:
        return out
    t = op_line.split()
    if len(t) > 1 and t[1] == "CAP" and res != "PRE":
        res = "*"
    toks = []
    for tok in dump.split():
        if tok.startswith("H="):
            continue
        k, _, s = tok.partition("=")
        if s == "N":
            toks.append(k + "=V/0/-")
        elif s.startswith("P"):
            parts = s.split("/")       # P<c>/<ref>/<size>/<capacity>/<bytes>[/L]
            toks.append("%s=V/%s/%s" % (k, parts[2], parts[4]) if len(parts) in (5, 6) else tok)
        else:
            toks.append(tok)
    return res + " | " + " ".join(toks)


def build_xba(res, sc, san):
    """Compile harness/x_bytearray.cpp in the ASCON_NO_STL configuration against the working tree."""
    tag = "nostl-san" if san else "nostl"
    d = os.path.join(sc, "xba-" + tag)
    os.makedirs(d, exist_ok=True)
    fl = common.SAN_FLAGS.split() if san else ["-O1", "-g"]
    inc = ["-I" + os.path.join(common.REPO, "src")]
    rc, log = common.sh(["gcc"] + fl + inc + ["-c", os.path.join(common.REPO, "src", "core", "ascon-hex.c"), "-o", os.path.join(d, "ascon-hex.o")], timeout=600)
    exe = os.path.join(d, "x_bytearray")
    if rc == 0:
        rc, log2 = common.sh(["g++", "-std=c++11", "-w"] + fl + ["-DASCON_NO_STL", "-DASCON_SUITE_VERIF"] + inc +
                             [os.path.join(common.VERIF, "harness", "x_bytearray.cpp"),
                              os.path.join(common.REPO, "src", "cplusplus", "ascon-byte-array.cpp"),
                              os.path.join(d, "ascon-hex.o"), "-o", exe], timeout=900)
        log += log2
    if rc != 0:
        res.violation("build-failed@" + tag,
                      "the ASCON_NO_STL configuration (utility.h + ascon-byte-array.cpp + ascon-hex.c) no longer compiles with the C20 harness:\n" + log[-1500:],
                      {"config": tag, "log_tail": log[-6000:]}, no_input=True)
        return None
    return exe, tag


def model_flags():
    txt = open(os.path.join(common.COQ, "Model", "C20Config.v")).read()
    txt = re.sub(r"\(\*.*?\*\)", "", txt, flags=re.S)
    return dict((m.group(1), m.group(2) == "true") for m in re.finditer(r"Definition\s+(fix_\w+)\s*:\s*bool\s*:=\s*(true|false)", txt))


def run_model(driver, lines, sessions, which):
    rc, out, err = common.run_parallel(driver, lines, sessions, env={"VERIF_C20_MODEL": which})
    if rc != 0:
        raise common.Infra("model driver failed (%s): %s" % (which, err[-2000:]))
    return out


class Judge:
    """Three-way comparison bookkeeping shared by the hex and byte_array parts."""

    def __init__(self, res):
        self.res = res
        self.stale = collections.Counter()
        self.tie_checked = 0
        self.disagreements = 0

    def session(self, kind, config, ops, impl, fixed, sel, sigfn, vec=None, projfn=None, shrink=None, others=None, confirm=None):
        """ops/impl/fixed/sel(/vec): the lines of one session.  Returns True when everything agreed.
        projfn: compare with the proved model on projfn(op, line) (results and values) instead of complete lines.
        others: {name: lines} of further models; the selected model is merely stale where the code equals one of them.
        confirm(cut_ops, impl_line) -> (text, dict) or None: extra evidence for a violation."""
        n = len(ops)
        self.tie_checked += n
        pj = (lambda i, l: projfn(ops[i], l)) if projfn else (lambda i, l: l)
        first_fix = next((i for i in range(n) if pj(i, impl[i]) != pj(i, fixed[i])), None)
        first_vec = None
        if vec is not None:
            first_vec = next((i for i in range(n) if projfn(ops[i], impl[i]) != vec[i]), None)
        first_sel = next((i for i in range(n) if impl[i] != sel[i]), None)
        ok = True
        if first_fix is not None or first_vec is not None:
            ok = False
            self.disagreements += 1
            i = first_fix if first_fix is not None else first_vec
            if first_vec is not None and (first_fix is None or first_vec < first_fix):
                i = first_vec
            sig = sigfn(ops[i]) + "@" + config
            cut = ops[:i + 1]
            if shrink:
                cut = shrink(cut, sigfn(ops[i]))
            against = []
            if first_fix is not None:
                against.append("the model for which C20 is proved (coq: cfg_fixed / cpp_from_hex_gen true)")
            if first_vec is not None:
                against.append("std::vector<unsigned char> run side by side")
            shown = ops[i][:200]
            if kind == "hex":
                try:
                    shown += "   (input %r)" % bytes.fromhex(ops[i].split()[2 if ops[i].startswith(("HEXDEC", "HEXCPP")) else 1].replace("-", ""))[:80]
                except ValueError:
                    pass
            desc = ("%s (%s): the implementation departs from %s at: %s\n impl:   %s\n proved: %s%s" %
                    (kind, config, " and from ".join(against), shown, impl[i][:300], fixed[i][:300],
                     ("\n vector: %s" % vec[i][:300]) if vec is not None else ""))
            extra = confirm(cut, impl[i]) if confirm else None
            if extra:
                desc += "\n " + extra[0]
            self.res.violation(sig, desc, {"kind": kind, "config": config, "ops": cut, "confirmation": (extra[1] if extra else None),
                                           "impl": impl[:i + 1][-6:], "proved_model": fixed[:i + 1][-6:],
                                           "std_vector": (vec[:i + 1][-6:] if vec is not None else None),
                                           "how": "./check C20 --replay <this file>  (runs `ops` through the harness built from the working tree, the extracted models and std::vector)"})
        if first_sel is not None:
            i = first_sel
            first_viol = min([x for x in (first_fix, first_vec) if x is not None], default=None)
            eq_other = [nm for nm, ls in (others or {}).items() if ls[i] == impl[i]]
            if first_viol is not None and first_viol < i:
                pass        # already reported: the states have diverged before
            elif impl[i] == fixed[i] or eq_other:
                # the code equals a more-fixed model here while the selected model says otherwise: stale flag
                self.stale[sigfn(ops[i]) + ("" if impl[i] == fixed[i] else "=" + eq_other[0])] += 1
            elif impl[i] != fixed[i] and sel[i] != fixed[i]:
                # differs from both models at the same line: the model of the pinned code does not describe the code either
                self.res.violation("model-mismatch-" + sigfn(ops[i]) + "@" + config,
                                   "%s (%s): the implementation agrees with neither the selected nor the fixed model at: %s\n impl:     %s\n selected: %s\n fixed:    %s" %
                                   (kind, config, ops[i][:200], impl[i][:300], sel[i][:300], fixed[i][:300]),
                                   {"kind": kind, "config": config, "ops": ops[:i + 1], "impl": impl[:i + 1][-6:], "selected_model": sel[:i + 1][-6:]})
        return ok


def make_shrinker(exe, driver, env):
    """Greedy removal of operations while the first divergence keeps the same signature."""

    def diverges(ops, want):
        rc, impl, err = common.run_lines(exe, ops, env=env, timeout=120)
        rc2, fixed, err2 = common.run_lines(driver, ops, env={"VERIF_C20_MODEL": "fixed"}, timeout=120)
        rc3, vec, err3 = common.run_lines(exe, ops, env=dict(env or {}, VERIF_BA_MODE="vec"), timeout=120)
        for i in range(len(ops)):
            a = impl[i] if i < len(impl) else "<none>"
            if proj_line(ops[i], a) != proj_line(ops[i], fixed[i] if i < len(fixed) else "") or proj_line(ops[i], a) != (vec[i] if i < len(vec) else ""):
                return ba_sig(ops[i]) == want and i == len(ops) - 1
        return False

    def shrink(ops, want):
        cur = list(ops)
        trials = 0
        changed = True
        while changed and trials < 250:
            changed = False
            for k in range(len(cur) - 2, 0, -1):       # keep RESET (0) and the failing op (last)
                cand = cur[:k] + cur[k + 1:]
                trials += 1
                if diverges(cand, want):
                    cur = cand; changed = True
                if trials >= 250:
                    break
        return cur
    return shrink


def translation_witness(res):
    """When Obl/HexObl.v no longer checks: find the first case of each enumerated
    domain on which the translated C and the model differ (computed in Coq), and
    turn it into a concrete call of the real function."""
    ok, log = common.coq_make(["Obl/HexOblDefs.vo"])
    if not all(ok.values()):
        return []
    d = os.path.join(common.BUILD, "c20-witness")
    os.makedirs(d, exist_ok=True)
    src = ("From AsconV Require Import Sym.MiniC Gen.HexAst Model.Hexm Obl.HexOblDefs.\nFrom Coq Require Import List NArith ZArith.\n"
           "Definition w {A} (f g : A -> obs) (l : list A) := match find (fun c => negb (obs_eqb (f c) (g c))) l with Some c => Some (c, f c, g c) | None => None end.\n"
           "Eval vm_compute in (w dec_body_c dec_body_m dec_domain).\n"
           "Eval vm_compute in (w enc_body_c enc_body_m enc_domain).\n"
           "Eval vm_compute in (w (fun c => run_from_hex (fst c) (snd c)) (fun c => model_from_hex (fst c) (snd c)) dec_samples).\n"
           "Eval vm_compute in (w (fun c => run_to_hex (fst (fst c)) (snd (fst c)) (snd c)) (fun c => model_to_hex (fst (fst c)) (snd (fst c)) (snd c)) enc_samples).\n")
    open(os.path.join(d, "W.v"), "w").write(src)
    rc, out = common.sh(["coqc", "-Q", common.COQ, "AsconV", "W.v"], cwd=d, timeout=600)
    blocks = [b.strip() for b in re.split(r"\n\s*= ", "\n" + out) if b.strip()]
    names = ["decoder loop body", "encoder loop body", "decoder function (samples)", "encoder function (samples)"]
    found = []
    for name, b in zip(names, blocks):
        b = re.sub(r"\s+", " ", b.split(" : option")[0])
        if b.startswith("Some"):
            line = None
            nl = lambda t: bytes(int(x) for x in re.findall(r"(\d+)%N", t))
            m = re.match(r"Some \((\d+)%N, (true|false), (\d+)%N, \((\d+), (\d+)\)", b)
            if name == "decoder loop body" and m:
                ch, nib, d4, posn, outlen = int(m.group(1)), m.group(2) == "true", int(m.group(3)), int(m.group(4)), int(m.group(5))
                line = "HEXDEC %d %s" % (outlen, sh(("00" * posn + ("%x" % d4 if nib else "")).encode() + bytes([ch])))
            m = re.match(r"Some \((\d+)%N, \(?(-?\d+)\)?(?:%Z)?, (\d+)", b)
            if name == "encoder loop body" and m:
                line = "HEXENC 3 %s %s" % (sh(bytes([int(m.group(1))])), m.group(2))
            m = re.match(r"Some \((\d+), \[(.*?)\], (?:Ret|Next|Bad)", b)
            if name == "decoder function (samples)" and m:
                line = "HEXDEC %s %s" % (m.group(1), sh(nl(m.group(2))))
            m = re.match(r"Some \((\d+), \[(.*?)\], \(?(-?\d+)\)?(?:%Z)?,", b)
            if name == "encoder function (samples)" and m:
                line = "HEXENC %s %s %s" % (m.group(1), sh(nl(m.group(2))), m.group(3))
            found.append((name, b[:600], line))
    return found


def run(res, tier, seed, replay=None):
    t0 = time.time()
    rng = random.Random(seed)
    pr = stdflow.prove(res, "C20", extra_targets=("Obl/HexObl.vo",))
    extra_hex = []
    if not pr["ok"] and ("Obl/HexObl.vo] Error" in pr["log"] or 'File "./Obl/HexObl.v"' in pr["log"]):
        for name, case, line in translation_witness(res):
            res.violation("hex-translation-" + name.split()[0],
                          "the C source of the %s, translated from /repo's ascon-hex.c (coq/Gen/HexAst.v), no longer agrees with Model/Hexm.v; "
                          "first differing case of the enumeration (case, translated C, model):\n %s%s" %
                          (name, case, ("\n as a call of the real function: " + line) if line else ""),
                          {"kind": "hex", "case": case, "ops": [line] if line else []}, no_input=(line is None))
            if line:
                extra_hex.append(line)
    driver = common.build_driver()
    flags = model_flags()
    res.cov["model_flags"] = flags
    judge = Judge(res)
    rep = json.load(open(replay))["replay"] if replay else None

    # ---------------- workloads
    hex_lines, hex_stats, hex_lens = ([], collections.Counter(), collections.Counter())
    ba_sessions, opmix = [], collections.Counter()
    if rep:
        if rep.get("kind", "").startswith("hex"):
            hex_lines = list(rep["ops"])
        else:
            ba_sessions = [("replay", list(rep["ops"]))]
    else:
        hex_lines, hex_stats, hex_lens = gen_hex(rng, tier)
        hex_lines += extra_hex
        ba_sessions = directed_ba()
        nses, nops = (500, 60) if tier == "quick" else (4000, 120)
        for k in range(nses):
            nv = rng.choice([4, 4, 4, 5, 6, 8])
            # one session in three mixes held-reference operations into the operation mix; the others keep
            # the plain mix, so that an open held-reference finding does not cut every session short
            held = rng.choice([0.08, 0.15, 0.3]) if k % 3 == 2 else 0.0
            ba_sessions.append(("random-held" if held else "random", gen_ba_session(rng, nv, rng.choice([12, 30, nops]), opmix, held)))

    per = []
    with common.Scratch() as sc:
        # ---------------- hex: main harness (STL configuration)
        if hex_lines:
            b = stdflow.Builds(res, sc)
            cfgs = [("default", False)] + ([("default", True)] if tier == "thorough" else [])
            m_sel = run_model(driver, hex_lines, None, "selected")
            m_fix = run_model(driver, hex_lines, None, "fixed")
            # self-check of the driver: the C-shaped model of the decoder against the specification function on the accepted cases
            for cfg, san in cfgs:
                got = b.get(cfg, san=san, harness_srcs=["main.cpp", "h_hex.cpp"])
                if not got:
                    continue
                env = {"VERIF_EXACT": "1"} if san else None
                rc, impl, err = common.run_parallel(got[1], hex_lines, env=env)
                nbad = 0
                order = sorted(range(len(hex_lines)), key=lambda i: len(hex_lines[i]))   # report the shortest failing line per signature
                seen_sig = set()
                for i in order:
                    l = hex_lines[i]
                    if impl[i] == m_fix[i] and impl[i] == m_sel[i]:
                        judge.tie_checked += 1
                        continue
                    s = hex_sig(l)
                    if (s, impl[i] != m_fix[i]) in seen_sig:
                        nbad += 1; judge.tie_checked += 1
                        if impl[i] != m_fix[i]:
                            judge.disagreements += 1
                        elif impl[i] != m_sel[i]:
                            judge.stale[s] += 1
                        continue
                    seen_sig.add((s, impl[i] != m_fix[i]))
                    if not judge.session("hex", got[2], [l], [impl[i]], [m_fix[i]], [m_sel[i]], hex_sig):
                        nbad += 1
                if rc != 0 and nbad == 0:
                    res.violation("harness-crash@" + got[2], "the hex harness exited abnormally (%s): %s" % (got[2], err[-1500:]),
                                  {"config": got[2], "stderr": err[-4000:]}, no_input=True)
                per.append({"part": "hex", "config": got[2], "lines": len(hex_lines), "lines_differing_from_proved_model": nbad,
                            "canary_or_sanitizer_reports": sum(1 for o in impl if "CANARY" in o) + (1 if "Sanitizer" in err else 0)})

        # ---------------- byte_array: standalone ASCON_NO_STL program
        if ba_sessions:
            lines, sessions, names = [], [], []
            for name, ls in ba_sessions:
                sessions.append((len(lines), len(lines) + len(ls))); lines += ls; names.append(name)
            m_sel = run_model(driver, lines, sessions, "selected")
            m_fix = run_model(driver, lines, sessions, "fixed")
            m_vec = run_model(driver, lines, sessions, "vec")
            others = {}
            if not flags.get("fix_ba_index"):      # otherwise the selected model is the fixed-index or the fixed one
                others["fixed-index"] = run_model(driver, lines, sessions, "fixedindex")
            shared_sessions = 0
            uaf_seen = collections.Counter()
            directed_outcome = collections.OrderedDict()
            held_lines = sum(1 for l in lines if ba_sig(l) in ("BA-HELDREF", "BA-HELDPTR"))
            for san in (False, True):
                got = build_xba(res, sc, san)
                if not got:
                    continue
                exe, tag = got
                rc, impl, err = common.run_parallel(exe, lines, sessions)
                rcv, vec, errv = common.run_parallel(exe, lines, sessions, env={"VERIF_BA_MODE": "vec"})
                # the Coq specification of std::vector against the real std::vector
                for (a, bnd) in sessions:
                    for i in range(a, bnd):
                        if m_vec[i] != vec[i]:
                            raise common.Infra("coq vec_step disagrees with std::vector on `%s` (session %s): coq %s / std::vector %s - the specification in Model/ByteArraym.v or the harness is wrong" %
                                               (lines[i], names[sessions.index((a, bnd))], m_vec[i], vec[i]))
                shrink = make_shrinker(exe, driver, None)

                def confirm(cut, impl_line, exe=exe, san=san, tag=tag):
                    """A reported UAF: perform the access for real under AddressSanitizer and quote its report."""
                    if not impl_line.startswith("UAF"):
                        return None
                    uaf_seen[tag] += 1
                    if not san:
                        return ("(the harness found the held reference pointing into storage released by the operation; "
                                "see the nostl-san signature for AddressSanitizer's report of the real access)", {"raw_access": "not run in this build"})
                    try:
                        rc_r, out_r, err_r = common.run_lines(exe, cut, env={"VERIF_BA_RAW": "1"}, timeout=120)
                    except Exception as e:      # noqa
                        return ("raw run failed: %s" % e, {"raw_access": "failed"})
                    m = re.search(r"ERROR: AddressSanitizer: (\S+) on address.*?\n((?:.*\n){0,40})", err_r)
                    if not m:
                        return ("raw access under ASan (VERIF_BA_RAW=1): no report, exit status %d" % rc_r, {"raw_access": "no report", "rc": rc_r})
                    frames, depth = [], 0
                    for l in m.group(2).split("\n"):
                        l = re.sub(r"\s+", " ", l.strip())
                        l = re.sub(r"std::vector<std::__cxx11::basic_string<.*?> > > const&", "Toks const&", l)
                        if re.match(r"(READ|WRITE|freed by|previously allocated)", l):
                            depth = 0; frames.append(l)
                        elif re.match(r"#\d+ ", l):
                            depth += 1
                            if depth <= 6:
                                frames.append("  " + re.sub(r"^(#\d+) 0x[0-9a-f]+ ", r"\1 ", l))
                        if l.startswith("previously allocated"):
                            break
                    return ("the same operations with the access really performed (VERIF_BA_RAW=1, ASan build): AddressSanitizer: %s\n   %s" %
                            (m.group(1), "\n   ".join(frames)),
                            {"raw_access": "AddressSanitizer: " + m.group(1), "asan_report": (m.group(0))[:3000], "exit_status": rc_r})
                nbad, seen = 0, set()
                distinct, shared = set(), 0
                for k, (a, bnd) in enumerate(sessions):
                    ops = lines[a:bnd]
                    key = "\n".join(ops)
                    if key not in distinct:
                        distinct.add(key)
                        if any(re.search(r"=P\d+/([2-9]|\d\d+)/", o) for o in impl[a:bnd]):
                            shared += 1
                    # shrink only the first failing session of each signature (cheap enough), report the others unshrunk
                    fi = next((i for i in range(a, bnd) if proj_line(lines[i], impl[i]) != proj_line(lines[i], m_fix[i]) or proj_line(lines[i], impl[i]) != vec[i]), None)
                    if not san and (names[k].startswith("held-") or names[k].startswith("coq-witness-")):
                        directed_outcome[names[k]] = ("agrees with std::vector on all %d operations" % (bnd - a)) if fi is None else \
                            ("first departure at `%s`: implementation %s / std::vector %s" % (lines[fi], impl[fi].split(" | ")[0] + " | " + proj_line(lines[fi], impl[fi]).split(" | ")[-1], vec[fi]))
                    do_shrink = None
                    if fi is not None and ba_sig(lines[fi]) not in seen and names[k] != "replay":
                        seen.add(ba_sig(lines[fi])); do_shrink = shrink
                    if not judge.session("byte_array", tag, ops, impl[a:bnd], m_fix[a:bnd], m_sel[a:bnd], ba_sig,
                                         vec=vec[a:bnd], projfn=proj_line, shrink=do_shrink,
                                         others=dict((nm, ls[a:bnd]) for nm, ls in others.items()),
                                         confirm=(confirm if do_shrink is not None or names[k] == "replay" else None)):
                        nbad += 1
                if (rc != 0 or "LEAK" in " ".join(impl[-3:]) or "Sanitizer" in err) and nbad == 0:
                    res.violation("harness-crash@" + tag, "x_bytearray exited abnormally / leaked / sanitizer report (%s): %s" % (tag, err[-1500:]),
                                  {"config": tag, "stderr": err[-4000:]}, no_input=True)
                shared_sessions = max(shared_sessions, shared)
                per.append({"part": "byte_array", "config": tag, "sessions": len(sessions), "distinct_sessions": len(distinct), "operations": len(lines),
                            "sessions_with_a_block_shared_by_2+_variables": shared, "sessions_differing_from_proved_model_or_vector": nbad,
                            "held_reference_operations": held_lines,
                            "UAF_results_from_the_implementation": sum(1 for o in impl if o.startswith("UAF")),
                            "sanitizer_reports": 1 if "Sanitizer" in err else 0})
            res.cov["ba_distinct_sessions_with_sharing"] = shared_sessions
            res.cov["ba_uaf_violations_confirmed_raw"] = dict(uaf_seen)
            res.cov["ba_directed_sessions_outcome"] = directed_outcome

    # ---------------- stale flags (code already fixed, model flags not switched)
    if judge.stale:
        msg = ("NOTE: property=C20 the selected model (coq/Model/C20Config.v: %s) describes unfixed code, but the code under test equals the FIXED model on %s; "
               "set the corresponding flag(s) to true and install the matching Props/Properties_C20.v.<variant> "
               "(byte_array held references: tools/c20-variant.sh fixed-index | fixed; a signature ending in =fixed-index means the code equals the model "
               "with fixes/C20-subscript-detach.patch only)" % (flags, dict(judge.stale)))
        print(msg)
        res.notes.append(msg)

    hex_nontrivial = len(set(l for l in hex_lines if l.split()[-1] not in ("-", "NULL") and not (l.startswith("HEXENC") and l.split()[2] == "-")))
    res.cov.update({
        "evaluations": len(hex_lines) * max(1, sum(1 for p in per if p["part"] == "hex")) +
                       sum(p["operations"] for p in per if p["part"] == "byte_array"),
        "distinct_nontrivial": hex_nontrivial + res.cov.get("ba_distinct_sessions_with_sharing", 0),
        "rule": "hex: one line = one call (or encode+decode pair) with its buffer sizes; distinct = distinct line text; non-trivial = non-empty input. "
                "byte_array: one session = RESET + operations on 4-8 variables with every observer (size, capacity, ref, alias class, bytes) printed after every step; "
                "distinct = distinct session text; non-trivial = at some step a private block was shared by two or more variables (measured from the implementation's dump). "
                "distinct_nontrivial = sum of the two measured counts.",
        "samples": hex_lines[:2] + hex_lines[len(hex_lines) // 2:len(hex_lines) // 2 + 2] +
                   [" ; ".join(ls[:14]) for (_, ls) in ba_sessions[:1] + ba_sessions[-2:]],
        "per_config": per,
        "lines_compared_with_models": judge.tie_checked,
        "disagreements_with_proved_model": judge.disagreements,
        "stale_model_flags": dict(judge.stale),
        "input_distribution": {"hex_kinds": dict(hex_stats), "hex_input_length": diffrun.histogram(list(hex_lens.elements())),
                               "byte_array_op_mix": dict(opmix), "byte_array_sessions": len(ba_sessions),
                               "byte_array_random_sessions_with_held_reference_operations": sum(1 for (n, _) in ba_sessions if n == "random-held"),
                               "byte_array_directed_sessions": [n for (n, _) in ba_sessions if n not in ("random", "random-held", "replay")]},
        "coq_witnesses_replayed": ["coq-witness-resize", "coq-witness-cmp", "fromhex-ws (HEXCPP 'ab  ')", "coq-witness-set2", "coq-witness-swap",
                                   "coq-witness-get-held", "coq-witness-get-held-c", "coq-witness-held-pop", "coq-witness-data-copy",
                                   "coq-witness-data-assign", "coq-witness-cdata"],
    })
    res.assumptions += [
        "Model/Hexm.v and Model/ByteArraym.v mirror the C/C++ source only as far as the differential run shows (state dumps include ref counts, capacities, alias classes and the number of live private blocks)",
        "Spec/Hex.v (digits + six white-space characters, pairs most-significant-nibble first) and vec_step (std::vector value semantics) are the reading of the property; vec_step is run against libstdc++'s std::vector on every run",
        "lengths below 2^31 (int return values, size_t arithmetic does not wrap); characters are compared as their unsigned byte value (all tested constants are ASCII)",
        "operator new does not fail; capacity() and the identity of blocks are not part of std::vector's value semantics (compared with the model only)",
        "held references: one reference or pointer held across ONE further operation on the same object (two subscripts, subscript + pop_back, data() + copy/assignment, const data() + subscript write), "
        "as compound operations; references held across arbitrary longer sequences (and across push_back/resize/reserve within a reserved capacity) are not modelled",
        "a dangling reference is detected by the harness as 'points into storage released since the operation began' (operator delete is replaced and keeps the storage aside); "
        "the real access is performed only in the ASan confirmation run of a reported replay",
    ]
    res.cov["wall_total"] = round(time.time() - t0, 1)
    return "proof"
