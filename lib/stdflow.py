"""The skeleton shared by the differential checks: prove, build, correspond."""
import os, time, re
import common, diffrun


# generated-file name prefix -> hook name prefix (only used to police VERIF_GEN_HOOKS)
GEN_OWNER = [("Consts", "10"), ("KernObl_avr", "24"), ("Kern_avr", "24"), ("MaskedObl_avr", "24"), ("Masked_avr", "24"),
             ("Kern_rv", "21"), ("Kern_xtensa", "21"), ("Kern_arm", "22"), ("Kern_i386", "22"), ("Kern_m68k", "22"),
             ("Kern_", "20"), ("ByteOps", "27-kern-byteops"), ("TagObl", "29"), ("Bounds", "30"), ("CtMasked", "41"), ("Ct", "40-kern-ct"),
             ("Skeleton", "40-skeleton"), ("AbiX86", "50"), ("Globals", "60"), ("HexAst", "70"),
             ("Masked", "25|27-kern-masked-c32"), ("MW", "26|28"), ("MWord", "26")]


def gen_hooks_guard(pid, extra_targets):
    """with VERIF_GEN_HOOKS set: the generated files the property targets depend on must all belong to hooks that ran"""
    only = os.environ.get("VERIF_GEN_HOOKS")
    if only is None:
        return []
    only = [x for x in only.split(",") if x]
    dep = {}
    mk = os.path.join(common.COQ, ".Makefile.d")
    if not os.path.exists(mk):
        return ["(no .Makefile.d)"]
    txt = open(mk).read().replace("\\\n", " ")
    for line in txt.split("\n"):
        if ":" not in line:
            continue
        lhs, rhs = line.split(":", 1)
        for t in lhs.split():
            if t.endswith(".vo"):
                dep.setdefault(t, set()).update(x for x in rhs.split() if x.endswith(".vo"))
    todo, seen = [common.props_file(pid)] + list(extra_targets), set()
    while todo:
        t = todo.pop()
        if t in seen:
            continue
        seen.add(t)
        todo.extend(dep.get(t, ()))
    bad = []
    for t in sorted(seen):
        if not t.startswith("Gen/"):
            continue
        name = t[4:]
        owner = next((h for pre, h in GEN_OWNER if name.startswith(pre)), None)
        if owner is None or not any(any(o.startswith(x) or x.startswith(o) for x in only) for o in owner.split("|")):
            bad.append(name)
    return bad


def prove(res, pid, extra_targets=()):
    """Compile Props/Properties_<pid>.v; record obligations; on failure record a
    violation that names what no longer checks (a concrete failing input, if the
    correspondence finds one, is reported separately)."""
    # translate-and-check is one critical section: checks running at the same time (possibly against different
    # source trees via VERIF_REPO) must not see each other's generated files
    with common.Lock("prove"):
        regen = common.regenerate()
        pr = common.coq_props(pid, extra_targets)
        stale = gen_hooks_guard(pid, extra_targets)
    if stale:
        raise common.Infra("VERIF_GEN_HOOKS skipped a translator whose output the property file depends on: " + ", ".join(stale[:8]))
    res.cov["translators"] = regen["summary"]
    for m in regen["missing"]:
        res.violation("translator-missing:" + re.sub(r"[^A-Za-z0-9]+", "_", m)[:60],
                      "a (T) translator no longer finds what it expects in /repo's source: " + m, {"missing": m}, no_input=True)
    res.cov["obligations"] = pr["obligations"]
    res.cov["discharged"] = pr["discharged"]
    res.cov["theorems"] = pr["names"]
    res.cov["print_assumptions"] = pr["assumptions"]
    res.cov["checker_cmd"] = "cd /verif/coq && coq_makefile -f _CoqProject -o Makefile <all .v> && make -k -j16 %s  (coqc 8.16.1; lint: no Admitted/Axiom/Parameter)" % common.props_file(pid)
    res.cov["trusted_base"] = list(common.TRUSTED_BASE)
    res.cov["coq_wall_s"] = round(pr["wall_s"], 1)
    if pr["lint"]:
        res.violation("coq-lint", "forbidden declaration in the Coq development: " + "; ".join(pr["lint"][:5]),
                      {"lint": pr["lint"]}, no_input=True)
    if not pr["ok"]:
        tail = "\n".join(l for l in pr["log"].split("\n") if "Error" in l or "error" in l or l.startswith("File"))[-1500:]
        res.violation("coq-proof-broken",
                      "theorem file Props/Properties_%s.v (or a file it depends on) no longer checks:\n%s" % (pid, tail),
                      {"failed_targets": [t for t, ok in pr["targets"].items() if not ok], "theorems": pr["names"],
                       "log_tail": pr["log"][-4000:]}, no_input=True)
    return pr


class Builds:
    """Builds /repo configurations + harness on demand in one scratch dir."""

    def __init__(self, res, scratch):
        self.res, self.scratch, self.cache = res, scratch, {}

    def get(self, config="default", shares=None, san=False, targets=("ascon_static",), harness_defs=(), harness_extra=(),
            harness_srcs=None, cflags="", tag=""):
        key = (config, shares, san, tuple(targets), tuple(harness_defs), tuple(harness_extra), cflags, tag)
        if key in self.cache:
            return self.cache[key]
        name = config + ("-%d%d%d" % shares if shares else "") + ("-san" if san else "") + tag
        d = os.path.join(self.scratch, "b-" + name + "-%d" % len(self.cache))
        ok, log = common.build_repo(d, config, shares, san, targets, cflags)
        if not ok:
            self.res.violation("build-failed@" + name, "/repo no longer builds in configuration %s:\n%s" % (name, log[-1500:]),
                               {"config": name, "log_tail": log[-6000:]}, no_input=True)
            self.cache[key] = None
            return None
        ok, hlog, exe = common.build_harness(d, san=san, defs=harness_defs, extra=harness_extra, srcs=harness_srcs)
        if not ok:
            self.res.violation("harness-build-failed@" + name,
                               "the correspondence harness no longer compiles against /repo (%s) - a public declaration changed?\n%s" % (name, hlog[-1500:]),
                               {"config": name, "log_tail": hlog[-6000:]}, no_input=True)
            self.cache[key] = None
            return None
        self.cache[key] = (d, exe, name)
        return self.cache[key]
