"""C12 - no out-of-bounds access, undefined behaviour or stray output writes.

Layers (DESIGN section 4, C12):

 1. kernel clause (T): tools/kern_bounds.py (hook tools/gen.d/30-kern-bounds)
    re-translates the masked-word / masked-state / masked-key toolkit and the
    masked permutations for MAX_SHARES 2,3,4 (C via clang LLVM IR, x86-64 .S
    via the assembly front end) and the incremental AEAD functions on three
    state layouts, and runs them symbolically with regions of
    exactly the C types' sizes; a run stuck on valid arguments is a proved
    violation (replay = configuration, function, arguments; confirmed
    natively under ASan when the file is C).  Props/Properties_C12.v
    re-checks the verdict table.  MISSING lines of every translator are
    violations (stdflow.prove).
 2. length arithmetic: theorems over Model/Idx.v (Props/Properties_C12.v).
    The model of asconcrypt's name functions is compared with the real tool:
    the theorem C12_idx_cli_names_pinned_iff predicts exactly which argument
    vectors overrun; Model/C12Config.v says which code /repo is expected to be.
 3. observation (D): the operation streams of C01..C08, C14, C15 replayed on
    ASan+UBSan builds with exact-size heap buffers (VERIF_EXACT=1), one
    configuration with 0xA5 canaries instead, harness/x_c12.c (internal
    toolkit + one-shot modes + the incremental AEAD functions on exact-size
    blocks; on guard pages for the assembly of the default build), and
    asconcrypt/asconsum under ASan with argument
    vectors and files of boundary lengths (deterministic randomness through
    harness/shim_c19.c).  A sanitizer report, a guard-page fault or a damaged
    canary is a violation whose replay is the operation line(s) / argv + the
    sanitizer's summary.  Undefined behaviour in C that is neither translated
    nor modelled is only detected when a generated case triggers it."""
import os, re, sys, json, time, random, shutil, subprocess, collections, hashlib
from concurrent.futures import ThreadPoolExecutor
import common, diffrun, gen, stdflow

H = os.path.join(common.VERIF, "harness")
VEC_ANNOT = "-D_GLIBCXX_SANITIZE_VECTOR"
SAN_RE = re.compile(r"(ERROR: AddressSanitizer[^\n]*|ERROR: LeakSanitizer[^\n]*|[^\n]*runtime error:[^\n]*|AddressSanitizer:DEADLYSIGNAL)")
ASAN_ENV = {"ASAN_OPTIONS": "detect_leaks=0:abort_on_error=0:verify_asan_link_order=0:detect_stack_use_after_return=0",
            "UBSAN_OPTIONS": "print_stacktrace=1:halt_on_error=1"}


# --------------------------------------------------------------------------
# configuration flags (Model/C12Config.v)

def read_flags():
    txt = open(os.path.join(common.COQ, "Model", "C12Config.v")).read()
    txt = re.sub(r"\(\*.*?\*\)", "", txt, flags=re.S)
    fl = {}
    for m in re.finditer(r"Definition\s+(fix_\w+)\s*:\s*bool\s*:=\s*(true|false)", txt):
        fl[m.group(1)] = m.group(2) == "true"
    return fl


# --------------------------------------------------------------------------
# sanitizer report parsing

def san_summary(err):
    """-> (kind, where, head) of the first sanitizer report in a stderr text, or None"""
    m = SAN_RE.search(err)
    if not m:
        return None
    head = m.group(1).strip()
    kind, where = "sanitizer", ""
    m2 = re.search(r"ERROR: AddressSanitizer: ([\w-]+)", err)
    if m2:
        kind = "asan-" + m2.group(1)
    elif "runtime error:" in head:
        kind = "ubsan"
        mm = re.search(r"runtime error: (.*)$", head)
        k2 = re.sub(r"0x[0-9a-f]+", "ADDR", mm.group(1)) if mm else ""
        k2 = re.sub(r"\d+", "N", k2)
        kind = "ubsan-" + re.sub(r"[^A-Za-z]+", "-", k2)[:40].strip("-")
    elif "LeakSanitizer" in head:
        kind = "lsan-leak"
    # innermost frame that lies in the repository
    for fm in re.finditer(r"#\d+ 0x[0-9a-f]+ in (\S+) (\S+?)(?::(\d+))?(?::\d+)?\s*$", err, flags=re.M):
        fn, path = fm.group(1), fm.group(2)
        if path.startswith(common.REPO + "/") and ("/src/" in path or "/apps/" in path):
            where = "%s@%s" % (fn, os.path.basename(path))
            break
    if not where:
        mm = re.match(r"(\S+?):(\d+):\d+: runtime error", head)
        if mm:
            where = os.path.basename(mm.group(1)) + ":" + mm.group(2)
    stack = "\n".join(l for l in err.split("\n") if re.match(r"\s*#\d+ ", l))[:1500]
    return kind, where, head[:300], stack


# --------------------------------------------------------------------------
# operation streams of the other properties (reduced volume, seeded)

class _Flex:
    """stands in for whatever statistics container a generator of another property expects (list, dict, Counter)"""

    def append(self, x):
        pass

    def __getitem__(self, k):
        return 0

    def __setitem__(self, k, v):
        pass

    def get(self, k, d=None):
        return d


class _Stats(dict):
    def __missing__(self, k):
        self[k] = _Flex()
        return self[k]


def collect_streams(rng, tier, driver, notes):
    """-> list of (source, [lines of one session])"""
    out = []
    cap = 350 if tier == "quick" else 2500

    def take(source, corr):
        ses = [corr.lines[a:b] for (a, b) in corr.sessions]
        # keep the sessions with the longest and the shortest payloads, sample the rest
        if len(ses) > cap:
            idx = list(range(len(ses)))
            rng.shuffle(idx)
            ses = [ses[i] for i in sorted(idx[:cap])]
        out.extend((source, s) for s in ses)

    def attempt(source, fn):
        try:
            corr = diffrun.Corr()
            fn(corr)
            take(source, corr)
        except Exception as ex:      # a generator of another property changed shape: say so, go on
            notes.append("stream of %s not replayed: %r" % (source, ex))

    import p_c01, p_c02, p_c03, p_c04, p_c05, p_c06, p_c07, p_c08, p_c14, p_c15
    t = "quick"      # the generators' own quick volume is the population we sample from; thorough takes more of it and more seeds
    attempt("C01", lambda c: p_c01.gen_cases(rng, t, c, _Stats()))
    attempt("C02", lambda c: p_c02.gen_cases(rng, t, driver, c, _Stats(), ["AE", "SIV", "ISAP"]))
    attempt("C03", lambda c: p_c03.gen_cases(rng, t, c, _Stats()))
    attempt("C04", lambda c: p_c04.gen_cases(rng, t, driver, c, _Stats()))
    attempt("C05", lambda c: p_c05.gen_cases(rng, t, c, _Stats()))
    attempt("C06", lambda c: p_c06.gen_cases(rng, t, driver, c, _Stats()))

    def c07(c):
        st = _Stats()
        for _ in range(120 if tier == "quick" else 1200):
            s, tag = p_c07.xof_history(rng, st); c.session(s, tag)
            s, tag = p_c07.aead_history(rng, st); c.session(s, tag)
        for _ in range(15 if tier == "quick" else 100):
            for l in p_c07.mac_lines(rng, st):
                c.one(l)
    attempt("C07", c07)
    attempt("C08", lambda c: p_c08.gen_cases(rng, t, c, _Stats()))

    def c14(c):
        p_c14.gen_cases(rng, t, c, _Stats(), driver)
        for l in p_c14.cpp_nonce_lines(rng, t):
            c.one(l)
    attempt("C14", c14)

    def c15(c):
        st = _Stats()
        for _ in range(25 if tier == "quick" else 200):
            c.session(p_c15.session(rng, t, st), "RN-session")
    attempt("C15", c15)
    def c17(c):
        import p_c17
        lines, meta = p_c17.gen_cpx(rng, t)
        for l in lines:
            c.one(l)
        for (_, hl) in p_c17.gen_xof(rng, t):
            c.one(hl)
        for l in p_c17.gen_utl(rng, t):
            c.one(l)
    attempt("C17", c17)

    def c20(c):
        import p_c20
        lines = p_c20.gen_hex(rng, t)[0]
        for l in lines:
            c.one(l)
    attempt("C20", c20)
    # C12's own additions: empty optional inputs as NULL, zero lengths everywhere, exact sizes (the harness does the rest)
    own = diffrun.Corr()
    for v, (klen, rate) in gen.AEAD_VARIANTS.items():
        for (a, p) in [(0, 0), (0, 1), (1, 0), (rate - 1, rate - 1), (rate, 0), (0, rate), (rate + 1, 2 * rate - 1)]:
            k, n = common.rnd_bytes(rng, klen), common.rnd_bytes(rng, 16)
            for fam in ("AE", "AEM", "AEC"):
                own.one("%s %s ENC %s %s %s %s" % (fam, v, common.hx(k), common.hx(n), common.hx(common.rnd_bytes(rng, a)), common.hx(common.rnd_bytes(rng, p))))
            for L in (0, 1, 15, 16, 17):
                for fam in ("AE", "AEM"):
                    own.one("%s %s DEC %s %s %s %s" % (fam, v, common.hx(k), common.hx(n), common.hx(common.rnd_bytes(rng, a)), common.hx(common.rnd_bytes(rng, L))))
    own.one("UTL FROMDATA -")            # ascon::bytes_from_data(ptr, 0)
    own.one("UTL TOHEX - 0 P")
    own.one("UTL FROMHEX - L")
    for alg in ("hkdf", "hkdfa"):        # NULL key / salt / info for the empty strings; zero-length and limit-crossing requests
        own.one("HK %s - - - 0,0,1,31,32,33,0,64" % alg)
        own.one("HKO %s - - - 0" % alg)
        own.one("HKO %s 6b - - 8160" % alg)
        own.one("HKO %s 6b - - 8161" % alg)
    take("C12", own)
    return out


def is_masked(session):
    return session[0].split()[0] == "AEM"


def is_perm_st(session):
    return session[0].split()[0] in ("PERM", "ST")


# --------------------------------------------------------------------------
# running a stream on one harness; a crash is bisected to its line

def run_stream(exe, sessions, env, jobs=common.NPROC, timeout=1800):
    """sessions: list of (source, lines).  Returns (nlines, findings) where a finding is
    dict(kind=..., where=..., head=..., stack=..., ops=[lines up to the offending one], source=...)."""
    shards = [[] for _ in range(jobs)]
    sizes = [0] * jobs
    for i in sorted(range(len(sessions)), key=lambda i: -sum(len(l) for l in sessions[i][1])):
        j = sizes.index(min(sizes))
        shards[j].append(i)
        sizes[j] += sum(len(l) for l in sessions[i][1]) + 200 * len(sessions[i][1])
    shards = [s for s in shards if s]
    e = dict(env)

    def one_run(idxs):
        lines = [l for i in idxs for l in sessions[i][1]]
        try:
            rc, out, err = common.run_lines(exe, lines, env=e, timeout=timeout)
        except subprocess.TimeoutExpired:
            return lines, -999, [], "TIMEOUT"
        return lines, rc, out, err

    findings = []
    nlines = 0

    def examine(idxs, depth=0):
        nonlocal nlines
        lines, rc, out, err = one_run(idxs)
        bad_canary = [k for k, o in enumerate(out) if o.endswith(" CANARY")]
        clean = rc == 0 and not SAN_RE.search(err) and not bad_canary and len(out) == len(lines)
        if clean:
            if depth == 0:
                nlines += len(lines)
            return
        if len(idxs) > 1:
            # isolate the failing session(s)
            for i in idxs:
                examine([i], depth + 1)
            if depth == 0:
                nlines += len(lines)
            return
        src, ses = sessions[idxs[0]]
        if depth == 0:
            nlines += len(lines)
        for k in bad_canary:
            findings.append({"kind": "canary", "where": ses[k].split()[0] + "-" + (ses[k].split()[1] if len(ses[k].split()) > 1 else ""),
                             "head": "guard bytes around a caller buffer were overwritten", "stack": "", "ops": ses[:k + 1], "source": src, "out": out[k][:200]})
        if rc != 0 or SAN_RE.search(err) or len(out) != len(lines):
            sm = san_summary(err) or ("crash-rc%d" % rc, "", (err.strip().split("\n") or [""])[-1][:300], "")
            k = min(len(out), len(ses) - 1)          # the harness prints one line per operation: the first line without output is the offender
            findings.append({"kind": sm[0], "where": sm[1], "head": sm[2], "stack": sm[3], "ops": ses[:k + 1], "source": src})

    with ThreadPoolExecutor(max_workers=jobs) as ex:
        list(ex.map(examine, shards))
    return nlines, findings


# --------------------------------------------------------------------------
# builds (in parallel)

def build_many(res, sc, specs):
    """specs: list of dict(name, config, shares, san, targets, harness: bool, xc12: bool).  Returns name -> dict(dir, harness, xc12) (missing on failure)."""
    out = {}

    def one(sp):
        d = os.path.join(sc, "b-" + sp["name"])
        # sanitised builds: libstdc++'s container annotations in EVERY C++ translation unit (the library's src/cplusplus/*.cpp and the
        # harness alike - mixing annotated and plain code gives false reports), so that ASan also sees an access between size() and
        # capacity() of a byte_array / std::vector passed by reference
        vec = [VEC_ANNOT] if sp.get("san") else []
        ok, log = common.build_repo(d, sp["config"], sp.get("shares"), sp.get("san", False), sp.get("targets", ("ascon_static",)), cflags=" ".join(vec))
        if not ok:
            return sp, None, "repo", log
        r = {"dir": d}
        if sp.get("harness"):
            ok, hlog, exe = common.build_harness(d, san=sp.get("san", False), defs=vec)
            if not ok:
                return sp, None, "harness", hlog
            r["harness"] = exe
        if sp.get("xc12"):
            exe = os.path.join(d, "x_c12")
            cmd = ["gcc", "-O1", "-g", "-w", "-I" + os.path.join(common.REPO, "src"), "-I" + os.path.join(common.REPO, "src", "ascon"), "-I" + d, "-I" + H,
                   "-DHAVE_CONFIG_H", "-DASCON_SUITE_VERIF"]
            if sp.get("san"):
                cmd += common.SAN_FLAGS.split()
            cmd += [os.path.join(H, "x_c12.c"), os.path.join(d, "src", "libascon_static.a"), "-o", exe]
            rc, xlog = common.sh(cmd, timeout=600)
            if rc != 0:
                return sp, None, "x_c12", xlog
            r["xc12"] = exe
        return sp, r, None, ""

    with ThreadPoolExecutor(max_workers=6) as ex:
        for sp, r, stage, log in ex.map(one, specs):
            if r is None:
                sig = ("build-failed@" if stage == "repo" else stage + "-build-failed@") + sp["name"]
                res.violation(sig, "%s does not build in configuration %s:\n%s" % ("/repo" if stage == "repo" else "harness/" + stage, sp["name"], log[-1500:]),
                              {"config": sp["name"], "log_tail": log[-6000:]}, no_input=True)
            else:
                out[sp["name"]] = r
    return out


# --------------------------------------------------------------------------
# kernel table

def native_confirm(entry, sc):
    """Compile the C file of a stuck entry with a generated caller under ASan+UBSan; -> sanitizer summary or None."""
    if not entry["file"].endswith(".c") or "call" not in entry:
        return None, None
    d = os.path.join(sc, "kc-" + hashlib.sha1(json.dumps(entry, sort_keys=True).encode()).hexdigest()[:10])
    os.makedirs(d, exist_ok=True)
    L = ["#include <stdlib.h>", "#include <string.h>", "#include <stdint.h>",
         "uint64_t ascon_trng_generate_64(void *t) { (void)t; return 0x0123456789abcdefULL; }",
         "uint32_t ascon_trng_generate_32(void *t) { (void)t; return 0x89abcdefUL; }",
         "extern void %s();" % entry["function"], "int main(void) {"]
    for name, size in entry["regions"].items():
        L.append("  unsigned char *r_%s = malloc(%d); memset(r_%s, 0xA5, %d);" % (name, max(size, 1), name, size))
    args = []
    for a in entry["call"]:
        if a[0] == "ptr":
            args.append("(void *)0" if a[1] is None else "(void *)(r_%s + %d)" % (a[1], a[2]))
        else:
            args.append("(unsigned)%d" % a[1])
    L.append("  %s(%s);" % (entry["function"], ", ".join(args)))
    L += ["  " + " ".join("free(r_%s);" % n for n in entry["regions"]), "  return 0;", "}"]
    main_c = os.path.join(d, "main.c")
    open(main_c, "w").write("\n".join(L) + "\n")
    exe = os.path.join(d, "repro")
    cmd = ["gcc", "-w"] + common.SAN_FLAGS.split() + ["-I" + os.path.join(common.REPO, "src"), "-I" + os.path.join(common.REPO, "src", "ascon")]
    cmd += ["-D" + x for x in entry["defines"]] + [os.path.join(common.REPO, "src", entry["file"]), main_c, "-o", exe]
    rc, log = common.sh(cmd, timeout=300)
    if rc != 0:
        return None, "\n".join(L)
    p = subprocess.run([exe], stdout=subprocess.PIPE, stderr=subprocess.PIPE, env=dict(os.environ, **ASAN_ENV), timeout=120)
    err = p.stderr.decode("utf-8", "replace")
    return san_summary(err), "\n".join(L)


def kernel_layer(res, sc, flags):
    p = os.path.join(common.BUILD, "bounds.json")
    if not os.path.exists(p):
        raise common.Infra("tools/kern_bounds.py left no build/bounds.json")
    tab = json.load(open(p))
    # a check running at the same time against another tree (VERIF_REPO) may have replaced the table since our translate+prove step
    sys.path.insert(0, os.path.join(common.VERIF, "tools"))
    import kern_bounds
    if tab.get("hash") != kern_bounds.input_hash(common.REPO):
        with common.Lock("prove"):
            common.sh([sys.executable, os.path.join(common.VERIF, "tools", "kern_bounds.py"), common.REPO], check=True, timeout=900)
            tab = json.load(open(p))
    ent = tab["entries"]
    bad = [e for e in ent if e["valid"] and e["verdict"] == "stuck" and e["kind"] not in ("other", "datadep")]
    known_x3 = False
    for e in bad:
        sm, prog = native_confirm(e, sc)
        argtxt = ", ".join("%s=%s" % kv for kv in sorted(e["args"].items())) or "-"
        sig = "kernel-%s:%s@%s" % (e["kind"], e["function"], e["config"])
        if e["function"] == "ascon_masked_word_x3_zero" and e["config"] == "word-c64/max3":
            known_x3 = True
        res.violation(sig,
                      "kernel bounds proof fails: %s (%s, -D%s) with arguments [%s] and memory regions sized by the C types (%s): %s%s" %
                      (e["function"], e["file"], " -D".join(e["defines"]), argtxt, ", ".join("%s=%dB" % kv for kv in e.get("regions", {}).items()), e["detail"],
                       ("\n confirmed natively (generated caller, exact-size heap blocks, ASan+UBSan): %s %s" % (sm[2], sm[1])) if sm else ""),
                      {"kind": "kernel", "entry": e, "reproducer_c": prog, "native": {"summary": sm[2], "frame": sm[1], "stack": sm[3]} if sm else None,
                       "how": "python3 tools/kern_bounds.py; or compile src/%s with the defines and the reproducer under -fsanitize=address,undefined" % e["file"]})
    if flags.get("fix_x3_zero") is False and not known_x3:
        print("NOTE: property=C12 coq/Model/C12Config.v has fix_x3_zero = false but the kernel table of the code under test contains no stuck "
              "ascon_masked_word_x3_zero entry: the code is fixed - set the flag to true")
        res.notes.append("stale flag fix_x3_zero (code is fixed)")
    cfgs = collections.Counter(e["config"] for e in ent)
    return {"entries": len(ent), "configs": len(cfgs), "stuck_valid": len(bad),
            "stuck_probes": sum(1 for e in ent if not e["valid"] and e["verdict"] == "stuck"),
            "functions": len(set((e["config"], e["function"]) for e in ent)),
            "samples": [{"config": e["config"], "function": e["function"], "args": e["args"], "verdict": e["verdict"], "detail": e["detail"][:120]}
                        for e in (bad[:2] + ent[:2] + ent[len(ent) // 2:len(ent) // 2 + 2])]}


# --------------------------------------------------------------------------
# x_c12 (internal toolkit + modes; exact blocks / guard pages)

XGROUPS = ["state", "masked-word", "masked-state", "modes", "masked-modes", "inc-modes"]


def run_xc12(res, exe, mode, cfgname, san, xagg):
    stats = {"calls": 0, "groups": 0}

    def one(g):
        env = dict(os.environ, **ASAN_ENV)
        try:
            p = subprocess.run([exe, mode, g], stdout=subprocess.PIPE, stderr=subprocess.PIPE, env=env, timeout=900)
        except subprocess.TimeoutExpired:
            return g, -999, "", "TIMEOUT"
        return g, p.returncode, p.stdout.decode("utf-8", "replace"), p.stderr.decode("utf-8", "replace")

    with ThreadPoolExecutor(max_workers=len(XGROUPS)) as ex:
        for g, rc, out, err in ex.map(one, XGROUPS):
            stats["groups"] += 1
            for m in re.finditer(r"^OK \S+ placement=\S+ calls=(\d+)", out, flags=re.M):
                stats["calls"] += int(m.group(1))
            fault = re.search(r"^FAULT (\S+) (.*)$", out, flags=re.M)
            sm = san_summary(err)
            if fault:
                what = fault.group(2)
                fn = what.split()[0]
                xagg.setdefault(("guard-fault", fn), []).append(
                    (cfgname, "an access left its object (PROT_NONE guard page hit): %s" % what,
                     {"kind": "xc12", "config": cfgname, "mode": mode, "group": g, "fault": what,
                      "how": "build harness/x_c12.c against the library built for `config` and run `x_c12 %s %s`" % (mode, g)}))
            elif sm:
                xagg.setdefault((sm[0], sm[1] or g), []).append(
                    (cfgname, "sanitizer report running harness/x_c12.c group %s on exact-size heap blocks: %s (%s)" % (g, sm[2], sm[1]),
                     {"kind": "xc12", "config": cfgname, "mode": mode, "group": g, "sanitizer": sm[2], "frame": sm[1], "stack": sm[3],
                      "how": "build harness/x_c12.c with -fsanitize=address,undefined against the library built for `config` and run `x_c12 %s %s`" % (mode, g)}))
            elif rc != 0:
                res.violation("xc12-crash:%s@%s" % (g, cfgname), "harness/x_c12 %s %s exited with %d in %s: %s" % (mode, g, rc, cfgname, (err or out)[-400:]),
                              {"kind": "xc12", "config": cfgname, "mode": mode, "group": g, "stderr": err[-2000:]}, no_input=True)
    return stats


# --------------------------------------------------------------------------
# command-line tools

def name_of(L, suffix):
    """a file name of exactly L characters (with the tool's suffix when asked)"""
    if suffix:
        return ("n" * max(L - 6, 0) + ".ascon")[-L:] if L >= 6 else None
    return "m" * L


def predict_name_unsafe(mode, name, has_o, fixed):
    """Theorem C12_idx_cli_names_pinned_iff / C12_idx_cli_names_fixed: does main()'s use of the name functions leave a buffer?"""
    if fixed or has_o or mode == "-e" or name == "-":
        return False
    L = len(name)
    return L < 6 or (L >= 8198 and name.endswith(".ascon"))


class Cli:
    def __init__(self, res, sc, exes, shim, flags):
        self.res, self.sc, self.exes, self.shim, self.flags = res, sc, exes, shim, flags
        self.n = 0
        self.ran = []
        self.stale = 0
        self.unsafe_seen = 0

    def run(self, tool, argv, files, stdin=None, tag=""):
        self.n += 1
        wd = os.path.join(self.sc, "cli", "w%d" % self.n)
        os.makedirs(wd)
        for name, data in files.items():
            try:
                with open(os.path.join(wd, name), "wb") as f:
                    f.write(data)
            except OSError:
                pass
        env = dict(os.environ, **ASAN_ENV)
        env.update({"LD_PRELOAD": self.shim, "C19_RSEED": "7", "LC_ALL": "C", "LANG": "C"})
        try:
            p = subprocess.run([self.exes[tool]] + argv, cwd=wd, env=env, stdin=subprocess.DEVNULL if stdin is None else None, input=stdin,
                               stdout=subprocess.PIPE, stderr=subprocess.PIPE, timeout=300)
            rc, out, err = p.returncode, p.stdout, p.stderr.decode("utf-8", "replace")
        except subprocess.TimeoutExpired:
            rc, out, err = -999, b"", "TIMEOUT"
        outfiles = {}
        for nme in os.listdir(wd):
            if nme not in files:
                try:
                    outfiles[nme] = open(os.path.join(wd, nme), "rb").read()
                except OSError:
                    pass
        shutil.rmtree(wd, ignore_errors=True)
        sm = san_summary(err)
        if sm is None and rc < 0 and rc != -999:
            sm = ("signal%d" % -rc, "", "killed by signal %d" % -rc, "")
        return rc, out, err, sm, outfiles

    def short(self, s):
        return s if len(s) <= 40 else "%s...(%d chars)" % (s[:12], len(s))

    def judge(self, tool, argv, files, sm, predicted_unsafe, what, cls):
        desc_argv = [self.short(a) for a in argv]
        self.ran.append({"tool": tool, "argv": desc_argv, "files": {self.short(k): len(v) for k, v in files.items()}, "class": cls, "sanitizer": bool(sm)})
        replay = {"kind": "cli", "tool": tool, "argv_hex": [a.encode().hex() for a in argv], "files_hex": {k: v.hex() if len(v) <= 4096 else "len:%d:%s" % (len(v), hashlib.sha1(v).hexdigest()) for k, v in files.items()},
                  "env": {"LD_PRELOAD": "shim_c19.so", "C19_RSEED": "7"},
                  "how": "build the targets asconcrypt/asconsum with -fsanitize=address,undefined, create the files in an empty directory, run the tool with the argument vector"}
        if sm and predicted_unsafe:
            self.unsafe_seen += 1
            replay.update({"sanitizer": sm[2], "frame": sm[1], "stack": sm[3], "predicted_by": "Theorem C12_idx_cli_names_pinned_iff (the model of the pinned code returns None for this argument vector)"})
            self.res.violation("cli-%s:%s" % (cls, sm[1] or tool),
                               "%s %s: %s\n sanitizer: %s (%s)\n the index model of the code as pinned predicts exactly this overrun (C12_idx_cli_names_refuted / _pinned_iff)" %
                               (tool, " ".join(desc_argv), what, sm[2], sm[1]), replay)
        elif sm:
            replay.update({"sanitizer": sm[2], "frame": sm[1], "stack": sm[3]})
            self.res.violation("cli-%s:%s:%s" % (cls, sm[0], sm[1] or tool),
                               "%s %s: %s\n sanitizer: %s (%s) - not predicted by the model (which is proved safe here)" % (tool, " ".join(desc_argv), what, sm[2], sm[1]), replay)
        elif predicted_unsafe:
            self.stale += 1


def cli_layer(res, sc, builds, flags, tier, rng):
    b = builds.get("cli-san")
    if not b:
        return {}
    exes = {"asconcrypt": os.path.join(b["dir"], "apps", "asconcrypt", "asconcrypt"), "asconsum": os.path.join(b["dir"], "apps", "asconsum", "asconsum")}
    for t, p in exes.items():
        if not os.path.exists(p):
            res.violation("build-failed@cli-" + t, "the %s binary was not produced" % t, {"path": p}, no_input=True)
            return {}
    shim = os.path.join(sc, "shim_c19.so")
    common.sh(["gcc", "-shared", "-fPIC", "-O1", "-w", "-o", shim, os.path.join(H, "shim_c19.c"), "-ldl"], check=True)
    os.makedirs(os.path.join(sc, "cli"), exist_ok=True)
    C = Cli(res, sc, exes, shim, flags)
    fixed = bool(flags.get("fix_cli_names"))
    pw = "correct horse"
    plain = bytes(rng.getrandbits(8) for _ in range(100))
    # one valid encrypted file to decrypt under the various names
    rc, out, err, sm, of = C.run("asconcrypt", ["-e", "-p", pw, "-o", "enc.bin", "plain"], {"plain": plain})
    C.judge("asconcrypt", ["-e", "-p", pw, "-o", "enc.bin", "plain"], {"plain": plain}, sm, False, "encrypting a 100-byte file", "roundtrip")
    enc = of.get("enc.bin", b"")
    jobs = []

    # ---- file names of boundary lengths, three modes, with / without the suffix, with / without -o
    lens = [1, 2, 3, 4, 5, 6, 7, 8, 100, 249, 8190, 8191, 8192, 8193, 8197, 8198, 8199, 8200] + ([12, 255, 4095, 4096, 8185, 8186, 8187, 8194, 8195, 8196, 9000, 20000] if tier == "thorough" else [])
    for L in lens:
        for suffix in (False, True):
            nm = name_of(L, suffix)
            if nm is None:
                continue
            for mode in (None, "-d", "-e"):
                content = enc if (mode == "-d" or (mode is None and (suffix or L < 6))) else plain
                argv = ([mode] if mode else []) + ["-p", pw, nm]
                jobs.append(("asconcrypt", argv, {nm: content} if L <= 250 else {}, predict_name_unsafe(mode, nm, False, fixed),
                             "file name of %d characters %s, mode %s" % (L, "ending in .ascon" if suffix else "without suffix", mode or "detected"),
                             "name-short" if L < 6 else ("name-long" if L >= 8198 else "name")))
            # -o output names of the same lengths
            argv = ["-e", "-p", pw, "-o", nm, "plain"]
            jobs.append(("asconcrypt", argv, {"plain": plain}, False, "-o output name of %d characters" % L, "oname"))
    # the empty name
    jobs.append(("asconcrypt", ["-p", pw, ""], {}, predict_name_unsafe(None, "", False, fixed), "empty file name, mode detected", "name-short"))
    jobs.append(("asconcrypt", ["-d", "-p", pw, "-o", "out", ""], {}, False, "empty file name with -o", "oname"))
    jobs.append(("asconcrypt", ["-d", "-p", pw, "-"], {}, False, "standard input with -d", "stdin"))
    jobs.append(("asconcrypt", ["-p", pw, "-"], {}, predict_name_unsafe(None, "-", False, fixed), "standard input, mode detected", "stdin"))
    jobs.append(("asconcrypt", ["-e", "-p", pw, "-"], {}, False, "standard input with -e", "stdin"))
    # ---- passwords
    for n in (1, 1022, 1023, 1024, 1025, 5000):
        jobs.append(("asconcrypt", ["-e", "-p", "p" * n, "-o", "o.bin", "plain"], {"plain": plain}, False, "-p password of %d bytes" % n, "password"))
    # ---- key files
    kfs = {"empty": b"", "nl-only": b"\n", "40-no-nl": b"k" * 40, "40-nl": b"k" * 40 + b"\n", "crlf": b"k" * 40 + b"\r\n", "1022-no-nl": b"k" * 1022, "1023-no-nl": b"k" * 1023,
           "1024-no-nl": b"k" * 1024, "1025-no-nl": b"k" * 1025, "1023-nl": b"k" * 1023 + b"\n", "1024-nl": b"k" * 1024 + b"\n", "3000-no-nl": b"k" * 3000,
           "nul-inside": b"abc\x00def\n", "nl-at-1023": b"k" * 1023 + b"\n" + b"z" * 500, "two-lines": b"first\nsecond\n"}
    for nm, data in kfs.items():
        jobs.append(("asconcrypt", ["-e", "-k", "kf", "-o", "o.bin", "plain"], {"plain": plain, "kf": data}, False, "key file %s (%d bytes)" % (nm, len(data)), "keyfile"))
    jobs.append(("asconcrypt", ["-g", "newkey"], {}, False, "generate a key file", "keygen"))
    jobs.append(("asconcrypt", ["-g", "g" * 300], {}, False, "generate a key file with a 300-character name", "keygen"))
    # ---- truncated / damaged encrypted files (header 28 + SIV block 52 + data + tag 16)
    for cut in (0, 1, 27, 28, 79, 80, 81, 95, 96, 97, len(enc) - 1):
        if 0 <= cut <= len(enc):
            jobs.append(("asconcrypt", ["-d", "-p", pw, "-o", "o.bin", "e.bin"], {"e.bin": enc[:cut]}, False, "encrypted file truncated to %d bytes" % cut, "truncated"))
    # ---- asconsum: names, hash of boundary-length files, check files
    for L in (1, 5, 250, 8192, 8200):
        nm = "h" * L
        jobs.append(("asconsum", [nm], {nm: b"data"} if L <= 250 else {}, False, "asconsum file name of %d characters" % L, "sum-name"))
    for alg in ("-h", "-a", "-x", "-y"):
        jobs.append(("asconsum", [alg, "f0", "f1", "f8191", "f8192", "f8193"], {"f0": b"", "f1": b"x", "f8191": b"y" * 8191, "f8192": b"y" * 8192, "f8193": b"y" * 8193},
                     False, "asconsum %s on files of 0/1/8191/8192/8193 bytes" % alg, "sum-data"))
    rc, out, err, sm, of = C.run("asconsum", ["data"], {"data": b"data"})
    good = out.decode("latin1").split()[0] if out else "0" * 64
    checks = {
        "ok": (good + "  data\n").encode(),
        "no-newline": (good + "  data").encode(),
        "crlf": (good + "  data\r\n").encode(),
        "line-1022": (good + "  " + "d" * (1022 - 66) + "\n").encode(),
        "line-1023": (good + "  " + "d" * (1023 - 66) + "\n").encode(),
        "line-1024": (good + "  " + "d" * (1024 - 66) + "\n").encode(),
        "line-1025": (good + "  " + "d" * (1025 - 66) + "\n").encode(),
        "line-3000": (good + "  " + "d" * 3000 + "\n").encode(),
        "hex-1023": b"a" * 1023 + b"\n", "hex-1024": b"a" * 1024 + b"\n", "hex-5000-no-nl": b"a" * 5000,
        "short-hash": (good[:62] + "  data\n").encode(), "long-hash": (good + "ab  data\n").encode(), "odd-hash": (good[:63] + "  data\n").encode(),
        "hash-only": (good + "\n").encode(), "hash-spaces": (good + "      \n").encode(), "spaces-1023": (good + " " * (1023 - 64) + "\n").encode(),
        "spaces-1024": (good + " " * (1024 - 64) + "x\n").encode(),
        "empty": b"", "blank-lines": b"\n\r\n\n", "only-cr": b"\r" * 2000, "nul-bytes": (good + "  da\x00ta\n").encode(), "nul-first": b"\x00" + (good + "  data\n").encode(),
        "hex-then-nonhex-at-end": (good[:63]).encode() + b"\n", "dash": (good + "  -\n").encode(),
    }
    for nm, data in checks.items():
        for alg in (["-c"], ["-a", "-c"]) if nm in ("ok", "line-1023", "line-1024") else (["-c"],):
            jobs.append(("asconsum", alg + ["list"], {"list": data, "data": b"data"}, False, "check file %s (%d bytes)" % (nm, len(data)), "sum-check"))
    jobs.append(("asconsum", ["-c"], {"data": b"data"}, False, "check list from standard input (empty)", "sum-check"))

    def work(j):
        tool, argv, files, pred, what, cls = j
        rc, out, err, sm, of = C.run(tool, argv, files)
        return j, sm

    with ThreadPoolExecutor(max_workers=common.NPROC) as ex:
        for (tool, argv, files, pred, what, cls), sm in ex.map(work, jobs):
            C.judge(tool, argv, files, sm, pred, what, cls)
    # ---- round trips through the sliding window: plaintext lengths around the buffer sizes
    sizes = [0, 1, 15, 16, 17, 8175, 8176, 8177, 8191, 8192, 8193, 16352, 16353, 16384, 16400] + ([8160, 24528, 24529, 40000, 100000] if tier == "thorough" else [])

    def rt(n):
        data = bytes((i * 7 + n) & 255 for i in range(n))
        rc, out, err, sm1, of = C.run("asconcrypt", ["-e", "-p", pw, "-o", "e.bin", "p.bin"], {"p.bin": data})
        e = of.get("e.bin")
        if e is None:
            return n, sm1, None, False
        rc, out, err, sm2, of2 = C.run("asconcrypt", ["-d", "-p", pw, "-o", "d.bin", "e.bin"], {"e.bin": e})
        return n, sm1, sm2, of2.get("d.bin") == data

    rt_bad = 0
    with ThreadPoolExecutor(max_workers=common.NPROC) as ex:
        for n, sm1, sm2, same in ex.map(rt, sizes):
            C.judge("asconcrypt", ["-e", "-p", pw, "-o", "e.bin", "p.bin"], {"p.bin": b"\0" * n}, sm1, False, "encrypting %d bytes" % n, "roundtrip")
            if sm2 is not None or same is not None:
                C.judge("asconcrypt", ["-d", "-p", pw, "-o", "d.bin", "e.bin"], {"e.bin": b"\0" * (n + 96)}, sm2, False, "decrypting the encryption of %d bytes" % n, "roundtrip")
            if not same:
                rt_bad += 1
    if C.stale and not C.unsafe_seen and not fixed:
        print("NOTE: property=C12 coq/Model/C12Config.v has fix_cli_names = false (the model of the pinned asconcrypt predicts overruns for %d of the argument "
              "vectors run) but the tool under test produced no sanitizer report on any of them: the code is fixed - set the flag to true" % C.stale)
        res.notes.append("stale flag fix_cli_names (code is fixed)")
    elif C.stale:
        # some predicted overruns were not observed although others were: the characterisation theorem and the binary disagree
        res.violation("cli-model-mismatch", "the index model of asconcrypt's name functions predicts an overrun for %d argument vector(s) on which the sanitizers stayed silent, "
                      "while reporting on %d others: the model no longer describes the code" % (C.stale, C.unsafe_seen), {"runs": [r for r in C.ran if r["class"].startswith("name")][:40]}, no_input=True)
    by = collections.Counter(r["class"] for r in C.ran)
    return {"runs": len(C.ran), "by_class": dict(by), "sanitizer_reports": sum(1 for r in C.ran if r["sanitizer"]), "roundtrip_mismatch": rt_bad,
            "predicted_unsafe_runs": C.unsafe_seen + C.stale, "samples": C.ran[:3] + [r for r in C.ran if r["sanitizer"]][:3]}


# --------------------------------------------------------------------------

def spec_of_name(name):
    """'c64-333-san' / 'default-plain' / 'cli-san' -> build spec"""
    parts = name.split("-")
    sp = dict(name=name, config=parts[0] if parts[0] != "cli" else "default", san=name.endswith("-san"))
    for q in parts[1:]:
        if re.match(r"^[1-4]{3}$", q):
            sp["shares"] = tuple(int(c) for c in q)
    if parts[0] == "cli":
        sp["targets"] = ("asconcrypt", "asconsum")
    else:
        sp["harness"] = True
        sp["xc12"] = True
    return sp


def replay_run(res, rp, sc, flags):
    """Re-run exactly one recorded case against a fresh build of the tree under test."""
    kind = rp.get("kind")
    if kind == "kernel":
        e0 = rp["entry"]
        tab = json.load(open(os.path.join(common.BUILD, "bounds.json")))
        for e in tab["entries"]:
            if (e["config"], e["function"], e["args"]) == (e0["config"], e0["function"], e0["args"]):
                if e["verdict"] == "stuck":
                    sm, prog = native_confirm(e, sc)
                    res.violation("kernel-%s:%s@%s" % (e["kind"], e["function"], e["config"]), "kernel bounds proof still fails: %s%s" % (e["detail"], "\n native: %s" % sm[2] if sm else ""),
                                  {"kind": "kernel", "entry": e, "reproducer_c": prog})
                return 1
        res.violation("kernel-entry-gone:%s@%s" % (e0["function"], e0["config"]), "the recorded kernel entry no longer exists in the regenerated table", {"entry": e0}, no_input=True)
        return 0
    if kind in ("ops", "xc12"):
        sp = spec_of_name(rp["config"])
        b = build_many(res, sc, [sp]).get(sp["name"])
        if not b:
            return 0
        if kind == "ops":
            exact = rp.get("exact", True)
            n, fnd = run_stream(b["harness"], [("replay", rp["ops"])], dict(ASAN_ENV, VERIF_EXACT="1") if exact else {}, jobs=1)
            for f in fnd:
                res.violation("%s:%s" % (f["kind"], f["where"] or f["ops"][-1].split()[0]), "replayed in %s: %s\n%s" % (sp["name"], f["head"], f["stack"][:600]),
                              {"kind": "ops", "config": sp["name"], "exact": exact, "ops": f["ops"], "sanitizer": f["head"], "frame": f["where"]})
        else:
            xagg = collections.OrderedDict()
            run_xc12(res, b["xc12"], rp["mode"], sp["name"], sp.get("san"), xagg)
            for (k, w), items in xagg.items():
                res.violation("%s:%s" % (k, w), "replayed in %s: %s" % (sp["name"], items[0][1]), items[0][2])
        return 1
    if kind == "cli":
        b = build_many(res, sc, [spec_of_name("cli-san")])
        if "cli-san" not in b:
            return 0
        exes = {"asconcrypt": os.path.join(b["cli-san"]["dir"], "apps", "asconcrypt", "asconcrypt"), "asconsum": os.path.join(b["cli-san"]["dir"], "apps", "asconsum", "asconsum")}
        shim = os.path.join(sc, "shim_c19.so")
        common.sh(["gcc", "-shared", "-fPIC", "-O1", "-w", "-o", shim, os.path.join(H, "shim_c19.c"), "-ldl"], check=True)
        os.makedirs(os.path.join(sc, "cli"), exist_ok=True)
        C = Cli(res, sc, exes, shim, flags)
        argv = [bytes.fromhex(a).decode() for a in rp["argv_hex"]]
        files = {k: bytes.fromhex(v) for k, v in rp["files_hex"].items() if not v.startswith("len:")}
        rc, out, err, sm, of = C.run(rp["tool"], argv, files)
        C.judge(rp["tool"], argv, files, sm, False, "replayed argument vector", "replay")
        return 1
    raise common.Infra("replay file of an unknown kind: %r" % kind)


def share_triples():
    return [(k, d, m) for m in (2, 3, 4) for k in range(2, m + 1) for d in range(1, k + 1)]


def run(res, tier, seed, replay=None):
    t0 = time.time()
    rng = random.Random(seed)
    flags = read_flags()
    pr = stdflow.prove(res, "C12")
    res.cov["model_flags"] = flags
    driver = common.build_driver()
    notes = []
    with common.Scratch() as sc:
        # ---------------- layer 1
        if replay:
            rp = json.load(open(replay))["replay"]
            n = replay_run(res, rp, sc, flags)
            res.cov.update({"evaluations": n, "distinct_nontrivial": n, "rule": "replay of one recorded case", "samples": [rp.get("ops", rp.get("argv_hex", rp.get("entry", "")))]})
            res.cov["wall_total"] = round(time.time() - t0, 1)
            return "proof"
        res.cov["kernel_table"] = kernel_layer(res, sc, flags)
        t1 = time.time()
        # ---------------- builds
        specs = [dict(name="default-san", config="default", san=True, harness=True, xc12=True),
                 dict(name="c32-san", config="c32", san=True, harness=True, xc12=True),
                 dict(name="generic-san", config="generic", san=True, harness=True, xc12=True),
                 dict(name="default-plain", config="default", san=False, harness=True, xc12=True),
                 dict(name="cli-san", config="default", san=True, targets=("asconcrypt", "asconsum"))]
        masked = []
        if tier == "quick":
            for sh in ((4, 1, 4), (3, 3, 3), (2, 2, 2)):
                masked.append(dict(name="c64-%d%d%d-san" % sh, config="c64", shares=sh, san=True, harness=True, xc12=True))
            masked.append(dict(name="default-333-plain", config="default", shares=(3, 3, 3), san=False, xc12=True))
        else:
            specs += [dict(name="c64-san", config="c64", san=True, harness=True, xc12=True),
                      dict(name="directxor-san", config="directxor", san=True, harness=True, xc12=True)]
            for be in ("c64", "c32", "directxor", "generic", "default"):
                for sh in share_triples():
                    masked.append(dict(name="%s-%d%d%d-san" % ((be,) + sh), config=be, shares=sh, san=True, harness=True, xc12=True))
            for sh in ((2, 2, 2), (3, 3, 3), (3, 1, 3), (4, 4, 4), (4, 1, 4)):
                masked.append(dict(name="default-%d%d%d-plain" % sh, config="default", shares=sh, san=False, xc12=True))
        builds = build_many(res, sc, specs + masked)
        t2 = time.time()
        # ---------------- streams
        sessions = collect_streams(rng, tier, driver, notes)
        msessions = [s for s in sessions if is_masked(s[1])]
        psessions = [s for s in sessions if is_perm_st(s[1])]
        per = []
        exact_env = dict(ASAN_ENV, VERIF_EXACT="1")

        agg = collections.OrderedDict()          # (kind, frame) -> [first finding, exact?, [configs]]

        def report(cfgname, findings, exact):
            for f in findings:
                key = (f["kind"], f["where"] or f["ops"][-1].split()[0])
                if key not in agg:
                    agg[key] = [f, exact, []]
                if cfgname not in agg[key][2]:
                    agg[key][2].append(cfgname)

        def flush_reports():
            for (kind, where), (f, exact, cfgs) in agg.items():
                res.violation("%s:%s" % (kind, where),
                              "%s in configuration(s) %s (%s buffers) on operation: %s\n %s\n%s" %
                              ("damaged canary" if kind == "canary" else "sanitizer report", ", ".join(cfgs), "exact-size heap" if exact else "canary-guarded",
                               f["ops"][-1][:300], f["head"], f["stack"][:600]),
                              {"kind": "ops", "config": cfgs[0], "configs": cfgs, "exact": exact, "ops": f["ops"], "source_stream": f["source"], "sanitizer": f["head"], "frame": f["where"], "stack": f["stack"],
                               "how": "build /repo and the harness for `config` with -O1 -g -fsanitize=address,undefined, feed `ops` to the harness with VERIF_EXACT=%d (./check C12 --replay <this file>)" % (1 if exact else 0)})

        for sp in specs:
            b = builds.get(sp["name"])
            if not b or "harness" not in b:
                continue
            if sp["name"] == "default-plain":
                # canary mode (non-exact): damage to the 32 guard bytes on either side of every caller buffer
                n, fnd = run_stream(b["harness"], sessions, {})
                report(sp["name"], fnd, False)
                per.append({"config": sp["name"], "mode": "canary", "lines": n, "sessions": len(sessions), "findings": len(fnd)})
            else:
                n, fnd = run_stream(b["harness"], sessions, exact_env)
                report(sp["name"], fnd, True)
                per.append({"config": sp["name"], "mode": "asan+ubsan exact", "lines": n, "sessions": len(sessions), "findings": len(fnd)})
                # "any buffer alignment": the same stream with every caller buffer starting 1, 3 or 7 bytes after a 16-aligned address
                # (UBSan -fsanitize=alignment reports a wide load/store through a misaligned pointer; the block end stays exact)
                if sp["name"] in ("default-san", "c32-san") or tier == "thorough":
                    for k in ((1, 7) if tier == "quick" else (1, 3, 7)):
                        n, fnd = run_stream(b["harness"], sessions, dict(exact_env, VERIF_MISALIGN=str(k)))
                        report(sp["name"] + "+misalign%d" % k, fnd, True)
                        per.append({"config": sp["name"], "mode": "asan+ubsan exact, buffers misaligned by %d" % k, "lines": n, "sessions": len(sessions), "findings": len(fnd)})
        for sp in masked:
            b = builds.get(sp["name"])
            if not b or "harness" not in b:
                continue
            n, fnd = run_stream(b["harness"], msessions, exact_env)
            report(sp["name"], fnd, True)
            per.append({"config": sp["name"], "mode": "asan+ubsan exact, masked subset", "lines": n, "sessions": len(msessions), "findings": len(fnd)})
            if sp["name"].startswith("c64"):      # the C masked-word backend loads caller bytes itself: misaligned buffers there too
                n, fnd = run_stream(b["harness"], msessions, dict(exact_env, VERIF_MISALIGN="3"))
                report(sp["name"] + "+misalign3", fnd, True)
                per.append({"config": sp["name"], "mode": "asan+ubsan exact, masked subset, buffers misaligned by 3", "lines": n, "sessions": len(msessions), "findings": len(fnd)})
        flush_reports()
        t3 = time.time()
        # ---------------- x_c12: exact blocks under the sanitizers, guard pages for the plain (assembly) builds
        xstats = []
        xagg = collections.OrderedDict()
        for sp in specs + masked:
            b = builds.get(sp["name"])
            if not b or "xc12" not in b:
                continue
            mode = "exact" if sp.get("san") else "guard"
            st = run_xc12(res, b["xc12"], mode, sp["name"], sp.get("san"), xagg)
            xstats.append({"config": sp["name"], "mode": mode, "calls": st["calls"]})
        for (kind, where), items in xagg.items():
            cfgs = [c for c, _, _ in items]
            res.violation("%s:%s" % (kind, where), "in configuration(s) %s: %s" % (", ".join(cfgs), items[0][1]), dict(items[0][2], configs=cfgs))
        t4 = time.time()
        # ---------------- command-line tools
        cli = cli_layer(res, sc, builds, flags, tier, rng)
        t5 = time.time()
    # The report is capped at 20 signatures: most concrete first - sanitizer / canary / guard-page findings (operation + stack), kernel-table
    # entries (function + arguments), then the rest; the per-control-tuple MISSING lines of tools/kern_ct.py (C11's table, whose regions are
    # exact too, so an over-read gets stuck there as well) are folded into one finding per function.
    folded, firsts = [], {}
    for v in res.violations:
        mm = re.match(r"^kern_ct(?:_masked)? (\S+) ", v[2].get("missing", "") if isinstance(v[2], dict) else "") if v[0].startswith("translator-missing:") else None
        if mm:
            if mm.group(1) in firsts:
                firsts[mm.group(1)][2].setdefault("also", []).append(v[2]["missing"])
                continue
            firsts[mm.group(1)] = v
        folded.append(v)
    prio = lambda v: (3 if v[0].startswith("translator-missing:") else 2 if v[0].startswith(("coq-", "build-failed", "harness-build", "x_c12-build", "xc12-crash")) else
                      1 if v[0].startswith("kernel-") else 0)
    res.violations[:] = sorted(folded, key=prio)
    nlines = sum(p["lines"] for p in per)
    distinct = len(set("\n".join(s[1]) for s in sessions))
    res.notes += notes
    res.cov.update({
        "evaluations": sum(p["sessions"] for p in per) + sum(x["calls"] for x in xstats) + cli.get("runs", 0) + res.cov["kernel_table"]["entries"],
        "distinct_nontrivial": distinct + cli.get("runs", 0) + res.cov["kernel_table"]["entries"],
        "rule": "(1) kernel table: one entry per (file x MAX_SHARES, function, control-argument value), symbolic data, regions of exactly the C types' sizes - distinct by construction; "
                "(3) operation sessions sampled (seeded, at most %d per source) from the generators of C01-C08, C14, C15 plus zero-length/NULL cases, replayed with exact-size heap buffers "
                "under ASan+UBSan on every listed configuration (masked subset = AEM lines on the share-triple builds) and once with canaries; distinct = distinct session text; "
                "harness/x_c12.c calls (internal toolkit, state primitives for all 861 (offset,size) pairs, one-shot modes at boundary lengths, incremental AEAD sessions with exact-size state / key / "
                "nonce / AD / chunk / tag blocks) on exact heap blocks / between guard pages; the AI / PERM / CPX / XOFX / HSHX / UTL operations hand keys, nonces, tags, C strings, key objects and C++ objects to the library as hx.h Buf blocks of exactly the documented size "
                "(misaligned with the others), and the sanitised builds (library and harness) are compiled with -D_GLIBCXX_SANITIZE_VECTOR, which poisons [size, capacity) of every std::vector "
                "still passed by data() or by reference (AEC, HM/KM, ST, byte_array arguments); "
                "command-line runs: one per argument vector listed in coverage.cli" % (350 if tier == "quick" else 2500),
        "samples": [s[1][0][:160] for s in sessions[:3]] + [s[1][0][:160] for s in msessions[:1]] + res.cov["kernel_table"]["samples"][:2] + cli.get("samples", [])[:2],
        "per_config": per,
        "xc12": xstats,
        "cli": cli,
        "stream_sources": dict(collections.Counter(s[0] for s in sessions)),
        "stream_lines_total": nlines,
        "input_distribution": {"ops": dict(collections.Counter(s[1][0].split()[0] for s in sessions)),
                               "session_lengths": diffrun.histogram([len(s[1]) for s in sessions], (1, 2, 4, 8, 16, 64))},
        "timing_s": {"prove+translate": round(t1 - t0, 1), "builds": round(t2 - t1, 1), "streams": round(t3 - t2, 1), "x_c12": round(t4 - t3, 1), "cli": round(t5 - t4, 1)},
        "partial": "undefined behaviour in C code that is neither translated (kernel table, C08 kernels) nor covered by an index model is only OBSERVED under the sanitizers on the generated cases",
    })
    res.cov["trusted_base"] = list(common.TRUSTED_BASE) + [
        "tools/kern_bounds.py with tools/symx.py, llvmx.py, asm_x86.py: the stuck semantics (region bounds, uninitialised reads, shifts, alignment) is implemented there, not in Coq; clang 14 -O1 as the reading of the C",
        "Model/Idx.v is hand-written from the C (integer types and wrap-around included); its tie to the code is the sanitizer observation of the same functions and, for asconcrypt's name functions, the agreement of the predicted and observed overruns",
        "gcc's AddressSanitizer/UBSan, mprotect guard pages (harness/x_c12.c) and the canaries of harness/hx.h as observers"]
    res.assumptions += ["lengths fit the machine types (strlen < 2^64; the models write unsigned/size_t wrap-around explicitly)",
                        "kernel clause: the C is read as clang -O1 LLVM IR, the assembly through the x86-64 lowering table; control arguments are enumerated over their documented ranges "
                        "(size 1..7 resp. 0..7, offset 0..7, first_round 0..12), data is symbolic",
                        "callers of the word functions (ascon-masked-state.c, ascon-masked-key.c) are checked against the callees' contracts (whole ascon_masked_word_t, documented byte counts)",
                        "everything not translated or modelled is observed only (sanitizers on generated cases)"]
    res.cov["wall_total"] = round(time.time() - t0, 1)
    return "proof"
