"""Reader for the KAT files in /repo/test/kat."""
import os
import common


def read_kat(name):
    p = os.path.join(common.REPO, "test", "kat", name)
    recs, cur = [], {}
    for line in open(p):
        line = line.strip()
        if not line:
            if cur:
                recs.append(cur)
                cur = {}
            continue
        if "=" in line:
            k, v = line.split("=", 1)
            cur[k.strip()] = v.strip()
    if cur:
        recs.append(cur)
    return recs


def h(s):
    s = s.strip().lower()
    return s if s else "-"
