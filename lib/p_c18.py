"""C18 - assembly backends match their generators, the specification and the ABI (PARTIAL).

Four sub-checks per checked-in assembly file, all from /repo's working tree on every run:

  1. generator equality (translation validation, tools/gencmp.py): tools/ copied to a scratch
     directory, built with the host compiler, every Makefile `generate` rule run, output
     compared byte for byte with the checked-in file.
  2. permutation semantics (T + reflective proof): the file lowered to word-level segments and
     proved = the specification's permutation for all states and first_round 0..12.  Exists for
     x86-64 today (Obl/KernPerm.v, re-exported as C18_perm_x86_64); other ISAs arrive as
     coq/Obl/KernPerm*.v + coq/Props/Properties_C18_<group>.v, which are picked up by glob.
  3. ABI / frame / bounds (tools/abi_x86.py -> Gen/AbiX86.v -> C18_abi_x86_64*) for the five
     x86-64 files, cross-checked natively (tools/native_x86.py: sentinel registers, guard pages,
     canaries, every output byte predicted by the concretely evaluated symbolic run, and
     ascon_permute against the specification).
  4. no executable stack (tools/execstack.py) on the objects and binaries of a default build,
     the assembler flags of the CMake build, and a source scan for the note directive.

A file without a permutation theorem is reported in the evidence as "generator-equal and
note-checked only".  How other groups register coverage: theorem names C18_perm_<isa> /
C18_abi_<isa> / C18_masked_<xN|word>_<isa> (isa = file name part after `asm-`, `-` -> `_`) in
Props/Properties_C18_<group>.v, or a comment line `(* covers: <path below /repo> perm abi *)`."""
import os, re, sys, glob, json, time, importlib.util
import common, stdflow

PID = "C18"
FILES18 = [
    "src/core/ascon-asm-armv6.S", "src/core/ascon-asm-armv6m.S", "src/core/ascon-asm-armv7m.S", "src/core/ascon-asm-armv8a-64.S",
    "src/core/ascon-asm-avr5.S", "src/core/ascon-asm-i386.S", "src/core/ascon-asm-m68k.S", "src/core/ascon-asm-riscv32e.S",
    "src/core/ascon-asm-riscv32i.S", "src/core/ascon-asm-riscv64i.S", "src/core/ascon-asm-x86-64.S", "src/core/ascon-asm-xtensa.S",
    "src/masking/ascon-word-asm-x86-64.S", "src/masking/ascon-x2-asm-avr5.S", "src/masking/ascon-x2-asm-x86-64.S",
    "src/masking/ascon-x3-asm-avr5.S", "src/masking/ascon-x3-asm-x86-64.S", "src/masking/ascon-x4-asm-x86-64.S",
]


def tool(name):
    spec = importlib.util.spec_from_file_location("c18_" + name, os.path.join(common.VERIF, "tools", name + ".py"))
    m = importlib.util.module_from_spec(spec)
    sys.modules[spec.name] = m
    sys.path.insert(0, os.path.join(common.VERIF, "tools"))
    spec.loader.exec_module(m)
    return m


def file_tags(rel):
    """-> (kind, isa) : kind in perm | masked_x2.. | masked_word"""
    b = os.path.basename(rel)[:-2]
    m = re.match(r"ascon-asm-(.+)$", b)
    if m:
        return "perm", m.group(1).replace("-", "_")
    m = re.match(r"ascon-(x\d|word)-asm-(.+)$", b)
    return "masked_" + m.group(1), m.group(2).replace("-", "_")


def strip_comments(txt):
    return re.sub(r"\(\*.*?\*\)", "", txt, flags=re.S)


def theorem_names_of(path):
    return re.findall(r"^\s*(?:Theorem|Corollary)\s+([A-Za-z0-9_']+)", strip_comments(open(path).read()), flags=re.M)


def covers_of(path):
    """`(* covers: <file> perm abi *)` marker lines -> {file: set(kinds)}"""
    out = {}
    for m in re.finditer(r"\(\*\s*covers:\s*(\S+)\s+([a-z ]+?)\s*\*\)", open(path).read()):
        out.setdefault(m.group(1), set()).update(m.group(2).split())
    return out


def run(res, tier, seed, replay=None):
    t0 = time.time()
    if replay:
        # every C18 finding is a fact about a file of the tree (a diff, a stuck symbolic run, a native call, a readelf line):
        # replaying it = redoing the sub-checks on the current tree; the replay file names the sub-check and the command
        try:
            res.notes.append("replay requested for signature %s: all sub-checks are re-run on the current tree" % json.load(open(replay)).get("signature"))
        except Exception:
            res.notes.append("replay file %s could not be read; all sub-checks are re-run" % replay)
    props = os.path.join(common.COQ, "Props")
    groups = sorted(glob.glob(os.path.join(props, "Properties_C18_*.v")))
    kern_files = sorted(f for f in glob.glob(os.path.join(common.COQ, "Obl", "KernPerm*.v")) if not f.endswith("Dbg.v"))
    extra = ["Props/" + os.path.basename(g)[:-2] + ".vo" for g in groups] + ["Obl/" + os.path.basename(k)[:-2] + ".vo" for k in kern_files]
    for g in groups:            # force a re-check so that their Print Assumptions are re-printed
        vo = g[:-2] + ".vo"
        if os.path.exists(vo):
            os.remove(vo)

    # ---- regenerate + prove
    pr = stdflow.prove(res, PID, extra_targets=extra)
    # one violation per backend for kern_perm translator failures (stdflow reports one per first_round)
    first, kept = {}, []
    for v in res.violations:
        if v[0].startswith("translator-missing:"):
            # stdflow.prove reports the MISSING lines of every translator; only the assembly ones belong to this property
            # (the C kernels are C08's, the masked-word/key translators C10's, ...)
            text = (v[2] or {}).get("missing", "")
            if not (re.match(r"kern_perm (?!c64\b|c32\b|c64dx\b)", text) or re.match(r"(abi_x86|xcheck|asm_|c18)", text)):
                res.notes.append("translator message of another property ignored here: " + text[:200])
                continue
        m = re.match(r"translator-missing:kern_perm_(.+?)_first_round", v[0])
        if m:
            if m.group(1) in first:
                first[m.group(1)][2].setdefault("also", []).append(v[2].get("missing"))
                continue
            first[m.group(1)] = v
        kept.append(v)
    res.violations[:] = kept
    names_main = list(pr["names"])
    group_info, all_names, discharged = [], list(names_main), (len(names_main) if pr["targets"].get(common.props_file(PID)) else 0)
    covers = {}
    for g in groups:
        tgt = "Props/" + os.path.basename(g)[:-2] + ".vo"
        ns = theorem_names_of(g)
        ok = bool(pr["targets"].get(tgt))
        group_info.append({"file": "coq/Props/" + os.path.basename(g), "theorems": ns, "checked": ok})
        all_names += ns
        discharged += len(ns) if ok else 0
        if ok:
            for f, kinds in covers_of(g).items():
                covers.setdefault(f, set()).update(kinds)
    res.cov["obligations"] = len(all_names)
    res.cov["discharged"] = discharged
    res.cov["theorems"] = all_names
    res.cov["theorem_files"] = [{"file": "coq/Props/Properties_C18.v", "theorems": names_main, "checked": bool(pr["targets"].get(common.props_file(PID)))}] + group_info
    kern_lemmas = []
    for k in kern_files:
        tgt = "Obl/" + os.path.basename(k)[:-2] + ".vo"
        ls = re.findall(r"^\s*Lemma\s+([A-Za-z0-9_']+_ok)\b", strip_comments(open(k).read()), flags=re.M)
        kern_lemmas.append({"file": "coq/Obl/" + os.path.basename(k), "compiled": bool(pr["targets"].get(tgt)), "backend_ok_lemmas": ls})
    res.cov["kernel_obligation_files"] = kern_lemmas
    proved_names = [n for gi in res.cov["theorem_files"] if gi["checked"] for n in gi["theorems"]]
    c10 = os.path.join(props, "Properties_C10.v")
    c10_names = [n for n in theorem_names_of(c10) if re.search(r"x86|asm", n)] if os.path.exists(c10) else []

    # ---- 1. generator equality
    gencmp = tool("gencmp")
    g = gencmp.run(common.REPO, avr_test=True)
    gen_by_file = {f["file"]: f for f in g["files"]}
    if not g["build_ok"] or not g.get("generate_ok", False):
        res.violation("generator-build-failed", "the generator programs under tools/ no longer build or run with the host compiler:\n" + g["build_log_tail"][-1500:],
                      {"command": "cp -r <repo>/tools <scratch>/tools && make -C <scratch>/tools all generate", "log_tail": g["build_log_tail"]}, no_input=True)
    for f in g["files"]:
        if not f.get("identical"):
            res.violation("generator-diff@" + f["file"],
                          "%s is not what its generator emits (%s):\n%s" % (f["file"], f["command"], f.get("diff", "")[:1500]),
                          {"file": f["file"], "generator_command": f["command"], "differing_lines": f.get("diff_lines"), "unified_diff_head": f.get("diff"),
                           "how": "python3 tools/gencmp.py <repo>"})
    for f in g["ungenerated"]:
        res.violation("no-generator@" + f, "%s is checked in but no `generate` rule under tools/ produces it (or the file is missing)" % f,
                      {"file": f, "how": "python3 tools/gencmp.py <repo>"})
    for f in g["missing_checked_in"]:
        res.violation("generated-not-checked-in@" + f, "a `generate` rule under tools/ produces %s but it is not in the tree" % f, {"file": f})
    avr = g.get("avr_selftest", {})
    if avr.get("ran") and not avr.get("ok"):
        res.violation("avr-generator-selftest", "tools/genavr --test (the generator's own AVR interpreter against its reference vectors) fails:\n" + "\n".join(avr.get("output", [])),
                      {"command": avr.get("command"), "output": avr.get("output")})

    # ---- 3. ABI table of the x86-64 files (regenerated by the hook tools/gen.d/50-abi-x86 inside stdflow.prove)
    abi_x86 = tool("abi_x86")
    abi_json = os.path.join(common.BUILD, "c18-abi-x86.json")
    abi = json.load(open(abi_json)) if os.path.exists(abi_json) else {"rows": [], "globals": [], "perms": []}
    if abi.get("repo") != common.REPO:
        raise common.Infra("build/c18-abi-x86.json was not regenerated for %s" % common.REPO)
    abi_bad = [r for r in abi["rows"] if not abi_x86.row_ok(r)]
    seen = set()
    for r in abi_bad:
        sig = "abi@%s:%s" % (os.path.basename(r["file"]), r["fn"])
        if sig in seen:
            continue
        seen.add(sig)
        what = []
        if not r["finished"]:
            what.append("the symbolic run gets stuck: " + (r["stuck"] or "?"))
        if r["finished"] and not r["callee_saved_ok"]:
            what.append("callee-saved register(s) %s do not hold their entry value at ret" % ", ".join(r.get("clobbered") or ["?"]))
        if r["finished"] and not r["rsp_ok"]:
            what.append("rsp after ret is not entry rsp + 8")
        if r["stack_above"]:
            what.append("%d byte(s) accessed at or above the return address" % r["stack_above"])
        if r["stack_lo"] > r["frame_bytes"]:
            what.append("stack access %d bytes below entry rsp but the frame is %d bytes" % (r["stack_lo"], r["frame_bytes"]))
        for u in r["regions"]:
            if u["hi"] > u["size"]:
                what.append("region %s (%d bytes) accessed up to offset %d" % (u["name"], u["size"], u["hi"]))
        res.violation(sig, "%s [%s] %s, %s = %d%s: %s" % (r["file"], r["profile"], r["fn"], "first_round" if r["kind"] == 0 else "size/offset argument",
                                                        r["case"], (" (" + r["variant"] + ")") if r["variant"] else "", "; ".join(what) or "row not ok"),
                      {"row": r, "how": "python3 tools/abi_x86.py <repo> --show   (uncut symbolic execution with tools/asm_x86.py)",
                       "all_bad_rows_of_this_function": [(x["profile"], x["case"], x["variant"], x["stuck"]) for x in abi_bad if x["fn"] == r["fn"]][:30]})

    # ---- 3b. native cross-check on the host
    native = tool("native_x86")
    nat = native.run(common.REPO, n_states=8 if tier == "quick" else 600, seed=seed)
    if nat["infra"] and not (nat["spec_mismatches"] or nat["mismatches"] or nat["crashes"] or nat["abi_failures"]):
        res.violation("native-build-failed", "the x86-64 assembly files no longer assemble/link for the native cross-check:\n" + str(nat["infra"])[:1500],
                      {"log": nat["infra"]}, no_input=True)
    for m in nat["spec_mismatches"][:1]:
        res.violation("perm-wrong@" + os.path.basename(m["file"]),
                      "ascon_permute of %s, run natively, is not the specification's permutation: first_round=%d state=%s -> %s, specification %s"
                      % (m["file"], m["first_round"], m["state_in"], m["native_out"], m["spec_out"]),
                      dict(m, how="python3 tools/native_x86.py <repo>", more=nat["spec_mismatches"][1:4]))
    for m in nat["mismatches"][:3]:
        res.violation("native-vs-lowering@" + m["fn"],
                      "the concretely evaluated symbolic run (tools/asm_x86.py lowering) and the hardware disagree on %s case %s: %s  "
                      "(either the lowering table is wrong - then the x86-64 theorems are about the wrong machine - or the run depends on state the model does not have)"
                      % (m["fn"], m["case"], m["first_difference"]), m)
    for m in nat["crashes"][:3]:
        res.violation("native-crash@" + m["fn"], "%s crashes natively (guard page / wild return): %s" % (m["fn"], m["native"]), m)
    for m in nat["abi_failures"][:3]:
        res.violation("native-abi@" + m["fn"],
                      "%s, run natively through the sentinel trampoline: %s; callee-saved loaded %s, after the call %s"
                      % (m["fn"], ", ".join("%s=%s" % kv for kv in m["flags"].items() if kv[1] != "1"), m["callee_saved_loaded"], m["callee_saved_after"]), m)

    # ---- 4. executable stack
    execstack = tool("execstack")
    es = None
    es_more = []
    with common.Scratch() as sc:
        bdir = os.path.join(sc, "b-default")
        ok, log = common.build_repo(bdir, "default", targets=("ascon_static", "ascon", "asconcrypt", "asconsum"))
        if not ok:
            res.violation("build-failed@default", "/repo no longer builds (targets ascon_static ascon asconcrypt asconsum):\n" + log[-1500:], {"log_tail": log[-6000:]}, no_input=True)
        else:
            es = execstack.run(bdir, common.REPO)
        if tier == "thorough" and es is not None:
            # the same observation in other configurations (the .S files are assembled in all of them; most objects are then empty)
            for cfg, shares in (("default", (3, 2, 3)), ("default", (2, 1, 2)), ("c64", None), ("generic", None)):
                d2 = os.path.join(sc, "b-%s-%s" % (cfg, "".join(map(str, shares or ()))))
                ok2, log2 = common.build_repo(d2, cfg, shares, targets=("ascon_static", "ascon", "asconcrypt", "asconsum"))
                if not ok2:
                    res.violation("build-failed@%s%s" % (cfg, shares or ""), "/repo no longer builds in configuration %s %s:\n%s" % (cfg, shares, log2[-1500:]),
                                  {"log_tail": log2[-6000:]}, no_input=True)
                    continue
                e2 = execstack.run(d2, common.REPO)
                es_more.append({"config": cfg, "shares": shares, "host_ok": e2["host_ok"], "objects": len(e2["objects"]),
                                "objects_with_nonexec_note": sum(1 for o in e2["objects"] if o["note"] and not o["executable"]),
                                "binaries": [(b["file"], b["gnu_stack"]) for b in e2["binaries"]]})
                if es["host_ok"] and not e2["host_ok"]:
                    es = dict(e2, config=cfg, shares=shares)          # report the configuration that fails
    if es is not None:
        if not es["host_ok"]:
            bad_o = [o for o in es["objects"] if not o["note"] or o["executable"]]
            bad_b = [b for b in es["binaries"] if not b["ok"]]
            res.violation("execstack:cmake-build",
                          "default CMake build: %d of %d objects assembled from .S files have no non-executable .note.GNU-stack section; %s"
                          % (len(bad_o), len(es["objects"]), "; ".join("%s GNU_STACK %s" % (b["file"], b["gnu_stack"]) for b in bad_b) or "binaries ok"),
                          {"how": "cmake -G Ninja -S <repo> -B b && ninja -C b ascon ascon_static asconcrypt asconsum; readelf -lW b/src/libascon.so b/apps/asconcrypt/asconcrypt "
                                  "b/apps/asconsum/asconsum | grep GNU_STACK; readelf -SW b/src/CMakeFiles/ascon.dir/core/ascon-asm-x86-64.S.o | grep note",
                           "binaries": es["binaries"], "objects_without_note": [o["object"] for o in bad_o][:40], "assembler_flags": es["asm_flags_sample"],
                           "cmake_passes_noexecstack": es["cmake_passes_noexecstack"]})
        if not es["sources_ok"]:
            missing = [s["file"] for s in es["sources"] if not s["note_directive"]]
            pb = es.get("plain_build") or {}
            res.violation("execstack:no-note-in-source",
                          "%d of %d assembly files have no `.section .note.GNU-stack,\"\",%%progbits` directive: a build that does not pass --noexecstack itself "
                          "(anything but the CMake files: the Arduino/PlatformIO layout of library.json / library.properties, a plain `gcc -c`) gets an executable stack on "
                          "ELF targets.  Host demonstration: %s -> GNU_STACK %s%s"
                          % (len(missing), len(es["sources"]), (pb.get("probe") or {}).get("command"), (pb.get("probe") or {}).get("gnu_stack"),
                             "" if not es["cmake_passes_noexecstack"] else "  (the CMake build itself passes --noexecstack)"),
                          {"files_without_directive": missing, "plain_build": pb, "cmake_passes_noexecstack": es["cmake_passes_noexecstack"]})

    # ---- per-ISA reports written by the other groups' generation hooks on this run (build/kern/<name>.json) and their cross-check lines
    kern_reports = {}
    for jf in sorted(glob.glob(os.path.join(common.BUILD, "kern", "*.json"))):
        try:
            d = json.load(open(jf))
        except Exception:
            continue
        if isinstance(d, dict) and d.get("file") and os.path.getmtime(jf) >= t0 - 5:
            kern_reports.setdefault(d["file"], []).append(
                {k: d[k] for k in ("name", "isa", "layout", "callee_saved_ok", "frame_bytes", "abi", "sp_alignment", "has_gnu_stack_note", "assembler_crosscheck",
                                   "macros", "target_macros") if k in d})
    xlines = [l for l in res.cov.get("translators", []) if l.startswith("xcheck ")]
    xp = os.path.join(common.BUILD, "kern", "xcheck_asm.txt")
    if os.path.exists(xp) and os.path.getmtime(xp) >= t0 - 5:
        xlines = [l.strip() for l in open(xp, errors="replace") if "xcheck " in l]

    # ---- coverage table
    abi_rows_by_file = {}
    for r in abi["rows"]:
        abi_rows_by_file.setdefault(r["file"], []).append(r)
    nat_by_file = {}
    for k, v in nat["per_function"].items():
        nat_by_file.setdefault(k.split(" ")[0], {"cases": 0, "bytes": 0, "bad": 0})
        for kk in ("cases", "bytes", "bad"):
            nat_by_file[k.split(" ")[0]][kk] += v[kk]
    table, unproved = [], []
    for rel in FILES18:
        kind, isa = file_tags(rel)
        stem = "C18_%s_%s" % ("perm" if kind == "perm" else kind, isa)
        perm_thms = [n for n in proved_names if n == stem or n.startswith(stem + "_")]
        abi_thms = [n for n in proved_names if n == "C18_abi_" + isa or n.startswith("C18_abi_" + isa + "_")]
        cv = covers.get(rel, set())
        gf = gen_by_file.get(rel)
        src = next((s for s in (es or {}).get("sources", []) if s["file"] == rel), None)
        objs = [o for o in (es or {}).get("objects", []) if o["object"].endswith("/" + os.path.basename(rel) + ".o")]
        row = {
            "file": rel, "isa": isa, "kind": kind,
            "generator_equal": bool(gf and gf.get("identical")), "generator_command": gf["command"] if gf else None,
            "permutation_proved": bool(perm_thms) or "perm" in cv, "permutation_theorems": perm_thms,
            "abi_checked": (rel in abi_rows_by_file and all(abi_x86.row_ok(r) for r in abi_rows_by_file[rel]) and bool(abi_thms)) or "abi" in cv,
            "abi_theorems": abi_thms if rel in abi_rows_by_file or "abi" in cv else [],
            "abi_symbolic_runs": len(abi_rows_by_file.get(rel, [])),
            "native_cross_check": nat_by_file.get(os.path.basename(rel)),
            "note": {"host_objects_with_nonexec_note": sum(1 for o in objs if o["note"] and not o["executable"]), "host_objects": len(objs),
                     "directive_in_source": bool(src and src["note_directive"]), "cmake_passes_noexecstack": bool(es and es["cmake_passes_noexecstack"])},
            "note_checked": es is not None,
        }
        if rel in kern_reports:
            row["translator_reports"] = kern_reports[rel]
        if kind != "perm" and isa == "x86_64" and c10_names:
            row["functional_correctness"] = "masked code: see property C10 (%s)" % ", ".join(c10_names[:6])
        if isa == "avr5":
            row["generator_selftest"] = {"ran": avr.get("ran", False), "ok": avr.get("ok")}
        if not row["permutation_proved"]:
            row["status"] = "generator-equal and note-checked only" if not row["abi_checked"] else "generator-equal, ABI-checked and note-checked; functional correctness not proved under C18"
            if kind == "perm":
                unproved.append(rel)
        else:
            row["status"] = "all four sub-checks" if row["abi_checked"] else "generator-equal, permutation proved, note-checked; ABI not checked"
        table.append(row)

    misaligned = sorted({(r["profile"], r["fn"]) for r in abi["rows"] if r["calls"] and not r["calls_aligned"]})
    res.cov.update({
        "programs": len(g["files"]),
        "disagreements_checked": sum(1 for f in g["files"] if not f.get("identical")),
        "exhaustive": False,
        "evaluations": nat["cases"] + len(abi["rows"]) + len(g["files"]),
        "distinct_nontrivial": len({(r["file"], r["profile"], r["fn"], r["case"], r["variant"]) for r in abi["rows"] if r["steps"] > 1}),
        "rule": "one evaluation = one native call through the sentinel trampoline, one complete symbolic run of a global x86-64 function, or one generator output compared; "
                "distinct_nontrivial counts the distinct (file, MAX_SHARES profile, function, first_round/size, aliasing) symbolic runs that executed more than one instruction",
        "samples": [
            {"generator": g["files"][0]["command"], "identical": g["files"][0].get("identical"), "sha256": g["files"][0].get("sha256")} if g["files"] else None,
            {k: abi["rows"][0][k] for k in ("file", "fn", "case", "frame_bytes", "steps", "callee_saved_ok", "rsp_ok", "regions")} if abi["rows"] else None,
            {"native_case_line": "C <id> <fn> <E|S> <regions...> <args> <rand words> <15 registers>", "per_function": dict(list(nat["per_function"].items())[:3])},
            {"readelf": (es["binaries"][0] if es and es["binaries"] else None)},
        ],
        "per_file": table,
        "permutation_not_proved_yet": unproved,
        "generator_equality": {"files": len(g["files"]), "identical": sum(1 for f in g["files"] if f.get("identical")), "wall_s": g["wall_s"],
                               "commands": {f["file"]: f["command"] for f in g["files"]}},
        "avr_generator_selftest": avr,
        "front_end_cross_checks": xlines,
        "abi_x86_64": {"symbolic_runs": len(abi["rows"]), "not_ok": len(abi_bad), "global_functions": len(abi["globals"]),
                       "file_profiles": sorted({"%s [%s]" % (x[0], x[1]) for x in abi["globals"]}), "instructions_executed": sum(r["steps"] for r in abi["rows"]),
                       "max_frame_bytes": max([r["frame_bytes"] for r in abi["rows"]] or [0]),
                       "frame_bytes_by_function": {k: max(r["frame_bytes"] for r in abi["rows"] if r["kind"] == 0 and r["fn"] + " [" + r["profile"] + "]" == k)
                                                   for k in sorted({r["fn"] + " [" + r["profile"] + "]" for r in abi["rows"] if r["kind"] == 0})}},
        "native_x86_64": {k: nat[k] for k in ("cases", "compared_bytes", "spec_cases", "call_alignment", "builds", "wall_s")},
        "observations": [
            {"what": "stack alignment at `call ascon_trng_generate_64` (SysV x86-64 requires rsp % 16 == 0 at a call; not one of C18's clauses, recorded only)",
             "functions_calling_with_rsp_mod_16_eq_8": ["%s [%s]" % (f, p) for p, f in misaligned],
             "native": nat["call_alignment"]},
            {"what": "integer arguments (first_round: uint8_t, size/offset: unsigned) are read as full 64-bit registers (cmpq $12, %rsi; movq %rdx, %r12); the runs start "
                     "them zero-extended to 64 bits, as every gcc/clang caller passes them; the psABI leaves the upper bits unspecified"},
        ],
        "execstack": None if es is None else dict({k: es[k] for k in ("binaries", "asm_rules", "asm_rules_noexecstack", "cmake_passes_noexecstack", "host_ok", "sources_ok", "plain_build")},
                                                      configuration=es.get("config", "default"), other_configurations=es_more),
    })
    res.cov["samples"] = [s for s in res.cov["samples"] if s]
    res.cov["trusted_base"] = list(common.TRUSTED_BASE) + [
        "tools/asm_x86.py: the x86-64 lowering table and the stuck rules (region bounds, frame, return address) - Python, cross-checked on this run against the hardware "
        "by tools/native_x86.py on %d calls / %d predicted output bytes" % (nat["cases"], nat["compared_bytes"]),
        "tools/abi_x86.py, tools/gencmp.py, tools/execstack.py, harness/c18/*; gcc -E as the reading of the #if structure of the .S files; GNU make, readelf, ld of the sandbox",
        "lowering tables of the other instruction sets (tools/asm_*.py, when their theorems are present): trusted; no emulator of those targets exists here - what "
        "validates them on this run is listed in coverage.front_end_cross_checks (written by the groups' hooks), nothing else",
    ]
    res.assumptions += [
        "PARTIAL: permutation semantics is proved only for the files listed with permutation_proved = true in coverage.per_file; the rest are generator-equal and note-checked only",
        "the ABI theorems are about a table produced by the Python executor (its stuck semantics is not a Coq definition); ascon_trng_generate_64 is assumed to obey the ABI itself",
        "generator equality is checked with the host compiler's build of the generators (their output does not depend on the host)",
        "ELF note: observed on the host's objects/binaries; for the other ELF targets only the source text and the CMake assembler flags are inspected",
    ]
    res.cov["wall_total"] = round(time.time() - t0, 1)
    return "proof"
