"""C09, clause "the configuration that enables the library's own acquire/release balance checker never aborts in
single-threaded use": (T) translator tools/skeleton.py + theorems Props/Properties_C09_skel.v.

Called from lib/p_c09.py:   import p_c09_skel;  p_c09_skel.run(res, tier)      (after stdflow.prove(res, "C09"))

What it does, in one critical section (so that a check running against another tree cannot swap the generated files):
  1. tools/skeleton.py on the CURRENT tree (content-hash cached) -> coq/Gen/Skeleton_<backend>.v, build/skeleton.json;
  2. re-checks Props/Properties_C09_skel.v (and, when the tables changed, Obl/SkelObl_<backend>.v: one vm_compute
     per back end over 16 share configurations);
  3. reports
       - every public function that is not balanced from the clear flag in some configuration, with the offending
         path (branch choices + events with file:line) as the replay            signature ar-unbalanced:<function>@<where>
       - a theorem file that no longer checks without such a path               signature ar-proof-broken (no input)
       - a stale Model/C09Config.v flag                                          note, and ar-proof-broken
     MISSING lines of the translator are turned into violations by stdflow.prove (tools/gen_all.py)."""
import os, re, json, time, subprocess
import common

PROPS = "Props/Properties_C09_skel.vo"
TRUSTED = [
    "tools/skeleton.py: the walk from clang's JSON AST (clang 14 as the reader of the C source, -std=c99 -I src, no config.h, "
    "the configuration's -D flags) to the skeleton terms is trusted - which calls a statement contains, in which order, under "
    "which control structure; unspecified evaluation orders, goto, nested case labels, address-taken event functions, "
    "undefined library callees and recursion are refused (MISSING), not guessed",
    "assembly files (x86-64 on this host) are not parsed by clang: each global function is given the skeleton 'any number of "
    "calls, in any order, of the symbols its code calls or jumps to' (indirect jumps are taken to stay inside the function)",
    "functions outside the library (libc, the application's storage callbacks) do not call the four primitives behind the "
    "library's back; a callback is required to happen with the flag clear, so it may call any balanced public function",
    "the checker is modelled as its source reads: one global flag (ascon-direct-xor.c); the theorem is about the event "
    "structure of every back end as if that back end had the checker (only the generic/direct-XOR build has it)",
    "the C++ layer is covered by an identifier-level scan (it mentions public functions only) plus the client theorem, "
    "not by skeletons of its member functions",
]


def flag_value():
    txt = open(os.path.join(common.COQ, "Model", "C09Config.v")).read()
    txt = re.sub(r"\(\*.*?\*\)", "", txt, flags=re.S)
    m = re.search(r"Definition\s+fix_masked_x1_nesting\s*:\s*bool\s*:=\s*(true|false)", txt)
    return m.group(1) == "true" if m else None


def theorem_names():
    p = os.path.join(common.COQ, PROPS[:-1])
    txt = re.sub(r"\(\*.*?\*\)", "", open(p).read(), flags=re.S)
    return re.findall(r"^\s*(?:Theorem|Corollary)\s+([A-Za-z0-9_']+)", txt, flags=re.M)


def report_one(res, rep, f, sub, also, used):
    cfgs = [c for c, _ in sub]
    ds = sorted({c.split("-")[1][1] for c in cfgs})
    where = "data" + "".join(ds) if len(cfgs) == sum(1 for c in rep["configs"] if c.split("-")[1][1] in ds) else "%dconfigs" % len(cfgs)
    sig = "ar-unbalanced:%s@%s" % (f, where)
    while sig in used:
        sig += "+"
    used.add(sig)
    c0, w0 = sub[0]
    # prefer the checking build as the example
    for c, w in sub:
        if c.startswith("checkar-"):
            c0, w0 = c, w
            break
    k, d, m = c0.split("-")[1]
    res.violation(sig,
                  "public function %s is not balanced with respect to the library's acquire/release checker in %d of %d configurations "
                  "(%s%s): entered with the flag clear, the path below makes the checker abort or returns with the flag held.%s  "
                  "Configuration %s (Coq replays the same path: bad_path in Gen/Skeleton_%s.v, cfg_unbalanced):\n   %s" %
                  (f, len(cfgs), len(rep["configs"]), ", ".join(cfgs[:6]), ", ..." if len(cfgs) > 6 else "",
                   ("  %d public functions that call it are unbalanced for that reason: %s." % (len(also), ", ".join(also))) if also else "",
                   c0, c0.split("-")[0], "\n   ".join(w0["steps"])),
                  {"function": f, "configurations": cfgs, "example_configuration": c0, "branch_choices": w0["choices"], "path": w0["steps"],
                   "class": w0["class"], "also_unbalanced_callers": also,
                   "reproduce": "cmake -G Ninja -S <repo> -B b -DCHECK_ACQUIRE_RELEASE=ON -DKEY_SHARES=%s -DDATA_SHARES=%s -DMAX_SHARES=%s && cmake --build b && "
                                "(cd b && ctest)   # every test that drives %s along this path prints 'acquire and release operations are not balanced' and aborts; "
                                "or: python3 tools/skeleton.py --show %s" % (k, d, m, f, f)})


def run(res, tier="quick"):
    t0 = time.time()
    with common.Lock("prove"):
        env = dict(os.environ, VERIF_REPO=common.REPO)
        p = subprocess.run(["python3", os.path.join(common.VERIF, "tools", "skeleton.py")], env=env, stdout=subprocess.PIPE,
                           stderr=subprocess.STDOUT, timeout=1800)
        out = p.stdout.decode("utf-8", "replace")
        if p.returncode != 0:
            raise common.Infra("tools/skeleton.py failed:\n" + out[-2000:])
        rep = json.load(open(os.path.join(common.BUILD, "skeleton.json")))
        t1 = time.time()
        vo = os.path.join(common.COQ, PROPS)
        if os.path.exists(vo):
            os.remove(vo)
        ok, log = common.coq_make([PROPS])
    t2 = time.time()
    names = theorem_names()
    pa = common.print_assumptions(log)
    good = bool(ok.get(PROPS))
    flag = flag_value()

    # ---- what the translator found
    groups = {}            # function -> [(config, witness)]
    for cname, e in rep["configs"].items():
        for f, w in e["unbalanced_public"].items():
            groups.setdefault(f, []).append((cname, w))
    data1_only = True
    used = set()
    # a function that is unbalanced only because it calls another reported public function is folded into that one
    root_of = {}
    for f, lst in groups.items():
        w = lst[0][1]
        inner = [m.group(1) for m in (re.match(r"call (\S+) at .* \{$", st) for st in w["steps"]) if m]
        inner = [g for g in inner if g in groups and g != f]
        root_of[f] = inner[-1] if inner else f
    for f in list(root_of):            # follow chains
        seen = {f}
        while root_of[root_of[f]] != root_of[f] and root_of[f] not in seen:
            seen.add(root_of[f]); root_of[f] = root_of[root_of[f]]
    for f, lst in sorted(groups.items()):
        cfgs = [c for c, _ in lst]
        ds = sorted({c.split("-")[1][1] for c in cfgs})
        if ds != ["1"]:
            data1_only = False
        if root_of[f] != f:
            continue
        also = sorted(g for g in groups if root_of[g] == f and g != f)
        # different causes (different places where the checker fires) are different findings
        causes = {}
        for c, w in lst:
            causes.setdefault(w["steps"][-2] if w["steps"][-1].endswith("still held") and len(w["steps"]) > 1 else w["steps"][-1], []).append((c, w))
        for cause, sub in sorted(causes.items()):
            report_one(res, rep, f, sub, also, used)
    stale = None
    if flag is False and not any(c.split("-")[1][1] == "1" for lst in groups.values() for c, _ in lst):
        stale = "coq/Model/C09Config.v says fix_masked_x1_nesting = false but the tree has no unbalanced function with one data share any more: set it to true"
    if flag is True and groups and data1_only:
        stale = "coq/Model/C09Config.v says fix_masked_x1_nesting = true but the tree still has the data-shares-1 defect: set it to false (or apply fixes/C09-masked-x1-release-around-trng.patch)"
    if stale:
        res.notes.append("NOTE C09 acquire/release: " + stale)
        print("NOTE: " + stale)
    if not good:
        tail = "\n".join(l for l in log.split("\n") if "Error" in l or l.startswith("File"))[-1200:]
        explained = bool(groups) and not (flag is False and data1_only)
        res.violation("ar-proof-broken",
                      "Props/Properties_C09_skel.v (acquire/release balance of every public function, 96 configurations) no longer checks%s%s:\n%s" %
                      ("; the unbalanced functions reported above are why" if explained else "",
                       ("; " + stale) if stale else "", tail),
                      {"failed_target": PROPS, "log_tail": log[-3000:], "stale_flag": stale}, no_input=not explained)
    lint = common.coq_lint()
    if lint:
        res.violation("coq-lint", "forbidden declaration in the Coq development: " + "; ".join(lint[:5]), {"lint": lint}, no_input=True)

    # ---- evidence
    classes = {}
    for cname, e in rep["configs"].items():
        for cl, fs in e["classes"].items():
            classes.setdefault(cl, set()).update(fs)
    cov = {
        "translator": rep["summary"],
        "configurations": len(rep["configs"]),
        "back_ends": rep["backends"],
        "functions_with_skeleton_per_config": {"min": min(e["functions"] for e in rep["configs"].values()),
                                               "max": max(e["functions"] for e in rep["configs"].values())},
        "public_with_skeleton_per_config": {"min": min(e["public_with_skeleton"] for e in rep["configs"].values()),
                                            "max": max(e["public_with_skeleton"] for e in rep["configs"].values())},
        "public_declared": max(e["public_declared"] for e in rep["configs"].values()),
        "classification": {cl: len(fs) for cl, fs in sorted(classes.items())},
        "not_balanced_internal": sorted(f for cl, fs in classes.items() if not cl.startswith("balanced") for f in fs)[:40],
        "cpp_layer_mentions": len(rep.get("cpp_mentions", {})),
        "gaps": rep.get("missing", [])[:20],
        "theorems": names, "obligations": len(names), "discharged": len(names) if good else 0,
        "print_assumptions": pa,
        "flag_fix_masked_x1_nesting": flag,
        "unbalanced_public": {f: [c for c, _ in lst] for f, lst in groups.items()},
        "translator_wall_s": round(t1 - t0, 1), "coq_wall_s": round(t2 - t1, 1),
        "trusted": TRUSTED,
    }
    res.cov["acquire_release"] = cov
    for k in ("theorems", "print_assumptions"):
        if isinstance(res.cov.get(k), list):
            res.cov[k] = res.cov[k] + (names if k == "theorems" else pa)
    if isinstance(res.cov.get("obligations"), int):
        res.cov["obligations"] += len(names)
        res.cov["discharged"] += len(names) if good else 0
    res.assumptions += ["acquire/release clause: " + t for t in TRUSTED]
    return cov


if __name__ == "__main__":
    # stand-alone:  python3 lib/p_c09_skel.py   (prints what ./check C09 would add)
    import sys
    r = common.Result("C09", "quick", 0)
    c = run(r)
    print(json.dumps({k: v for k, v in c.items() if k not in ("trusted",)}, indent=1)[:3000])
    for sig, desc, replay, no_input in r.violations:
        print("VIOLATION(would be) %s%s\n  %s" % (sig, " no-failing-input-found" if no_input else "", desc[:1500].replace("\n", "\n  ")))
    sys.exit(1 if r.violations else 0)
