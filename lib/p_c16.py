"""C16 - re-entrancy: operations on distinct objects and read-only use of
shared constant objects are race-free under every interleaving and give the
sequential results; no hidden mutable global state.

  1. (T) tools/globals.py regenerates coq/Gen/Globals.v from the current tree:
     static-storage objects (clang AST, the build's own flags), writable/TLS
     sections of the built libascon_static.a, public pointer parameters,
     const-dropping pointer conversions - six build configurations plus the
     unselected portable TRNG back end plus a preprocessor-blind text scan.
  2. Prove Props/Properties_C16.v: the footprint theorem (model) and the static
     facts (by computation on the regenerated data).
  3. (D) harness/x_threads.cpp against ThreadSanitizer builds of the library
     from the working tree: several back ends x thread counts x seeds; a TSan
     report or a per-thread result that differs from the sequential result is
     a violation whose replay is configuration + threads + seed + iterations
     (+ the report).
The runtime clause is PARTIAL: an actual race is a runtime event that only
the sampled TSan runs observe."""
import os, sys, re, time, json, random, subprocess, importlib.util
from concurrent.futures import ThreadPoolExecutor
import common

PID = "C16"
PRODUCTION = ["default", "c64", "c32", "directxor", "generic"]
TSAN_CFLAGS = "-fsanitize=thread -g -O1"
TSAN_ENV = {"TSAN_OPTIONS": "halt_on_error=0 exitcode=66 report_signal_unsafe=0 history_size=5 second_deadlock_stack=1"}
ACCOUNTED_TEXT = {("acquired", "core/ascon-direct-xor.c"), ("due_init_done", "random/ascon-trng-due.c"),
                  ("global_prng", "random/ascon-trng-none.c"), ("global_prng_initialized", "random/ascon-trng-none.c")}


def load_globals_tool():
    spec = importlib.util.spec_from_file_location("c16_globals_tool", os.path.join(common.VERIF, "tools", "globals.py"))
    m = importlib.util.module_from_spec(spec)
    sys.modules[spec.name] = m          # its worker function is pickled by module name for the process pool (fork start method)
    spec.loader.exec_module(m)
    return m


def reloc_only(sec):
    return sec.startswith(".data.rel.ro") or sec == ".data.rel.local.DW.ref.__gxx_personality_v0"


def static_findings(summ):
    """The Python mirror of the static theorems, only to SAY what broke (the
    decision is Coq's).  Returns a list of (signature, description, detail)."""
    out = []
    for r in summ["scans"]:
        cfg = r["config"]
        if not r["ok"]:
            out.append(("scan-failed@" + cfg, "configuration %s could not be configured/built/parsed: %s" % (cfg, "; ".join(e[:400] for e in r["errors"])),
                        {"config": cfg, "errors": r["errors"]}))
            continue
        wr = [v for v in r["statics"] if not v["const"] and not v["tls"]]
        ws = [s for s in r["sections"] if s["write"] and not s["tls"] and not reloc_only(s["section"]) and s["size"] > 0]
        tl = [v for v in r["statics"] if not v["const"] and v["tls"]] + [s for s in r["sections"] if s["tls"] and s["size"] > 0]
        if cfg == "checkar":
            wr = [v for v in wr if not (v["name"] == "acquired" and v["tu"] == "core/ascon-direct-xor.c")]
            ws = [s for s in ws if not (s["member"] == "ascon-direct-xor.c.o" and s["section"] == ".bss" and s["syms"] == ["acquired"])]
        if cfg == "trngnone":
            tl = []
        for v in wr:
            out.append(("static:%s@%s" % (v["name"], v["tu"]),
                        "hidden mutable global state: `%s` (%s) with static storage duration, not const, not thread-local, in %s of %s "
                        "[configuration %s]: every thread that calls %s shares it" % (
                            v["name"], v["type"], ("function " + v["where"]) if v["where"] != "file" else "file scope", v["tu"], cfg,
                            v["where"] if v["where"] != "file" else "into this translation unit"), dict(v, config=cfg)))
        for s in ws:
            if any(v["name"].split(".")[0] in [x.split(".")[0] for x in s["syms"]] for v in wr):
                continue        # same object, already reported from the AST
            out.append(("section:%s:%s" % (s["member"], s["section"]),
                        "libascon_static.a(%s) has a writable section %s of %d bytes (symbols: %s) [configuration %s]: writable static storage "
                        "that the AST scan did not attribute to a declaration" % (s["member"], s["section"], s["size"], ", ".join(s["syms"]) or "-", cfg),
                        dict(s, config=cfg)))
        for x in tl:
            nm = x.get("name") or (x["member"] + ":" + x["section"])
            out.append(("tls:%s" % nm, "hidden per-thread mutable state %s [configuration %s]" % (nm, cfg), dict(x, config=cfg)))
        for c in r["const_drops"]:
            out.append(("const-drop:%s:%s" % (c["tu"], c["func"]),
                        "%s (%s:%d, %s) converts `%s` to `%s`: an object received through a const-qualified parameter (a shared pre-computed key, "
                        "masked key or input) can be written through the result [configuration %s]" % (
                            c["func"], c["tu"], c["line"], c["kind"], c["from"], c["to"], cfg), dict(c, config=cfg)))
    for t in summ["text_statics"]:
        if not t["const"] and (t["name"], t["file"]) not in ACCOUNTED_TEXT:
            out.append(("static-text:%s@%s" % (t["name"], t["file"]),
                        "src/%s:%d declares `%s`: a non-const static object that no theorem of Props/Properties_C16.v accounts for" % (
                            t["file"], t["line"], t["decl"]), t))
    # one finding per signature (the same object shows up in several configurations)
    seen, uniq = set(), []
    for f in out:
        if f[0] not in seen:
            seen.add(f[0])
            uniq.append(f)
    return uniq


# --------------------------------------------------------------------------
# ThreadSanitizer runs

def build_tsan(dst, cfg):
    ok, log = common.build_repo(dst, cfg, cflags=TSAN_CFLAGS)
    if not ok:
        return None, log
    exe = os.path.join(dst, "x_threads")
    cmd = ["g++", "-std=c++11", "-O1", "-g", "-fsanitize=thread", "-Wall", "-I" + os.path.join(common.REPO, "src"), "-I" + dst,
           "-DHAVE_CONFIG_H", "-DASCON_SUITE_VERIF", os.path.join(common.VERIF, "harness", "x_threads.cpp"),
           os.path.join(dst, "src", "libascon_static.a"), "-lpthread", "-o", exe]
    rc, out = common.sh(cmd, timeout=900)
    if rc != 0:
        return None, "HARNESS\n" + out
    return exe, log


def run_one(exe, threads, seed, iters, timeout=900):
    e = dict(os.environ)
    e.update(TSAN_ENV)
    try:
        p = subprocess.run([exe, str(threads), str(seed), str(iters)], stdout=subprocess.PIPE, stderr=subprocess.PIPE, timeout=timeout, env=e)
        rc, out, err = p.returncode, p.stdout.decode("utf-8", "replace"), p.stderr.decode("utf-8", "replace")
    except subprocess.TimeoutExpired:
        rc, out, err = -9, "", "timeout"
    return rc, out, err


def tsan_reports(err):
    """Split TSan's stderr into reports; for each: kind, the first library/harness frames, the location line."""
    reps = []
    for blk in re.split(r"\n(?==+\nWARNING: ThreadSanitizer)", "\n" + err):
        m = re.search(r"WARNING: ThreadSanitizer: ([^\n(]+)", blk)
        if not m:
            continue
        frames = re.findall(r"#\d+ (\S+) (\S+?):(\d+)", blk)
        lib = [f for f in frames if "/src/" in f[1] and not f[0].startswith("__")]
        top = lib[0] if lib else (frames[0] if frames else ("?", "?", "0"))
        loc = re.search(r"Location is ([^\n]+)", blk)
        reps.append({"kind": m.group(1).strip(), "function": top[0], "file": os.path.basename(top[1]), "line": int(top[2]),
                     "location": loc.group(1).strip() if loc else "", "text": blk.strip()[:6000]})
    return reps


def canary(exe):
    e = dict(os.environ)
    e.update(TSAN_ENV)
    p = subprocess.run([exe, "canary"], stdout=subprocess.PIPE, stderr=subprocess.PIPE, timeout=300, env=e)
    return p.returncode == 66 and b"ThreadSanitizer: data race" in p.stderr


def replay_text(cfg, threads, seed, iters):
    return ("cmake -G Ninja -S $REPO -B b %s '-DCMAKE_C_FLAGS=%s -DASCON_SUITE_VERIF' '-DCMAKE_CXX_FLAGS=%s -DASCON_SUITE_VERIF' && ninja -C b ascon_static && "
            "g++ -std=c++11 -O1 -g -fsanitize=thread -I$REPO/src -Ib -DHAVE_CONFIG_H /verif/harness/x_threads.cpp b/src/libascon_static.a -lpthread -o x_threads && "
            "./x_threads %d %d %d      (or: ./check C16 --replay <this file>)" % (" ".join(common.CONFIGS[cfg]), TSAN_CFLAGS, TSAN_CFLAGS, threads, seed, iters))


# --------------------------------------------------------------------------

def run(res, tier, seed, replay=None):
    t0 = time.time()
    rng = random.Random(seed)
    gt = load_globals_tool()
    with common.Scratch() as sc:
        # 1. regenerate Gen/Globals.v from the current tree
        tg = time.time()
        try:
            summ = gt.run(workdir=os.path.join(sc, "globals"))
        except Exception as e:
            raise common.Infra("tools/globals.py failed: %s" % e)
        findings = static_findings(summ)
        res.cov["static_scan"] = {
            "wall_s": round(time.time() - tg, 1), "repo": common.REPO,
            "configs": {r["config"]: {
                "ok": r["ok"], "c_cxx_tus": r["tus"], "asm_tus": r["asm_tus"], "static_objects": len(r["statics"]),
                "non_const_static_objects": ["%s%s@%s" % (v["name"], "[thread-local]" if v["tls"] else "", v["tu"]) for v in r["statics"] if not v["const"]],
                "writable_or_tls_sections": sorted({s["section"].split("._Z")[0] + ("[tls]" if s["tls"] else "") + (":" + ",".join(s["syms"]) if not reloc_only(s["section"]) else "")
                                                    for s in r["sections"]}),
                "public_pointer_params": len(r["params"]), "const_dropping_conversions": len(r["const_drops"]),
                "parser_warnings": r.get("warnings", [])[:3]} for r in summ["scans"]},
            "text_scan_non_const_statics": ["%s@%s:%d" % (t["name"], t["file"], t["line"]) for t in summ["text_statics"] if not t["const"]],
            "text_scan_static_declarations": len(summ["text_statics"]),
        }

        # 2. prove
        pr = common.coq_props(PID)
        res.cov["obligations"] = pr["obligations"]
        res.cov["discharged"] = pr["discharged"]
        res.cov["theorems"] = pr["names"]
        res.cov["print_assumptions"] = pr["assumptions"]
        res.cov["checker_cmd"] = ("python3 /verif/tools/globals.py (regenerates coq/Gen/Globals.v from the tree) && cd /verif/coq && coq_makefile -f _CoqProject "
                                  "-o Makefile <all .v> && make -k -j16 %s  (coqc 8.16.1; lint: no Admitted/Axiom/Parameter)" % common.props_file(PID))
        res.cov["trusted_base"] = [
            "Coq 8.16.1 kernel including its vm_compute bytecode VM (native_compute is not used)",
            "no axioms declared; per-theorem Print Assumptions output is in coverage.print_assumptions",
            "Model/Conc.v as a model of threads: steps with declared read/write sets over a heap of locations, sequentially consistent interleaving "
            "semantics (no weak-memory effects; justified for race-free programs by the C11 DRF guarantee, not proved here)",
            "tools/globals.py (%d lines) with clang 14's parser and JSON AST dump, readelf (binutils), CMake's compile_commands.json" %
            len(open(os.path.join(common.VERIF, "tools", "globals.py")).read().split("\n")),
            "the C type system as the reason why an object passed through a pointer-to-const parameter is not written when no const-dropping "
            "conversion exists (memcpy through integer casts, unions and inline assembly are outside this argument)",
            "harness/x_threads.cpp, gcc 12's ThreadSanitizer runtime (assembly files are not instrumented), the kernel scheduler of the sandbox",
        ]
        res.cov["coq_wall_s"] = round(pr["wall_s"], 1)
        if pr["lint"]:
            res.violation("coq-lint", "forbidden declaration in the Coq development: " + "; ".join(pr["lint"][:5]), {"lint": pr["lint"]}, no_input=True)

        # 3. ThreadSanitizer builds and runs
        if replay:
            rp = json.load(open(replay))["replay"]
            configs = [rp.get("config", "default")]
            plan = [(rp.get("threads", 8), rp.get("seed", seed), rp.get("iters", 2))] * 6
        else:
            configs = ["default", "c64"] if tier == "quick" else list(PRODUCTION)
            iters = 4 if tier == "quick" else 8
            counts = [2, 3, 5, 8, 16] if tier == "quick" else list(range(2, 17))
            nseeds = 2 if tier == "quick" else 3
            plan = [(n, (seed * 1000 + k * 97 + n) % 2000000011, iters) for n in counts for k in range(nseeds)]
        tb = time.time()
        with ThreadPoolExecutor(max_workers=3) as ex:
            built = list(ex.map(lambda c: build_tsan(os.path.join(sc, "tsan-" + c), c), configs))
        res.cov["tsan_build_wall_s"] = round(time.time() - tb, 1)
        runs, nrep, nmis, concrete = [], 0, 0, []
        samples = []
        canary_ok = None
        for cfg, (exe, log) in zip(configs, built):
            if exe is None:
                which = "harness/x_threads.cpp no longer compiles against the public headers (a const qualifier removed from a shared parameter, or a declaration changed)" \
                    if log.startswith("HARNESS") else "/repo no longer builds with -fsanitize=thread in configuration %s" % cfg
                res.violation("tsan-build-failed@" + cfg, which + ":\n" + "\n".join(l for l in log.split("\n") if "error" in l)[:1500],
                              {"config": cfg, "log_tail": log[-6000:]}, no_input=True)
                continue
            if canary_ok is None:
                canary_ok = canary(exe)
                if not canary_ok:
                    raise common.Infra("ThreadSanitizer does not report the harness's intentional race (canary) - detector not working in this sandbox")
            tr = time.time()
            with ThreadPoolExecutor(max_workers=3) as ex:
                outs = list(ex.map(lambda p: run_one(exe, *p), plan))
            for (n, sd, it), (rc, out, err) in zip(plan, outs):
                reps = tsan_reports(err)
                okline = re.search(r"^OK threads=(\d+) seed=(\d+) iters=(\d+) records=(\d+) bytes=(\d+) families=(\d+)", out, flags=re.M)
                mism = re.findall(r"^MISMATCH (.*)$", out, flags=re.M)
                runs.append({"config": cfg, "threads": n, "seed": sd, "iters": it, "rc": rc, "tsan_reports": len(reps), "mismatches": len(mism),
                             "records": int(okline.group(4)) if okline else 0, "bytes": int(okline.group(5)) if okline else 0})
                if len(samples) < 4 and okline:
                    samples.append({"config": cfg, "cmd": "x_threads %d %d %d" % (n, sd, it), "result": okline.group(0),
                                    "sequential_digest_thread0": (re.search(r"^DIGEST t=0 (\S+)", out, flags=re.M) or [None, ""])[1]})
                for r in reps:
                    nrep += 1
                    sig = "tsan:%s:%s" % (r["kind"].replace(" ", "-"), r["function"])
                    desc = ("ThreadSanitizer: %s in %s (%s:%d)%s while %d threads used only their own objects and shared const objects "
                            "[configuration %s, seed %d, %d iterations]" % (r["kind"], r["function"], r["file"], r["line"],
                                                                            (" - " + r["location"]) if r["location"] else "", n, cfg, sd, it))
                    rp = {"config": cfg, "threads": n, "seed": sd, "iters": it, "how": replay_text(cfg, n, sd, it), "tsan_report": r["text"]}
                    concrete.append((sig, desc, rp))
                for m in mism:
                    nmis += 1
                    op = (re.search(r"op=(\S+)", m) or re.search(r"(shared-object-modified|record-count)", m) or [None, "?"])[1]
                    sig = "mismatch:%s" % op
                    desc = ("thread result differs from the sequential result: %s [configuration %s, %d threads, seed %d, %d iterations]" % (m, cfg, n, sd, it))
                    concrete.append((sig, desc, {"config": cfg, "threads": n, "seed": sd, "iters": it, "how": replay_text(cfg, n, sd, it),
                                                 "stdout_tail": out[-1500:]}))
                if rc not in (0, 1, 66) or (rc == 0 and not okline):
                    res.violation("harness-crash@" + cfg, "x_threads %d %d %d ended with status %d in configuration %s:\n%s" % (n, sd, it, rc, cfg, (err or out)[-1200:]),
                                  {"config": cfg, "threads": n, "seed": sd, "iters": it, "how": replay_text(cfg, n, sd, it), "stderr_tail": err[-3000:]})
            res.cov.setdefault("tsan_run_wall_s", {})[cfg] = round(time.time() - tr, 1)

        # thorough: confirm accounted exception 1 (the diagnostic build is single-threaded by construction) - informational
        if tier == "thorough" and not replay:
            d = os.path.join(sc, "checkar")
            ok, log = common.build_repo(d, "checkar")
            if ok:
                exe = os.path.join(d, "x_threads")
                rc, out = common.sh(["g++", "-std=c++11", "-O1", "-I" + os.path.join(common.REPO, "src"), "-I" + d, "-DHAVE_CONFIG_H",
                                     os.path.join(common.VERIF, "harness", "x_threads.cpp"), os.path.join(d, "src", "libascon_static.a"), "-lpthread", "-o", exe])
                if rc == 0:
                    rc1 = run_one(exe, 1, seed, 2, timeout=120)[0]
                    rcs = [run_one(exe, 8, seed + k, 2, timeout=120)[0] for k in range(3)]
                    res.cov["checkar_build_outcomes"] = {"1_thread": rc1, "8_threads": rcs}
                    res.notes.append("CHECK_ACQUIRE_RELEASE build: exit status %s with 1 thread, %s with 8 threads (-6 = abort() from the global `acquired` "
                                     "balance flag: that diagnostic build is not re-entrant; accounted exception, theorem C16_checkar_globals)" % (rc1, rcs))

        # 4. decide
        for sig, desc, rp in concrete:
            res.violation(sig, desc, rp)
        if not pr["ok"] and not pr["lint"]:
            tail = "\n".join(l for l in pr["log"].split("\n") if "Error" in l or "error" in l or l.startswith("File"))[-1200:]
            why = "; ".join(f[1] for f in findings[:4]) or "none of the static facts recomputed in Python differs - see the Coq error"
            conc = concrete[0] if concrete else None
            res.violation("static-tie-broken" + (":" + findings[0][0] if findings else ""),
                          "Props/Properties_C16.v no longer checks against the regenerated coq/Gen/Globals.v: %s\n%s%s" % (
                              why, tail, ("\nconcrete failing schedule found by the ThreadSanitizer harness: " + conc[1]) if conc else
                              "\nno failing schedule was observed in %d ThreadSanitizer runs" % len(runs)),
                          {"failed_targets": [t for t, ok in pr["targets"].items() if not ok], "static_findings": [{"signature": f[0], "what": f[1], "detail": f[2]} for f in findings],
                           "concrete": conc[2] if conc else None, "log_tail": pr["log"][-3000:]}, no_input=conc is None)
        elif findings:
            # cannot happen while the Coq theorems mirror static_findings; keep the two honest about each other
            res.notes.append("Python-side static findings without a broken theorem: %s" % [f[0] for f in findings])

    okruns = [r for r in runs if r["rc"] == 0 and r["threads"] >= 2 and r["records"] > 0]
    res.cov.update({
        "evaluations": len(runs),
        "distinct_nontrivial": len({(r["config"], r["threads"], r["seed"]) for r in okruns}),
        "rule": "one evaluation = one execution of harness/x_threads.cpp (TSan build of the library in one back-end configuration, N threads, one seed): "
                "30 operation families per iteration on per-thread objects + shared const objects, compared record by record with the sequential pass; "
                "distinct = distinct (configuration, threads, seed); non-trivial = at least 2 threads, ran to completion and compared > 0 records",
        "samples": samples + [{"static_object_sample": summ["scans"][0]["statics"][:3]}],
        "tsan_runs": runs, "tsan_reports": nrep, "result_mismatches": nmis, "tsan_canary_detected": canary_ok,
        "records_compared": sum(r["records"] for r in runs), "bytes_compared": sum(r["bytes"] for r in runs),
        "input_distribution": {"configs": configs, "thread_counts": sorted({p[0] for p in plan}), "seeds_per_count": len(plan) // max(1, len({p[0] for p in plan})),
                               "iterations": plan[0][2] if plan else 0},
        "accounted_exceptions": ["`acquired` in core/ascon-direct-xor.c: CHECK_ACQUIRE_RELEASE diagnostic build only (theorem C16_checkar_globals)",
                                 "`global_prng`, `global_prng_initialized` in random/ascon-trng-none.c: unselected back end, thread-local where the compiler has __thread (theorem C16_trngnone_thread_local)",
                                 "`due_init_done` in random/ascon-trng-due.c: Arduino Due driver, not compilable on this host, idempotent init flag (theorem C16_text_statics_accounted)"],
        "partial": "the runtime clause (an actual data race in the compiled code) is only OBSERVED by the sampled ThreadSanitizer runs; the theorem "
                   "excludes races under the footprint hypothesis, whose tie is the static facts",
    })
    res.assumptions += [
        "footprint hypothesis of C16_interleave for the real code: each public operation reads and writes only the objects reachable from its arguments "
        "(and its own stack) - tied by the static facts (no writable static storage, const-qualified shared parameters, no const-dropping conversions), not proved from the C semantics",
        "sequentially consistent interleaving semantics in the model; real hardware/compilers give it to race-free programs only",
        "ThreadSanitizer sees compiled C/C++ only: the x86-64 assembly permutation (default configuration) is not instrumented; the C back ends are run for that reason",
        "the sampled schedules (thread counts %s, %d runs) are a sample of the interleavings, not all of them" % (sorted({p[0] for p in plan}), len(runs)),
    ]
    res.cov["wall_total"] = round(time.time() - t0, 1)
    return "proof"
