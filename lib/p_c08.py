"""C08 - permutation and state primitives act as specified on every host backend."""
import random, time, collections
import common, diffrun, gen, stdflow
from common import hx, rnd_bytes


def gen_cases(rng, tier, corr, stats):
    nperm = 150 if tier == "quick" else 2000
    for _ in range(nperm):
        st = gen.patterned(rng, 40)
        for r in range(13):
            if tier == "quick" and rng.random() < 0.7:
                continue
            corr.one("PERM %d %s" % (r, hx(st))); stats["ops"]["PERM"] += 1
    pairs = [(o, s) for o in range(41) for s in range(41 - o)]
    reps = 1 if tier == "quick" else 20
    for (o, s) in pairs:
        for _ in range(reps):
            st, d = rnd_bytes(rng, 40), rnd_bytes(rng, s)
            op = rng.choice(["ADD", "OVW", "ZERO", "EXT", "EXTADD", "EXTOVW", "EXTOVW"]) if tier == "quick" else None
            for op in ([op] if op else ["ADD", "OVW", "ZERO", "EXT", "EXTADD", "EXTOVW"]):
                line = "ST %s %s %d %d %s" % (op, hx(st), o, s, hx(d))
                if op == "EXTOVW" and rng.random() < 0.5:
                    line += " I"
                corr.one(line); stats["ops"][op] += 1


def run(res, tier, seed, replay=None):
    t0 = time.time()
    rng = random.Random(seed)
    pr = stdflow.prove(res, "C08")
    driver = common.build_driver()
    stats = {"ops": collections.Counter()}
    corr = diffrun.Corr()
    if replay:
        import json
        corr.session(json.load(open(replay))["replay"]["ops"])
    else:
        gen_cases(rng, tier, corr, stats)
    configs = ["default", "c64", "c32", "directxor", "generic"]
    per = []
    with common.Scratch() as sc:
        b = stdflow.Builds(res, sc)
        for cfg in configs:
            got = b.get(cfg)
            if got:
                per.append(diffrun.compare(res, corr, driver, got[1], got[2]))
    res.cov.update({
        "evaluations": sum(p["sessions"] for p in per),
        "distinct_nontrivial": max([p["nontrivial"] for p in per] or [0]),
        "rule": "sanity net for the translators (the theorems cover all states): random/patterned states x start rounds 0..12 through the public ascon_permute, "
                "and every (offset,size) pair with offset+size <= 40 x the six byte-range operations (extract_and_overwrite also with identical buffers) on all five host builds",
        "samples": corr.lines[:2] + corr.lines[-3:],
        "per_config": per,
        "input_distribution": {"ops": dict(stats["ops"])},
        "kernel_obligations": "4 backends (x86-64 .S, c64, c32, c64 direct-xor) x 13 start rounds; segments re-translated this run: " + "; ".join(res.cov.get("translators", [])),
    })
    res.assumptions += ["the C kernels are verified as clang -O1 LLVM IR of the current source (tools/llvmx.py), the assembly through the x86-64 lowering table (tools/asm_x86.py); "
                        "both translators decide control flow concretely and are cross-checked by the differential run",
                        "the loop structure (which segments run for a given first_round) is the translator's reading of the CFG",
                        "the byte-range operations are covered here by complete (offset,size) enumeration on the built library only (proof obligations for them are not generated yet)"]
    res.cov["wall_total"] = round(time.time() - t0, 1)
    return "proof"
