"""C03 - hashing and XOF functions compute their specified digests for every input."""
import random, time
import common, diffrun, gen, kat, stdflow
from common import hx

KATS = [("hash", 32, "ASCON-HASH.txt"), ("hasha", 32, "ASCON-HASHA.txt"), ("xof", 0, "ASCON-XOF.txt"), ("xofa", 0, "ASCON-XOFA.txt"),
        ("xof", 0, "ASCON-XOF-long-output.txt"), ("xofa", 0, "ASCON-XOFA-long-output.txt")]
# (the repository has no known-answer file for declared lengths other than 0 and 32 nor for customised XOFs: for those the specification
#  Spec/Hash.v is my reading of doc/cxof.dox and of the header text, validated only through the library itself)


def spec_kat(res, driver, tier):
    n = 0
    for v, L, f in KATS:
        try:
            recs = kat.read_kat(f)
        except OSError:
            continue
        lines, exp = [], []
        for i, r in enumerate(recs):
            if tier == "quick" and not (i < 40 or i % 16 == 0):
                continue
            md = kat.h(r["MD"])
            outn = len(r["MD"]) // 2
            lines.append("XSPEC %s %d %s %d" % (v, L, kat.h(r["Msg"]), outn))
            exp.append(md)
        rc, out, err = common.run_parallel(driver, lines)
        bad = [(l, o, e) for l, o, e in zip(lines, out, exp) if o != e]
        for l, o, e in bad[:3]:
            res.violation("spec-kat-" + f, "Spec.Hash disagrees with KAT file %s on %s: got %s expected %s" % (f, l[:100], o[:64], e[:64]),
                          {"line": l, "spec": o, "kat": e})
        n += len(lines)
    return n


def gen_cases(rng, tier, corr, stats):
    maxlen = 4096 if tier == "quick" else 65536
    msg_lens = gen.boundary_lengths(8, maxlen)
    out_lens = [0, 1, 7, 8, 9, 31, 32, 33, 64, 1000] + ([5000] if tier == "thorough" else [])
    decl = [0, 1, 2, 4, 8, 31, 32, 33, 64, 255, 256, 2 ** 29 - 1, 2 ** 29, 2 ** 32 - 1]      # incl. lengths whose bit count is a "special" byte count (4 bytes = 32 bits, 32 bytes = 256 bits)
    names = [None, b"", b"K", b"N" * 31, b"N" * 32, b"N" * 33, bytes(range(65, 65 + 26)) * 4]
    customs = [b"", b"c", b"c" * 7, b"c" * 8, b"c" * 9, b"custom" * 10]
    reps = 1 if tier == "quick" else 6
    slot = [0]

    def session(v, init, mlen, outs):
        slot[0] += 1
        s = 1
        msg = common.rnd_bytes(rng, mlen)
        ses = ["X %d %s %s" % (s, v, init)]
        if v in ("xof", "xofa") and not init.startswith("INITK") and rng.random() < 0.3:
            # reach the same start through *_reinit* on an object with a prior history: a different declared length / customisation,
            # nothing / whole blocks / a partial block absorbed, possibly squeezed
            prior = rng.choice(["INIT", "INITF %d" % rng.choice([0, 16, 32, 64]), "INITC %s %s %d" % (hx(b"prior"), hx(b"c"), rng.choice([0, 32, 40]))])
            ses = ["X %d %s %s" % (s, v, prior)]
            pl = rng.choice([0, 0, 8, 16, 24, 3, 13])
            if pl:
                ses.append("X %d ABS %s" % (s, hx(common.rnd_bytes(rng, pl))))
            if rng.random() < 0.3:
                ses.append("X %d SQZ %d" % (s, rng.choice([1, 8, 40])))
            ses.append("X %d %s RE%s" % (s, v, init))
            stats["ops"]["reinit-after-history"] = stats["ops"].get("reinit-after-history", 0) + 1
        padded = v in ("xof", "xofa") and rng.random() < 0.25      # pad() between absorb calls (theorem C03_pad): positions on and off a block boundary
        for c in gen.split_data(msg, gen.partition(rng, mlen, 8)):
            ses.append("X %d ABS %s" % (s, hx(c)))
            if padded and rng.random() < 0.5:
                ses.append("X %d PAD" % s)
                stats["ops"]["PAD"] = stats["ops"].get("PAD", 0) + 1
        if rng.random() < 0.15:
            ses.append("X %d DUMP" % s)
        for o in outs:
            ses.append("X %d SQZ %d" % (s, o))
        if rng.random() < 0.3:
            ses.append("X %d DUMP" % s)
        ses.append("X %d FREE" % s)
        corr.session(ses, "X-%s-%s" % (v, init.split()[0]))
        stats["msglen"].append(mlen); stats["outlen"].append(sum(outs))
        stats["ops"][init.split()[0]] = stats["ops"].get(init.split()[0], 0) + 1

    def outs_for(total):
        return gen.partition(rng, total, 8) if total else [0]

    for _ in range(reps):
        for v in ("xof", "xofa"):
            for mlen in msg_lens:
                session(v, "INIT", mlen, outs_for(rng.choice(out_lens)))
            for o in out_lens:
                session(v, "INIT", rng.choice(msg_lens[:12]), outs_for(o))
            for L in decl:
                session(v, "INITF %d" % L, rng.choice(msg_lens[:12]), outs_for(rng.choice([L if L < 100 else 32, 32, 9])))
            for nm in names:
                for cu in customs:
                    if tier == "quick" and rng.random() < 0.5:
                        continue
                    session(v, "INITC %s %s %d" % ("NULL" if nm is None else hx(nm), hx(cu), rng.choice(decl)),
                            rng.choice(msg_lens[:10]), outs_for(rng.choice([32, 9, 40])))
        for v in ("hash", "hasha"):
            for mlen in msg_lens:
                session(v, "INIT", mlen, [32])
                corr.one("XO %s %s" % (v, hx(common.rnd_bytes(rng, mlen))))
        for v in ("xof", "xofa"):
            for mlen in msg_lens[:14]:
                corr.one("XO %s %s" % (v, hx(common.rnd_bytes(rng, mlen))))


def run(res, tier, seed, replay=None):
    t0 = time.time()
    rng = random.Random(seed)
    pr = stdflow.prove(res, "C03")
    driver = common.build_driver()
    res.cov["kat_vectors_checked_against_spec"] = spec_kat(res, driver, tier)
    stats = {"msglen": [], "outlen": [], "ops": {}}
    corr = diffrun.Corr()
    if replay:
        import json
        corr.session(json.load(open(replay))["replay"]["ops"])
    else:
        gen_cases(rng, tier, corr, stats)
    configs = ["default", "c32"] if tier == "quick" else ["default", "c64", "c32", "directxor", "generic"]
    if not pr["ok"] and "directxor" not in configs:
        configs.append("directxor")     # search for a concrete failing input in the byte-table backends too
    per = []
    with common.Scratch() as sc:
        b = stdflow.Builds(res, sc)
        for cfg in configs:
            got = b.get(cfg)
            if got:
                per.append(diffrun.compare(res, corr, driver, got[1], got[2]))
                if tier == "thorough" and not replay and got[2] in ("default", "c32"):
                    # lengths of 2^32 bytes and more: size_t parameters must not be processed modulo 2^32 (harness/x_huge.c)
                    res.cov.setdefault("huge_lengths", {})[got[2]] = common.run_huge(res, got[0], got[2], ["xof", "xofa"] if got[2] == "default" else ["xof", "xofa"][:1])
    res.cov.update({
        "evaluations": sum(p["sessions"] for p in per),
        "distinct_nontrivial": max([p["nontrivial"] for p in per] or [0]),
        "rule": "object histories init|init_fixed L|init_custom name custom L ; absorb chunks (pad() calls between them in a quarter of the XOF/XOFA histories) ; squeeze chunks (+ internal state dumps) for "
                "boundary message/output lengths, declared lengths {0,1,31,32,33,64,2^29-1,2^29,2^32-1}, names of 0/1/31/32/33/104 bytes and NULL, "
                "customisation strings of 0/1/7/8/9/60 bytes; one-shot digests; distinct = distinct session text",
        "samples": corr.lines[:4] + corr.lines[-3:],
        "per_config": per,
        "input_distribution": {"msglen": diffrun.histogram(stats["msglen"]), "outlen": diffrun.histogram(stats["outlen"]), "init_kinds": stats["ops"]},
    })
    res.assumptions += ["Spec/Hash.v transcribes ASCON v1.2 hashing and doc/cxof.dox (validated on the KAT files this run)",
                        "tools/consts.py (regex over the C source) finds the pre-computed tables; clang is not involved",
                        "Model/Xofm.v mirrors the C (differential run); all lengths < 2^31"]
    res.cov["wall_total"] = round(time.time() - t0, 1)
    return "proof"
