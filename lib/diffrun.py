"""Differential correspondence: run an operation file through the extracted
model and the harness, compare line by line, shrink and report."""
import os, json, collections
import common


def sig_default(line):
    t = [x for x in line.split()[:4] if len(x) <= 10 and not x.isdigit()]
    return "-".join(t[:3])


class Corr:
    """One correspondence run: lines grouped into sessions."""

    def __init__(self):
        self.lines = []
        self.sessions = []
        self.tags = []          # one tag per session (for statistics)

    def one(self, line, tag=None):
        self.sessions.append((len(self.lines), len(self.lines) + 1))
        self.lines.append(line)
        self.tags.append(tag or sig_default(line))

    def session(self, lines, tag=None):
        self.sessions.append((len(self.lines), len(self.lines) + len(lines)))
        self.lines.extend(lines)
        self.tags.append(tag or sig_default(lines[0]))


def compare(res, corr, driver, harness, config, env=None, sigfn=sig_default, wrapper=(), harness_jobs=common.NPROC,
            impl_filter=None, label="impl"):
    """Runs both sides.  Returns statistics dict; records violations in res."""
    # the model's answers do not depend on the configuration: computed once per operation file
    cache = getattr(corr, "_model_cache", None)
    if cache and cache[0] == (driver, len(corr.lines), len(corr.sessions)):
        out_m = cache[1]
    else:
        rc_m, out_m, err_m = common.run_parallel(driver, corr.lines, corr.sessions)
        if rc_m != 0:
            raise common.Infra("model driver failed: " + err_m[-2000:])
        corr._model_cache = ((driver, len(corr.lines), len(corr.sessions)), out_m)
    rc_i, out_i, err_i = common.run_parallel(harness, corr.lines, corr.sessions, env=env, wrapper=wrapper, jobs=harness_jobs)
    ndis = 0
    distinct = set()
    nontrivial = 0
    for (a, b) in corr.sessions:
        bad = None
        for i in range(a, b):
            mo, io = out_m[i], out_i[i]
            if impl_filter:
                io = impl_filter(corr.lines[i], io)
            if mo != io:
                bad = i
                break
        key = "\n".join(corr.lines[a:b])
        if key not in distinct:
            distinct.add(key)
            if any(len(tok) > 1 and tok != "NULL" for l in corr.lines[a:b] for tok in l.split()[3:]) \
                    and not all(out_m[i] in ("UNSUPPORTED", "NOSLOT") for i in range(a, b)):
                nontrivial += 1
        if bad is not None:
            ndis += 1
            sig = sigfn(corr.lines[bad]) + "@" + config
            res.violation(sig,
                          "implementation (%s) and proved model disagree on: %s\n model: %s\n impl:  %s" %
                          (config, corr.lines[bad][:300], out_m[bad][:300], out_i[bad][:300]),
                          {"config": config, "ops": corr.lines[a:bad + 1], "model": out_m[a:bad + 1], "impl": out_i[a:bad + 1],
                           "how": "feed `ops` to build/ocaml/driver and to the harness built for `config` (./check <id> --replay <this file>)"})
    # an operation neither side knows would be "agreement" on the word UNSUPPORTED: that is a hole in the check, not a pass
    unsup = sorted(set(corr.lines[i].split()[0] + (" " + corr.lines[i].split()[1] if len(corr.lines[i].split()) > 1 else "")
                       for i in range(len(corr.lines)) if out_m[i] == "UNSUPPORTED" and out_i[i] == "UNSUPPORTED"))
    if unsup:
        raise common.Infra("operations unknown to both the model driver and the harness (%s): %s" % (config, ", ".join(unsup[:10])))
    if rc_i != 0 and ndis == 0:
        res.violation("harness-crash@" + config, "harness exited abnormally in %s: %s" % (config, err_i[-1500:]),
                      {"config": config, "stderr": err_i[-4000:]}, no_input=True)
    return {"config": config, "lines": len(corr.lines), "sessions": len(corr.sessions), "distinct_sessions": len(distinct),
            "nontrivial": nontrivial, "disagreements": ndis, "stderr_tail": err_i[-500:] if err_i else ""}


def histogram(values, edges=(0, 1, 8, 16, 32, 64, 256, 1024, 4096, 65536)):
    h = collections.OrderedDict()
    for v in values:
        lab = None
        for e in edges:
            if v <= e:
                lab = "<=%d" % e
                break
        lab = lab or ">%d" % edges[-1]
        h[lab] = h.get(lab, 0) + 1
    return h
