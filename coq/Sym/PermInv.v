(* The ASCON round is a bijection on five 64-bit words: an explicit inverse (inverse linear layer as XORs of rotations, inverse
   substitution layer in algebraic normal form), with both compositions checked layer by layer by the reflective engine
   (Sym/Wexpr.v check_equiv) and carried over to N through Sym/Bridge.v. *)
From Coq Require Import List NArith Arith Lia Bool.
From AsconV Require Import Sym.BitPoly Sym.Wexpr Sym.PermW Sym.Bridge.
From AsconV Require Spec.Perm.
Import ListNotations.

Definition w0 : wexpr := WConst 64 0.
Definition ones64 : wexpr := WConst 64 0xFFFFFFFFFFFFFFFF.
Definition rotxor (ks : list nat) (e : wexpr) : wexpr := fold_right (fun k acc => WXor (WRotr k e) acc) w0 ks.
Definition mono (y : list wexpr) (m : list nat) : wexpr :=
  match m with [] => ones64 | i :: r => fold_left (fun acc j => WAnd acc (nth j y w0)) r (nth i y w0) end.
Definition anf (y : list wexpr) (ms : list (list nat)) : wexpr := fold_right (fun m acc => WXor (mono y m) acc) w0 ms.

(* the three layers of the round, and their inverses, on five word expressions *)
Definition addc_exprs (c : N) (x : list wexpr) : list wexpr :=
  match x with [x0; x1; x2; x3; x4] => [x0; x1; WXor x2 (WConst 64 c); x3; x4] | _ => [] end.
Definition sub_exprs (x : list wexpr) : list wexpr :=
  match x with
  | [x0; x1; x2; x3; x4] =>
    let x0 := WXor x0 x4 in let x4 := WXor x4 x3 in let x2 := WXor x2 x1 in
    let t0 := WXor x0 (WAnd (WNot x1) x2) in
    let t1 := WXor x1 (WAnd (WNot x2) x3) in
    let t2 := WXor x2 (WAnd (WNot x3) x4) in
    let t3 := WXor x3 (WAnd (WNot x4) x0) in
    let t4 := WXor x4 (WAnd (WNot x0) x1) in
    let t1 := WXor t1 t0 in let t0 := WXor t0 t4 in let t3 := WXor t3 t2 in let t2 := WNot t2 in
    [t0; t1; t2; t3; t4]
  | _ => [] end.
Definition lin_exprs (t : list wexpr) : list wexpr :=
  match t with
  | [t0; t1; t2; t3; t4] =>
    [WXor t0 (WXor (WRotr 19 t0) (WRotr 28 t0));
     WXor t1 (WXor (WRotr 61 t1) (WRotr 39 t1));
     WXor t2 (WXor (WRotr 1 t2) (WRotr 6 t2));
     WXor t3 (WXor (WRotr 10 t3) (WRotr 17 t3));
     WXor t4 (WXor (WRotr 7 t4) (WRotr 41 t4))]
  | _ => [] end.

Lemma round_exprs_layers c x0 x1 x2 x3 x4 :
  round_exprs c [x0; x1; x2; x3; x4] = lin_exprs (sub_exprs (addc_exprs c [x0; x1; x2; x3; x4])).
Proof. reflexivity. Qed.

(* inverse of x ^ (x >>> a) ^ (x >>> b) in GF(2)[X]/(X^64+1): the XOR of these rotations *)
Definition linv_k0 : list nat := [0; 3; 6; 9; 11; 12; 14; 15; 17; 18; 19; 21; 22; 24; 25; 27; 30; 33; 36; 38; 39; 41; 42; 44; 45; 47; 50; 53; 57; 60; 63].
Definition linv_k1 : list nat := [0; 1; 2; 3; 4; 8; 11; 13; 14; 16; 19; 21; 23; 24; 25; 27; 28; 29; 30; 35; 39; 43; 44; 45; 47; 48; 51; 53; 54; 55; 57; 60; 61].
Definition linv_k2 : list nat := [0; 2; 4; 6; 7; 10; 11; 13; 14; 15; 17; 18; 20; 23; 26; 27; 28; 32; 34; 35; 36; 37; 40; 42; 46; 47; 52; 58; 59; 60; 61; 62; 63].
Definition linv_k3 : list nat := [1; 2; 4; 6; 7; 9; 12; 17; 18; 21; 22; 23; 24; 26; 27; 28; 29; 31; 32; 33; 35; 36; 37; 40; 42; 44; 47; 48; 49; 53; 58; 61; 63].
Definition linv_k4 : list nat := [0; 1; 2; 3; 4; 5; 9; 10; 11; 13; 16; 20; 21; 22; 24; 25; 28; 29; 30; 31; 35; 36; 40; 41; 44; 45; 46; 47; 48; 50; 53; 55; 60; 61; 63].
Definition linv_exprs (y : list wexpr) : list wexpr :=
  match y with
  | [y0; y1; y2; y3; y4] => [rotxor linv_k0 y0; rotxor linv_k1 y1; rotxor linv_k2 y2; rotxor linv_k3 y3; rotxor linv_k4 y4]
  | _ => [] end.
(* inverse of the 5-bit S-box (with the affine pre- and post-processing the round wraps around it): algebraic normal form of
   each input bit in the output bits (monomials as lists of variable indices; [] is the constant 1) *)
Definition sinv_a0 : list (list nat) := [[]; [3]; [2]; [2; 3]; [2; 3; 4]; [1]; [1; 3; 4]; [0; 3; 4]; [0; 2; 3]; [0; 1]].
Definition sinv_a1 : list (list nat) := [[4]; [2; 3]; [1]; [0]; [0; 2]; [0; 2; 4]].
Definition sinv_a2 : list (list nat) := [[]; [4]; [3; 4]; [2]; [2; 4]; [2; 3]; [1]; [1; 3]; [1; 3; 4]; [1; 2]; [1; 2; 4]; [0]; [0; 2]; [0; 2; 4]; [0; 1; 3]; [0; 1; 2]].
Definition sinv_a3 : list (list nat) := [[4]; [3]; [2; 4]; [1]; [1; 4]; [1; 2]; [1; 2; 4]; [0; 2]; [0; 2; 4]].
Definition sinv_a4 : list (list nat) := [[3]; [2; 4]; [2; 3]; [2; 3; 4]; [1; 2]; [1; 2; 4]; [0; 2]; [0; 2; 4]; [0; 2; 3]; [0; 1]].
Definition sinv_exprs (t : list wexpr) : list wexpr := [anf t sinv_a0; anf t sinv_a1; anf t sinv_a2; anf t sinv_a3; anf t sinv_a4].

Definition ins5 : list wexpr := in_exprs 5.
Definition LIN := lin_exprs ins5.   Definition LINV := linv_exprs ins5.
Definition SUB := sub_exprs ins5.   Definition SINV := sinv_exprs ins5.

(* ---- substitution of expressions for inputs ------------------------------------------------- *)
Fixpoint wsubst (es : list wexpr) (e : wexpr) : wexpr :=
  match e with
  | WIn i => nth i es w0
  | WNot a => WNot (wsubst es a)
  | WXor a b => WXor (wsubst es a) (wsubst es b)
  | WAnd a b => WAnd (wsubst es a) (wsubst es b)
  | WRotr k a => WRotr k (wsubst es a)
  | _ => e
  end.

Lemma neval_subst xs es e : neval xs (wsubst es e) = neval (map (neval xs) es) e.
Proof.
  induction e; cbn [wsubst neval]; try reflexivity; try congruence.
  change 0%N with (neval xs w0). now rewrite map_nth.
Qed.

Lemma wf_subst n es e : Forall (wf n) es -> wf (length es) e -> wf n (wsubst es e).
Proof.
  intros Hes. induction e; cbn [wsubst wf]; intros W; try contradiction.
  - rewrite Forall_forall in Hes. apply Hes. now apply nth_In.
  - exact W.
  - auto.
  - destruct W; split; auto.
  - destruct W; split; auto.
  - destruct W; split; auto.
Qed.

(* boolean well-formedness, for computation *)
Fixpoint wfb (n : nat) (e : wexpr) : bool :=
  match e with
  | WIn i => i <? n
  | WConst w c => (w =? 64) && (c <? 2 ^ 64)%N
  | WNot a => wfb n a
  | WXor a b => wfb n a && wfb n b
  | WAnd a b => wfb n a && wfb n b
  | WRotr k a => (k <? 64) && wfb n a
  | _ => false
  end.
Lemma wfb_wf n e : wfb n e = true -> wf n e.
Proof.
  induction e; cbn [wfb wf]; intros H; try discriminate.
  - now apply Nat.ltb_lt.
  - apply andb_true_iff in H. destruct H as [H1 H2]. split; [now apply Nat.eqb_eq | now apply N.ltb_lt].
  - auto.
  - apply andb_true_iff in H. destruct H; split; auto.
  - apply andb_true_iff in H. destruct H; split; auto.
  - apply andb_true_iff in H. destruct H as [H1 H2]. split; [now apply Nat.ltb_lt | auto].
Qed.
Lemma wfb_all n es : forallb (wfb n) es = true -> Forall (wf n) es.
Proof. intros H. apply Forall_forall. intros e He. apply wfb_wf. rewrite forallb_forall in H. now apply H. Qed.

(* ---- from the bit-level check to N ---------------------------------------------------------- *)
Lemma bits64_inj a b : lt64 a -> lt64 b -> bits 64 a = bits 64 b -> a = b.
Proof.
  intros Ha Hb E. apply N.bits_inj. intros n.
  destruct (N.ltb_spec n 64) as [L|G].
  - pose proof (nth_bits 64 a (N.to_nat n)) as A. pose proof (nth_bits 64 b (N.to_nat n)) as B.
    rewrite N2Nat.id in A, B. rewrite <- A, <- B by lia. now rewrite E.
  - rewrite (testbit_high a 64 n Ha G), (testbit_high b 64 n Hb G). reflexivity.
Qed.

Local Opaque bits.
Lemma map_bits_inj : forall ys xs, Forall lt64 ys -> Forall lt64 xs -> map (bits 64) ys = map (bits 64) xs -> ys = xs.
Proof.
  induction ys as [|y ys IH]; intros xs Hy Hx E; destruct xs as [|x xs]; try discriminate; [reflexivity|].
  cbn [map] in E.
  assert (E1 : bits 64 y = bits 64 x) by exact (f_equal (fun l : list (list bool) => hd [] l) E).
  assert (E2 : map (bits 64) ys = map (bits 64) xs) by exact (f_equal (fun l : list (list bool) => tl l) E).
  f_equal.
  - apply bits64_inj; [exact (Forall_inv Hy) | exact (Forall_inv Hx) | exact E1].
  - apply IH; [exact (Forall_inv_tail Hy) | exact (Forall_inv_tail Hx) | exact E2].
Qed.

Local Transparent bits.

Definition nmap (F : list wexpr) (xs : list N) : list N := map (neval xs) F.
Definition comp_prog (F G : list wexpr) : prog := {| p_body := []; p_outs := map (wsubst F) G |}.

Lemma nmap_lt F xs : Forall (wf (length xs)) F -> Forall lt64 xs -> Forall lt64 (nmap F xs).
Proof.
  intros W H. apply Forall_forall. intros y Hy. apply in_map_iff in Hy. destruct Hy as [e [<- He]].
  rewrite Forall_forall in W. apply neval_lt; auto.
Qed.

(* G after F is the identity on five words *)
Lemma compose_id (F G : list wexpr) :
  length F = 5 -> Forall (wf 5) F -> Forall (wf 5) G ->
  check_equiv (repeat 64 5) (comp_prog F G) (id_prog 5) = true ->
  forall xs, length xs = 5 -> Forall lt64 xs -> nmap G (nmap F xs) = xs.
Proof.
  intros LF WF WG C xs Lx Hx.
  pose proof (check_equiv_sound _ _ _ C (map (bits 64) xs)) as E.
  assert (Wd : widths_of (map (bits 64) xs) = repeat 64 5).
  { unfold widths_of. rewrite map_map. do 6 (destruct xs as [|? xs]; try discriminate). cbn [map]. rewrite !bits_length. reflexivity. }
  specialize (E Wd). unfold run, comp_prog, id_prog in E. cbn [p_body p_outs run_body fold_left] in E.
  assert (L : map (eval BoolAlg (map (bits 64) xs) []) (map (wsubst F) G) = map (bits 64) (nmap G (nmap F xs))).
  { unfold nmap. rewrite !map_map. apply map_ext_in. intros e He.
    rewrite eval_neval; [|exact Hx|].
    - now rewrite neval_subst.
    - rewrite Lx. apply wf_subst; [exact WF|]. rewrite LF. rewrite Forall_forall in WG. now apply WG. }
  assert (R : map (eval BoolAlg (map (bits 64) xs) []) (in_exprs 5) = map (bits 64) xs).
  { do 6 (destruct xs as [|? xs]; try discriminate). reflexivity. }
  rewrite L, R in E.
  assert (HG : Forall lt64 (nmap G (nmap F xs))).
  { apply nmap_lt; [unfold nmap at 1; rewrite map_length, LF; exact WG|]. apply nmap_lt; [rewrite Lx; exact WF | exact Hx]. }
  apply map_bits_inj; [exact HG | exact Hx | exact E].
Qed.

(* ---- the four layer identities, by computation in the polynomial algebra ------------------- *)
Lemma wf_LIN : Forall (wf 5) LIN.   Proof. apply wfb_all. vm_compute. reflexivity. Qed.
Lemma wf_LINV : Forall (wf 5) LINV. Proof. apply wfb_all. vm_compute. reflexivity. Qed.
Lemma wf_SUB : Forall (wf 5) SUB.   Proof. apply wfb_all. vm_compute. reflexivity. Qed.
Lemma wf_SINV : Forall (wf 5) SINV. Proof. apply wfb_all. vm_compute. reflexivity. Qed.

Lemma chk_linv_lin : check_equiv (repeat 64 5) (comp_prog LIN LINV) (id_prog 5) = true. Proof. vm_compute. reflexivity. Qed.
Lemma chk_lin_linv : check_equiv (repeat 64 5) (comp_prog LINV LIN) (id_prog 5) = true. Proof. vm_compute. reflexivity. Qed.
Lemma chk_sinv_sub : check_equiv (repeat 64 5) (comp_prog SUB SINV) (id_prog 5) = true. Proof. vm_compute. reflexivity. Qed.
Lemma chk_sub_sinv : check_equiv (repeat 64 5) (comp_prog SINV SUB) (id_prog 5) = true. Proof. vm_compute. reflexivity. Qed.

Definition linv_lin := compose_id LIN LINV eq_refl wf_LIN wf_LINV chk_linv_lin.
Definition lin_linv := compose_id LINV LIN eq_refl wf_LINV wf_LIN chk_lin_linv.
Definition sinv_sub := compose_id SUB SINV eq_refl wf_SUB wf_SINV chk_sinv_sub.
Definition sub_sinv := compose_id SINV SUB eq_refl wf_SINV wf_SUB chk_sub_sinv.

(* ---- the round and its inverse on lists of five N ------------------------------------------- *)
Definition addc (c : N) (xs : list N) : list N :=
  match xs with [x0; x1; x2; x3; x4] => [x0; x1; N.lxor x2 c; x3; x4] | _ => xs end.
Definition round_l (c : N) (xs : list N) : list N := nmap LIN (nmap SUB (addc c xs)).
Definition round_inv_l (c : N) (xs : list N) : list N := addc c (nmap SINV (nmap LINV xs)).

Lemma round_l_spec c x0 x1 x2 x3 x4 : round_l c [x0; x1; x2; x3; x4] = wlist (Perm.round c (x0, x1, x2, x3, x4)).
Proof. reflexivity. Qed.

Lemma addc_len c xs : length xs = 5 -> length (addc c xs) = 5.
Proof. intros H. do 6 (destruct xs as [|? xs]; try discriminate). reflexivity. Qed.
Lemma addc_lt c xs : lt64 c -> Forall lt64 xs -> Forall lt64 (addc c xs).
Proof.
  intros Hc H. destruct xs as [|x0 [|x1 [|x2 [|x3 [|x4 [|x5 xs]]]]]]; cbn [addc]; auto.
  pose proof (Forall_inv H) as A0. pose proof (Forall_inv_tail H) as T0.
  pose proof (Forall_inv T0) as A1. pose proof (Forall_inv_tail T0) as T1.
  pose proof (Forall_inv T1) as A2. pose proof (Forall_inv_tail T1) as T2.
  pose proof (Forall_inv T2) as A3. pose proof (Forall_inv_tail T2) as T3.
  pose proof (Forall_inv T3) as A4.
  repeat constructor; auto. now apply lxor_lt.
Qed.
Lemma addc_invol c xs : addc c (addc c xs) = xs.
Proof.
  destruct xs as [|x0 [|x1 [|x2 [|x3 [|x4 [|x5 xs]]]]]]; cbn [addc]; auto.
  now rewrite N.lxor_assoc, N.lxor_nilpotent, N.lxor_0_r.
Qed.
Lemma nmap_len5 F xs : length F = 5 -> length (nmap F xs) = 5.
Proof. intros H. unfold nmap. now rewrite map_length. Qed.

Theorem round_inv_round_l c xs : lt64 c -> length xs = 5 -> Forall lt64 xs -> round_inv_l c (round_l c xs) = xs.
Proof.
  intros Hc L H. unfold round_inv_l, round_l.
  pose proof (addc_len c xs L) as L1. pose proof (addc_lt c xs Hc H) as H1.
  assert (H2 : Forall lt64 (nmap SUB (addc c xs))) by (apply nmap_lt; [rewrite L1; exact wf_SUB | exact H1]).
  rewrite linv_lin; [|now apply nmap_len5|exact H2].
  rewrite sinv_sub by assumption. apply addc_invol.
Qed.

Theorem round_round_inv_l c xs : lt64 c -> length xs = 5 -> Forall lt64 xs -> round_l c (round_inv_l c xs) = xs.
Proof.
  intros Hc L H. unfold round_inv_l, round_l. rewrite addc_invol.
  assert (H1 : Forall lt64 (nmap LINV xs)) by (apply nmap_lt; [rewrite L; exact wf_LINV | exact H]).
  rewrite sub_sinv; [|now apply nmap_len5|exact H1].
  now rewrite lin_linv.
Qed.

Lemma round_inv_l_lt c xs : lt64 c -> length xs = 5 -> Forall lt64 xs -> Forall lt64 (round_inv_l c xs) /\ length (round_inv_l c xs) = 5.
Proof.
  intros Hc L H. unfold round_inv_l.
  assert (H1 : Forall lt64 (nmap LINV xs)) by (apply nmap_lt; [rewrite L; exact wf_LINV | exact H]).
  assert (H2 : Forall lt64 (nmap SINV (nmap LINV xs))).
  { apply nmap_lt; [|exact H1]. rewrite nmap_len5 by reflexivity. exact wf_SINV. }
  split; [now apply addc_lt | apply addc_len; now apply nmap_len5].
Qed.

(* ---- on Spec.Perm's word tuples ---------------------------------------------------------------- *)
Definition words_of_list (xs : list N) (d : Perm.words) : Perm.words :=
  match xs with [a; b; c; d'; e] => (a, b, c, d', e) | _ => d end.
Definition round_inv (c : N) (w : Perm.words) : Perm.words := words_of_list (round_inv_l c (wlist w)) w.

Lemma wlist_len w : length (wlist w) = 5.
Proof. destruct w as [[[[a b] c] d] e]. reflexivity. Qed.
Lemma words_of_wlist w d : words_of_list (wlist w) d = w.
Proof. destruct w as [[[[a b] c] d'] e]. reflexivity. Qed.
Lemma wlist_words_of_list xs d : length xs = 5 -> wlist (words_of_list xs d) = xs.
Proof. intros H. do 6 (destruct xs as [|? xs]; try discriminate). reflexivity. Qed.

Theorem round_inv_round c w : lt64 c -> wok w -> round_inv c (Perm.round c w) = w.
Proof.
  intros Hc Hw. unfold round_inv. destruct w as [[[[x0 x1] x2] x3] x4].
  rewrite <- round_l_spec. rewrite round_inv_round_l; [reflexivity | exact Hc | reflexivity | exact Hw].
Qed.

Theorem round_inv_ok c w : lt64 c -> wok w -> wok (round_inv c w).
Proof.
  intros Hc Hw. unfold round_inv, wok.
  destruct (round_inv_l_lt c (wlist w) Hc (wlist_len w) Hw) as [A B].
  now rewrite wlist_words_of_list.
Qed.

Theorem round_round_inv c w : lt64 c -> wok w -> Perm.round c (round_inv c w) = w.
Proof.
  intros Hc Hw. unfold round_inv.
  destruct (round_inv_l_lt c (wlist w) Hc (wlist_len w) Hw) as [A B].
  remember (round_inv_l c (wlist w)) as ys eqn:E.
  do 6 (destruct ys as [|? ys]; try discriminate). cbn [words_of_list].
  rewrite <- (words_of_wlist (Perm.round c (n, n0, n1, n2, n3)) w). rewrite <- round_l_spec. rewrite E.
  rewrite round_round_inv_l by (auto using wlist_len). apply words_of_wlist.
Qed.

Lemma round_ok j w : j < 12 -> wok w -> wok (Perm.round (Perm.rc j) w).
Proof. intros Hj Hw. exact (proj2 (round_bridge j w Hj Hw)). Qed.

(* ---- the whole permutation ---------------------------------------------------------------------- *)
Definition rounds (js : list nat) (w : Perm.words) : Perm.words := fold_left (fun w i => Perm.round (Perm.rc i) w) js w.
Definition rounds_inv (js : list nat) (w : Perm.words) : Perm.words := fold_right (fun i w => round_inv (Perm.rc i) w) w js.

Lemma rounds_ok js : Forall (fun j => j < 12) js -> forall w, wok w -> wok (rounds js w).
Proof. induction 1 as [|j js Hj _ IH]; intros w Hw; [exact Hw|]. cbn [rounds fold_left]. apply IH. now apply round_ok. Qed.
Lemma rounds_inv_ok js : Forall (fun j => j < 12) js -> forall w, wok w -> wok (rounds_inv js w).
Proof.
  induction 1 as [|j js Hj _ IH]; intros w Hw; [exact Hw|]. cbn [rounds_inv fold_right].
  apply round_inv_ok; [now apply rc_lt64 | now apply IH].
Qed.

Theorem rounds_inv_rounds js : Forall (fun j => j < 12) js -> forall w, wok w -> rounds_inv js (rounds js w) = w.
Proof.
  induction 1 as [|j js Hj Hjs IH]; intros w Hw; [reflexivity|].
  cbn [rounds rounds_inv fold_left fold_right]. fold (rounds js (Perm.round (Perm.rc j) w)).
  fold (rounds_inv js (rounds js (Perm.round (Perm.rc j) w))).
  rewrite IH by now apply round_ok. apply round_inv_round; [now apply rc_lt64 | exact Hw].
Qed.

Theorem rounds_rounds_inv js : Forall (fun j => j < 12) js -> forall w, wok w -> rounds js (rounds_inv js w) = w.
Proof.
  induction 1 as [|j js Hj Hjs IH]; intros w Hw; [reflexivity|].
  cbn [rounds rounds_inv fold_left fold_right]. fold (rounds_inv js w).
  rewrite round_round_inv; [|now apply rc_lt64|now apply rounds_inv_ok].
  fold (rounds js (rounds_inv js w)). now apply IH.
Qed.

Definition perm_words_inv (first : nat) (w : Perm.words) : Perm.words := rounds_inv (seq first (12 - first)) w.

Lemma seq_lt12 first : Forall (fun j => j < 12) (seq first (12 - first)).
Proof. apply Forall_forall. intros j Hj. apply in_seq in Hj. lia. Qed.

Theorem perm_words_inv_l first w : wok w -> perm_words_inv first (Perm.perm_words first w) = w.
Proof. intros Hw. exact (rounds_inv_rounds _ (seq_lt12 first) w Hw). Qed.
Theorem perm_words_inv_r first w : wok w -> Perm.perm_words first (perm_words_inv first w) = w.
Proof. intros Hw. exact (rounds_rounds_inv _ (seq_lt12 first) w Hw). Qed.
Theorem perm_words_ok first w : wok w -> wok (Perm.perm_words first w).
Proof. intros Hw. exact (rounds_ok _ (seq_lt12 first) w Hw). Qed.
Theorem perm_words_inv_ok first w : wok w -> wok (perm_words_inv first w).
Proof. intros Hw. exact (rounds_inv_ok _ (seq_lt12 first) w Hw). Qed.
