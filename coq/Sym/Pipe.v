(* Pipelines of word-level programs, their reflective equivalence check, and
   width bookkeeping - the glue for composing per-segment obligations. *)
From Coq Require Import List PArith NArith Bool Arith Lia.
From AsconV Require Import Sym.BitPoly Sym.Wexpr.
Import ListNotations.

Inductive pipe :=
| PId
| PRun (p : prog)
| PSeq (a b : pipe)                 (* a, then b *)
| PFirst (n : nat) | PSkip (n : nat)
| PPar (a b : pipe).                (* v |-> a v ++ b v *)

Fixpoint pexec (A : BitAlg) (q : pipe) (v : list (word A)) : list (word A) :=
  match q with
  | PId => v
  | PRun p => run A v p
  | PSeq a b => pexec A b (pexec A a v)
  | PFirst n => firstn n v
  | PSkip n => skipn n v
  | PPar a b => pexec A a v ++ pexec A b v
  end.

Lemma pexec_hom rho q : forall v, map (hw rho) (pexec PolyAlg q v) = pexec BoolAlg q (map (hw rho) v).
Proof.
  induction q; intros v; cbn [pexec].
  - reflexivity.
  - apply run_hom.
  - now rewrite IHq2, IHq1.
  - symmetry. apply firstn_map.
  - symmetry. apply skipn_map.
  - now rewrite map_app, IHq1, IHq2.
Qed.

Definition check_pipes (widths : list nat) (q1 q2 : pipe) : bool :=
  let ins := sym_inputs 1 widths in words_eqb (pexec PolyAlg q1 ins) (pexec PolyAlg q2 ins).

Theorem check_pipes_sound widths q1 q2 : check_pipes widths q1 q2 = true ->
  forall ci : list (list bool), widths_of ci = widths -> pexec BoolAlg q1 ci = pexec BoolAlg q2 ci.
Proof.
  unfold check_pipes. intros H ci Hw. apply words_eqb_eq in H.
  pose proof (hw_sym_inputs ci []) as S. cbn [length app] in S. change (Pos.of_nat 1) with 1%positive in S.
  rewrite Hw in S.
  apply (f_equal (map (hw (rho_of (concat ci))))) in H. rewrite !pexec_hom in H. rewrite S in H. exact H.
Qed.

(* widths of the result of a pipeline, read off the symbolic run *)
Definition out_widths (widths : list nat) (q : pipe) : list nat :=
  map (@length poly) (pexec PolyAlg q (sym_inputs 1 widths)).

Lemma out_widths_sound widths q ci : widths_of ci = widths ->
  widths_of (pexec BoolAlg q ci) = out_widths widths q.
Proof.
  intros Hw. unfold out_widths, widths_of.
  pose proof (hw_sym_inputs ci []) as S. cbn [length app] in S. change (Pos.of_nat 1) with 1%positive in S.
  rewrite Hw in S. rewrite <- S, <- pexec_hom, map_map. apply map_ext. intros w. apply hw_length.
Qed.

Fixpoint nat_list_eqb (a b : list nat) : bool :=
  match a, b with
  | [], [] => true
  | x :: a', y :: b' => Nat.eqb x y && nat_list_eqb a' b'
  | _, _ => false
  end.
Lemma nat_list_eqb_eq a b : nat_list_eqb a b = true -> a = b.
Proof.
  revert b; induction a as [|x a IH]; intros b H; destruct b as [|y b]; try discriminate; [reflexivity|].
  cbn in H. apply andb_true_iff in H. destruct H as [H1 H2]. apply Nat.eqb_eq in H1. subst. f_equal. now apply IH.
Qed.
