(* Soundness of the kernel obligations: if every segment of a chain checks,
   running the chain on any 40 memory bytes equals enc (rounds (dec memory)). *)
From Coq Require Import List PArith NArith Bool Arith Lia.
From AsconV Require Import Sym.BitPoly Sym.Wexpr Sym.Pipe Sym.PermW Sym.Kernel.
Import ListNotations.

Lemma widths_of_app a b : widths_of (a ++ b) = widths_of a ++ widths_of b.
Proof. unfold widths_of. apply map_app. Qed.
Lemma widths_of_length a : length (widths_of a) = length a.
Proof. unfold widths_of. apply map_length. Qed.
Lemma widths_of_skipn n a : widths_of (skipn n a) = skipn n (widths_of a).
Proof. unfold widths_of. symmetry. apply skipn_map. Qed.

(* computed width facts about the specification programs *)
Definition layouts : list klayout := [KL64; KL32; KL8; KL32BE].
Lemma dec_widths : forallb (fun L => nat_list_eqb (out_widths mem_widths (PRun (dec_prog L))) (int_widths L)) layouts = true.
Proof. vm_compute. reflexivity. Qed.
Lemma round_widths : forallb (fun L => forallb (fun j => nat_list_eqb (out_widths (int_widths L) (PRun (round_prog L j))) (int_widths L)) (seq 0 12)) layouts = true.
Proof. vm_compute. reflexivity. Qed.

Lemma in_layouts L : In L layouts. Proof. destruct L; cbn; auto 6. Qed.

Lemma dec_widths_ok L v : widths_of v = mem_widths -> widths_of (run BoolAlg v (dec_prog L)) = int_widths L.
Proof.
  intros H. pose proof dec_widths as D. rewrite forallb_forall in D. specialize (D L (in_layouts L)).
  apply nat_list_eqb_eq in D. rewrite <- D. exact (out_widths_sound mem_widths (PRun (dec_prog L)) v H).
Qed.

Lemma round_widths_ok L j x : j < 12 -> widths_of x = int_widths L ->
  widths_of (run BoolAlg x (round_prog L j)) = int_widths L.
Proof.
  intros Hj H. pose proof round_widths as D. rewrite forallb_forall in D. specialize (D L (in_layouts L)).
  rewrite forallb_forall in D. specialize (D j). rewrite in_seq in D. specialize (D (conj (Nat.le_0_l j) Hj)).
  apply nat_list_eqb_eq in D. rewrite <- D. exact (out_widths_sound (int_widths L) (PRun (round_prog L j)) x H).
Qed.

Lemma rounds_widths_ok L js : forall x, forallb (fun j => j <? 12) js = true -> widths_of x = int_widths L ->
  widths_of (pexec BoolAlg (rounds_pipe L js) x) = int_widths L.
Proof.
  induction js as [|j js IH]; intros x Hj H; [exact H|].
  cbn [forallb] in Hj. apply andb_true_iff in Hj. destruct Hj as [H1 H2]. apply Nat.ltb_lt in H1.
  cbn [rounds_pipe fold_right pexec]. apply IH; [exact H2|]. now apply round_widths_ok.
Qed.

Lemma rounds_pipe_app L a b x :
  pexec BoolAlg (rounds_pipe L (a ++ b)) x = pexec BoolAlg (rounds_pipe L b) (pexec BoolAlg (rounds_pipe L a) x).
Proof.
  revert x; induction a as [|j a IH]; intros x; [reflexivity|].
  cbn [app rounds_pipe fold_right pexec]. apply IH.
Qed.

(* what it means for concrete values v to present the internal words x at an interface *)
Definition iface_rel (L : klayout) (i : iface) (v x : list (list bool)) : Prop :=
  widths_of x = int_widths L /\
  match i with
  | IMem o => exists m oo, widths_of m = mem_widths /\ widths_of oo = o /\ v = m ++ oo /\ x = run BoolAlg m (dec_prog L)
  | IVars T o => exists oo, widths_of oo = o /\ v = run BoolAlg x (T_prog T) ++ oo
  end.

Lemma int_len L x : widths_of x = int_widths L -> length x = nint L.
Proof. intros H. unfold nint. rewrite <- H. symmetry. apply widths_of_length. Qed.

Lemma firstn_app_exact {A} (a b : list A) : firstn (length a) (a ++ b) = a.
Proof. rewrite firstn_app, Nat.sub_diag, firstn_O, app_nil_r. apply firstn_all. Qed.
Lemma skipn_app_exact {A} (a b : list A) : skipn (length a) (a ++ b) = b.
Proof. rewrite skipn_app, Nat.sub_diag, skipn_all. reflexivity. Qed.

Lemma run_T_len x T : length (run BoolAlg x (T_prog T)) = length T.
Proof. unfold run, T_prog. cbn [p_body p_outs run_body fold_left]. now rewrite !map_length. Qed.

(* one segment *)
Lemma seg_step L s v x : check_seg L s = true -> iface_rel L (s_in s) v x ->
  let v' := run BoolAlg v (s_prog s) in
  let x' := pexec BoolAlg (rounds_pipe L (s_rounds s)) x in
  widths_of x' = int_widths L /\
  match s_out s with
  | IMem o' => firstn 40 v' = run BoolAlg x' (enc_prog L) /\ widths_of v' = mem_widths ++ o'
  | IVars T' o' => iface_rel L (IVars T' o') v' x'
  end.
Proof.
  intros C [Wx R]. unfold check_seg in C. apply andb_true_iff in C. destruct C as [C C3].
  apply andb_true_iff in C. destruct C as [C1 C2]. apply nat_list_eqb_eq in C2.
  cbv zeta.
  assert (Wx' : widths_of (pexec BoolAlg (rounds_pipe L (s_rounds s)) x) = int_widths L) by now apply rounds_widths_ok.
  split; [exact Wx'|].
  (* the concrete input vector of the obligation *)
  assert (Hci : exists ci, widths_of ci = sym_widths L (s_in s) /\
                pexec BoolAlg (prep_in L (s_in s)) ci = v /\
                pexec BoolAlg (to_int L (s_in s)) ci = x).
  { destruct (s_in s) as [o|T o].
    - destruct R as (m & oo & Wm & Wo & Ev & Ex). exists v. cbn [sym_widths prep_in to_int pexec]. subst v.
      rewrite widths_of_app, Wm, Wo. repeat split; auto.
      assert (Lm : length m = 40) by (rewrite <- widths_of_length, Wm; reflexivity).
      rewrite <- Lm. rewrite firstn_app_exact. now symmetry.
    - destruct R as [oo [Wo Ev]]. exists (x ++ oo). cbn [sym_widths prep_in to_int pexec].
      rewrite widths_of_app, Wx, Wo.
      rewrite <- (int_len L x Wx). rewrite firstn_app_exact, skipn_app_exact. repeat split; auto. }
  destruct Hci as (ci & Wci & Ein & Eint).
  pose proof (check_pipes_sound _ _ _ C1 ci Wci) as E. unfold seg_lhs, seg_rhs in E. cbn [pexec] in E.
  rewrite Ein, Eint in E.
  pose proof (out_widths_sound _ (seg_lhs L s) ci Wci) as W. rewrite C2 in W. unfold seg_lhs in W. cbn [pexec] in W.
  rewrite Ein in W.
  destruct (s_out s) as [o'|T' o'].
  - cbn [nrel from_int pexec act_widths] in *. split; [exact E|exact W].
  - cbn [nrel from_int pexec act_widths] in *. split; [exact Wx'|].
    exists (skipn (length T') (run BoolAlg v (s_prog s))). split.
    + rewrite widths_of_skipn, W. rewrite <- (map_length (fun p : nat * bool => nth (fst p) (int_widths L) 0) T').
      apply skipn_app_exact.
    + rewrite <- E. symmetry. apply firstn_skipn.
Qed.

Fixpoint mid_vars (segs : list seg) : bool :=
  match segs with
  | [] => true
  | [s] => true
  | s :: rest => match s_out s with IVars _ _ => mid_vars rest | IMem _ => false end
  end.

Lemma chain_gen L : forall segs i v x, segs <> [] ->
  forallb (check_seg L) segs = true -> links i segs = true -> mid_vars segs = true ->
  iface_rel L i v x ->
  run_chain segs v = run BoolAlg (pexec BoolAlg (rounds_pipe L (concat (map s_rounds segs))) x) (enc_prog L).
Proof.
  induction segs as [|s rest IH]; intros i v x Hne HC HL HM HR; [congruence|].
  cbn [forallb] in HC. apply andb_true_iff in HC. destruct HC as [C1 C2].
  cbn [links] in HL. apply andb_true_iff in HL. destruct HL as [L1 L2]. apply iface_eqb_eq in L1. subst i.
  pose proof (seg_step L s v x C1 HR) as S. cbv zeta in S. destruct S as [Wx' S].
  cbn [map concat]. rewrite rounds_pipe_app. unfold run_chain. cbn [fold_left]. fold (run_chain rest (run BoolAlg v (s_prog s))).
  destruct rest as [|s2 rest'].
  - cbn [links] in L2. destruct (s_out s) as [o'|]; [|discriminate]. destruct o'; [|discriminate].
    cbn [map concat rounds_pipe fold_right pexec run_chain fold_left]. destruct S as [S W].
    rewrite <- S. symmetry. apply firstn_all2. rewrite <- widths_of_length, W, app_nil_r. unfold mem_widths. rewrite repeat_length. lia.
  - assert (HM2 : exists T' o', s_out s = IVars T' o' /\ mid_vars (s2 :: rest') = true).
    { cbn [mid_vars] in HM. destruct (s_out s) as [|T' o']; [discriminate|]. eauto. }
    destruct HM2 as (T' & o' & Eo & HM2). rewrite Eo in *.
    apply (IH (IVars T' o')); auto. discriminate.
Qed.

Definition check_struct_strict (L : klayout) (segs : list seg) : bool := check_struct L segs && mid_vars segs.

Definition entry_others (segs : list seg) : list nat :=
  match segs with s :: _ => match s_in s with IMem o => o | _ => [] end | [] => [] end.

(* the theorem every permutation obligation rests on: for all 40 memory bytes m and all values oo of the
   other entry inputs (e.g. the registers on entry of an assembly function) *)
Theorem chain_sound L segs : forallb (check_seg L) segs = true -> check_struct_strict L segs = true ->
  forall m oo, widths_of m = mem_widths -> widths_of oo = entry_others segs ->
  run_chain segs (m ++ oo) = pexec BoolAlg (chain_spec L (concat (map s_rounds segs))) m.
Proof.
  unfold check_struct_strict, check_struct. intros HC H m oo Wm Wo.
  apply andb_true_iff in H. destruct H as [H HM]. apply andb_true_iff in H. destruct H as [H Hne].
  apply andb_true_iff in H. destruct H as [H _]. apply andb_true_iff in H. destruct H as [H0 HL].
  destruct segs as [|s rest]; [discriminate|]. cbn [entry_others] in Wo.
  destruct (s_in s) as [o|] eqn:Ei; [|discriminate].
  unfold chain_spec. cbn [pexec].
  apply (chain_gen L (s :: rest) (IMem o) (m ++ oo) (run BoolAlg m (dec_prog L))).
  - discriminate.
  - exact HC.
  - exact HL.
  - exact HM.
  - split; [now apply dec_widths_ok|]. exists m, oo. auto.
Qed.
