(* Vocabulary for the table of pre-computed constants that tools/consts.py
   regenerates from the C source (coq/Gen/Consts.v), and the checker that the
   theorems C03_iv / C09_consts evaluate on it. *)
From Coq Require Import String.
From AsconV Require Export Model.Xofm.
Local Open Scope N_scope.

Inductive const_enc := E64 | E32 | E8.     (* uint64_t S[5] | bit-interleaved uint32_t W[10] | uint8_t B[40] *)
Inductive const_what :=
| WIv (v : xof_variant) (L : N)             (* perm 0 (IV word for declared length L || 0^256) *)
| WKmac (v : xof_variant).                  (* the cXOF block for name "KMAC", output length 32, before the customisation string *)

Record const_entry := { ce_where : string; ce_enc : const_enc; ce_vals : list N; ce_what : const_what }.

(* bit-interleaved 32-bit pair (even bits, odd bits) -> 64-bit word: bit j of
   [e] is bit 2j of the word, bit j of [o] is bit 2j+1 (ascon-sliced32.h) *)
Fixpoint interleave_fuel (n : nat) (j : N) (e o : N) : N :=
  match n with
  | O => 0
  | S k => N.lor (N.lor (N.shiftl (N.b2n (N.testbit e j)) (2 * j)) (N.shiftl (N.b2n (N.testbit o j)) (2 * j + 1)))
                 (interleave_fuel k (j + 1) e o)
  end.
Definition interleave (e o : N) : N := interleave_fuel 32 0 e o.

Fixpoint pairs_to_words (l : list N) : list N :=
  match l with
  | e :: o :: l' => interleave e o :: pairs_to_words l'
  | _ => []
  end.

(* canonical 40 big-endian bytes of an entry *)
Definition decode_entry (c : const_entry) : bytes :=
  match ce_enc c with
  | E8 => ce_vals c
  | E64 => flat_map (be_encode 8) (ce_vals c)
  | E32 => flat_map (be_encode 8) (pairs_to_words (ce_vals c))
  end.

Definition kmac_name : bytes := [75; 77; 65; 67].   (* "KMAC" *)

Definition expected (perm : nat -> bytes -> bytes) (w : const_what) : bytes :=
  match w with
  | WIv v L => iv_state perm v L
  | WKmac v => cxof_state perm v kmac_name [] 32
  end.

Definition check_entry (perm : nat -> bytes -> bytes) (c : const_entry) : bool :=
  beq_bytes (decode_entry c) (expected perm (ce_what c)) &&
  forallb (fun x => x <? (match ce_enc c with E8 => 256 | E32 => 4294967296 | E64 => 18446744073709551616 end)) (ce_vals c) &&
  Nat.eqb (List.length (ce_vals c)) (match ce_enc c with E8 => 40 | E32 => 10 | E64 => 5 end)%nat.
