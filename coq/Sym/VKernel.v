(* Value-simulation obligations for masked kernels: each interface carries a
   "value" program mapping the interface variables (shares, possibly rotated
   and inverted, in registers or memory, plus randomness) to the five
   unmasked 64-bit words; each segment must satisfy
        value_out (segment v) = rounds (value_in v)     for all v,
   and the chain theorem composes them:
        value_last (run chain v0) = rounds_all (value_first v0)
   for every share value and every random word. *)
From Coq Require Import List PArith NArith Bool Arith Lia.
From AsconV Require Import Sym.BitPoly Sym.Wexpr Sym.Pipe Sym.PermW Sym.Kernel Sym.KernelP.
Import ListNotations.

Record viface := { vi_w : list nat; vi_val : prog }.
Record vseg := { vs_prog : prog; vs_in : nat; vs_out : nat; vs_rounds : list nat }.

Definition dummy_viface : viface := {| vi_w := []; vi_val := {| p_body := []; p_outs := [] |} |}.
Definition vif (ifs : list viface) (i : nat) : viface := nth i ifs dummy_viface.

Definition check_vseg (ifs : list viface) (s : vseg) : bool :=
  check_pipes (vi_w (vif ifs (vs_in s)))
              (PSeq (PRun (vs_prog s)) (PRun (vi_val (vif ifs (vs_out s)))))
              (PSeq (PRun (vi_val (vif ifs (vs_in s)))) (rounds_pipe KL64 (vs_rounds s))) &&
  nat_list_eqb (out_widths (vi_w (vif ifs (vs_in s))) (PRun (vs_prog s))) (vi_w (vif ifs (vs_out s))) &&
  forallb (fun j => j <? 12) (vs_rounds s).

Fixpoint vlinks (cur : nat) (segs : list vseg) : bool :=
  match segs with
  | [] => true
  | s :: rest => Nat.eqb cur (vs_in s) && vlinks (vs_out s) rest
  end.

Definition vrun_chain (segs : list vseg) (v : list (list bool)) : list (list bool) :=
  fold_left (fun v s => run BoolAlg v (vs_prog s)) segs v.

Definition vlast (first : nat) (segs : list vseg) : nat := fold_left (fun _ s => vs_out s) segs first.

Lemma vchain_gen ifs : forall segs cur v,
  forallb (check_vseg ifs) segs = true -> vlinks cur segs = true -> widths_of v = vi_w (vif ifs cur) ->
  run BoolAlg (vrun_chain segs v) (vi_val (vif ifs (vlast cur segs))) =
  pexec BoolAlg (rounds_pipe KL64 (concat (map vs_rounds segs))) (run BoolAlg v (vi_val (vif ifs cur))).
Proof.
  induction segs as [|s rest IH]; intros cur v HC HL Wv; [reflexivity|].
  cbn [forallb] in HC. apply andb_true_iff in HC. destruct HC as [C1 C2].
  cbn [vlinks] in HL. apply andb_true_iff in HL. destruct HL as [L1 L2]. apply Nat.eqb_eq in L1. subst cur.
  unfold check_vseg in C1. apply andb_true_iff in C1. destruct C1 as [C1 C13]. apply andb_true_iff in C1. destruct C1 as [C11 C12].
  apply nat_list_eqb_eq in C12.
  pose proof (check_pipes_sound _ _ _ C11 v Wv) as E. cbn [pexec] in E.
  pose proof (out_widths_sound _ (PRun (vs_prog s)) v Wv) as W. rewrite C12 in W. cbn [pexec] in W.
  unfold vrun_chain, vlast. cbn [fold_left map concat].
  fold (vrun_chain rest (run BoolAlg v (vs_prog s))). fold (vlast (vs_out s) rest).
  rewrite (IH (vs_out s) (run BoolAlg v (vs_prog s)) C2 L2 W). rewrite E. now rewrite rounds_pipe_app.
Qed.

(* all share values, all random words: the value after the chain is the rounds of the value before *)
Theorem vchain_sound ifs segs first : forallb (check_vseg ifs) segs = true -> vlinks first segs = true ->
  forall v, widths_of v = vi_w (vif ifs first) ->
  run BoolAlg (vrun_chain segs v) (vi_val (vif ifs (vlast first segs))) =
  pexec BoolAlg (rounds_pipe KL64 (concat (map vs_rounds segs))) (run BoolAlg v (vi_val (vif ifs first))).
Proof. intros HC HL v Wv. now apply vchain_gen. Qed.
