(* The ASCON round and the state layouts as word-level programs (the
   specification side of the kernel obligations). *)
From Coq Require Import List NArith Arith.
From AsconV Require Import Sym.BitPoly Sym.Wexpr.
Import ListNotations.

(* round constant of round i: ((15 - i) << 4) | i *)
Definition rcw (i : nat) : N := N.lor (N.shiftl (15 - N.of_nat i) 4) (N.of_nat i).

(* one round on five 64-bit words given as expressions *)
Definition round_exprs (c : N) (x : list wexpr) : list wexpr :=
  match x with
  | [x0; x1; x2; x3; x4] =>
    let x2 := WXor x2 (WConst 64 c) in
    let x0 := WXor x0 x4 in let x4 := WXor x4 x3 in let x2 := WXor x2 x1 in
    let t0 := WXor x0 (WAnd (WNot x1) x2) in
    let t1 := WXor x1 (WAnd (WNot x2) x3) in
    let t2 := WXor x2 (WAnd (WNot x3) x4) in
    let t3 := WXor x3 (WAnd (WNot x4) x0) in
    let t4 := WXor x4 (WAnd (WNot x0) x1) in
    let t1 := WXor t1 t0 in let t0 := WXor t0 t4 in let t3 := WXor t3 t2 in let t2 := WNot t2 in
    [WXor t0 (WXor (WRotr 19 t0) (WRotr 28 t0));
     WXor t1 (WXor (WRotr 61 t1) (WRotr 39 t1));
     WXor t2 (WXor (WRotr 1 t2) (WRotr 6 t2));
     WXor t3 (WXor (WRotr 10 t3) (WRotr 17 t3));
     WXor t4 (WXor (WRotr 7 t4) (WRotr 41 t4))]
  | _ => []
  end.

(* state layouts: how the five canonical 64-bit words are obtained from, and
   stored back into, the words the code works on *)
Inductive layout := L64 | L32 | L8.   (* 5 x uint64 | 10 x bit-interleaved uint32 | 40 bytes big-endian *)

Definition layout_widths (l : layout) : list nat :=
  match l with L64 => repeat 64 5 | L32 => repeat 32 10 | L8 => repeat 8 40 end.

Fixpoint be_concat (bytes : list wexpr) : wexpr :=   (* first byte is the most significant *)
  match bytes with
  | [] => WConst 0 0
  | [b] => b
  | b :: rest => WConcat b (be_concat rest)
  end.

Definition canon_of (l : layout) (ins : list wexpr) : list wexpr :=
  match l with
  | L64 => ins
  | L32 => map (fun i => WInterleave (nth (2 * i) ins (WConst 0 0)) (nth (2 * i + 1) ins (WConst 0 0))) (seq 0 5)
  | L8 => map (fun i => be_concat (firstn 8 (skipn (8 * i) ins))) (seq 0 5)
  end.
Definition store_of (l : layout) (x : list wexpr) : list wexpr :=
  match l with
  | L64 => x
  | L32 => flat_map (fun e => [WEven e; WOdd e]) x
  | L8 => flat_map (fun e => map (fun j => WTrunc 8 (WShr (8 * (7 - j)) e)) (seq 0 8)) x
  end.

Definition in_exprs (n : nat) : list wexpr := map WIn (seq 0 n).

(* the specification of "one round k" on the memory words of a layout *)
Definition spec_round_prog (l : layout) (k : nat) : prog :=
  {| p_body := []; p_outs := store_of l (round_exprs (rcw k) (canon_of l (in_exprs (length (layout_widths l))))) |}.

(* the identity on n words (for epilogue;prologue = id obligations) *)
Definition id_prog (n : nat) : prog := {| p_body := []; p_outs := in_exprs n |}.

(* a hand transcription of the loop body of ascon-c64.c (x2 kept inverted), used only as a
   self-test of the engine; the real obligations come from tools/ (Gen/) *)
Definition c64_body_selftest (k : nat) : prog :=
  let rc := N.lxor (rcw k) 0xFFFFFFFFFFFFFFFF in
  {| p_body :=
     [ WNot (WIn 2);                             (* 0: x2 = ~x2 (prologue) *)
       WXor (WTmp 0) (WConst 64 rc);             (* 1: x2 ^= RC *)
       WXor (WIn 0) (WIn 4);                     (* 2: x0 ^= x4 *)
       WXor (WIn 4) (WIn 3);                     (* 3: x4 ^= x3 *)
       WXor (WTmp 1) (WIn 1);                    (* 4: x2 ^= x1 *)
       WAnd (WNot (WTmp 2)) (WIn 1);             (* 5: t0 = ~x0 & x1 *)
       WAnd (WNot (WIn 1)) (WTmp 4);             (* 6: t1 = ~x1 & x2 *)
       WAnd (WNot (WTmp 4)) (WIn 3);             (* 7: t2 = ~x2 & x3 *)
       WAnd (WNot (WIn 3)) (WTmp 3);             (* 8: t3 = ~x3 & x4 *)
       WAnd (WNot (WTmp 3)) (WTmp 2);            (* 9: t4 = ~x4 & x0 *)
       WXor (WTmp 2) (WTmp 6);                   (* 10: x0 ^= t1 *)
       WXor (WIn 1) (WTmp 7);                    (* 11: x1 ^= t2 *)
       WXor (WTmp 4) (WTmp 8);                   (* 12: x2 ^= t3 *)
       WXor (WIn 3) (WTmp 9);                    (* 13: x3 ^= t4 *)
       WXor (WTmp 3) (WTmp 5);                   (* 14: x4 ^= t0 *)
       WXor (WTmp 11) (WTmp 10);                 (* 15: x1 ^= x0 *)
       WXor (WTmp 10) (WTmp 14);                 (* 16: x0 ^= x4 *)
       WXor (WTmp 13) (WTmp 12);                 (* 17: x3 ^= x2 *)
       WXor (WTmp 16) (WXor (WRotr 19 (WTmp 16)) (WRotr 28 (WTmp 16)));   (* 18 *)
       WXor (WTmp 15) (WXor (WRotr 61 (WTmp 15)) (WRotr 39 (WTmp 15)));   (* 19 *)
       WXor (WTmp 12) (WXor (WRotr 1 (WTmp 12)) (WRotr 6 (WTmp 12)));     (* 20 *)
       WXor (WTmp 17) (WXor (WRotr 10 (WTmp 17)) (WRotr 17 (WTmp 17)));   (* 21 *)
       WXor (WTmp 14) (WXor (WRotr 7 (WTmp 14)) (WRotr 41 (WTmp 14)));    (* 22 *)
       WNot (WTmp 20) ];                         (* 23: x2 = ~x2 (epilogue) *)
     p_outs := [WTmp 18; WTmp 19; WTmp 23; WTmp 21; WTmp 22] |}.

Example engine_selftest : forallb (fun k => check_equiv (layout_widths L64) (c64_body_selftest k) (spec_round_prog L64 k)) (seq 0 12) = true.
Proof. vm_compute. reflexivity. Qed.
