(* A deep embedding of the fragment of C in which src/core/ascon-hex.c is
   written, with an executable big-step interpreter.  tools/hexast.py prints
   the clang AST of the two functions as terms of [stmt] (coq/Gen/HexAst.v,
   regenerated from /repo's working tree on every run); coq/Obl/HexOblDefs.v + HexObl.v
   compares what the interpreter computes from those terms with the
   hand-written model Model/Hexm.v.

   Values are integers.  Every arithmetic node and every cast carries the C
   type clang assigned to it and the result is wrapped to that type, so the
   usual arithmetic conversions are those of the compiler front end, not
   re-implemented here.  Pointers are (array name, offset) pairs; a load or
   store outside the array makes the run [Stuck] (so an out-of-bounds access
   cannot agree with the model by accident). *)
From Coq Require Import ZArith List String Bool.
Import ListNotations.
Local Open Scope Z_scope.

Inductive ctype := Tchar | Tuchar | Tint | Tuint | Tulong.   (* char is signed on the targets considered *)

Definition wrap (t : ctype) (z : Z) : Z :=
  match t with
  | Tuchar => z mod 256
  | Tchar => (z + 128) mod 256 - 128
  | Tuint => z mod 4294967296
  | Tint => (z + 2147483648) mod 4294967296 - 2147483648
  | Tulong => z mod 18446744073709551616
  end.

Inductive binop := Oadd | Osub | Omul | Oshl | Oshr | Oband | Obor | Olt | Ole | Ogt | Oge | Oeq | One.

(* a pointer-valued expression: a pointer variable, an array (decayed), or c ? p : q *)
Inductive pexpr :=
| PVar (x : string)
| PCond (c : expr) (p q : pexpr)
with expr :=
| EConst (z : Z)
| EVar (x : string)                          (* value of a scalar variable *)
| ECast (t : ctype) (e : expr)               (* integral conversion to t *)
| EBin (t : ctype) (o : binop) (a b : expr)  (* result type t *)
| ENeg (t : ctype) (e : expr)
| EAnd (a b : expr) | EOr (a b : expr)       (* && and ||, short circuit, value 0/1 *)
| ECond (c a b : expr)
| EDerefPostInc (p : string)                 (* *p++  on a pointer variable *)
| EIndex (p : pexpr) (i : expr)              (* p[i] as a value *)
| EPostInc (t : ctype) (x : string).         (* x++ on a scalar of type t *)

Inductive stmt :=
| SSkip
| SSeq (a b : stmt)
| SDecl (t : ctype) (x : string) (e : expr)        (* t x = e; *)
| SDeclPtr (x : string) (p : pexpr)                (* T *x = p; *)
| SDeclTable (x : string) (cells : list Z)         (* static T const x[] = "..."; *)
| SAssign (t : ctype) (x : string) (e : expr)      (* x = e; x of type t *)
| SPreDec (t : ctype) (x : string)                 (* --x; *)
| SStore (p : pexpr) (i : expr) (e : expr)         (* p[i] = e; *)
| SIf (c : expr) (a b : stmt)
| SWhile (c : expr) (body : stmt)
| SContinue
| SReturn (e : expr).

Record env := mkenv {
  vars : list (string * Z);
  ptrs : list (string * (string * Z));
  arrs : list (string * list Z) }.

Fixpoint lookup {A} (l : list (string * A)) (x : string) : option A :=
  match l with
  | [] => None
  | (y, v) :: l' => if String.eqb x y then Some v else lookup l' x
  end.
Fixpoint update {A} (l : list (string * A)) (x : string) (v : A) : list (string * A) :=
  match l with
  | [] => [(x, v)]
  | (y, w) :: l' => if String.eqb x y then (x, v) :: l' else (y, w) :: update l' x v
  end.
Definition set_var (e : env) x v := mkenv (update (vars e) x v) (ptrs e) (arrs e).
Definition set_ptr (e : env) x p := mkenv (vars e) (update (ptrs e) x p) (arrs e).
Definition set_arr (e : env) x a := mkenv (vars e) (ptrs e) (update (arrs e) x a).

Fixpoint list_set (l : list Z) (i : nat) (v : Z) : option (list Z) :=
  match l, i with
  | [], _ => None
  | _ :: l', O => Some (v :: l')
  | y :: l', S i' => match list_set l' i' v with Some r => Some (y :: r) | None => None end
  end.

Definition load (e : env) (p : string * Z) : option Z :=
  let '(a, off) := p in
  if off <? 0 then None else
  match lookup (arrs e) a with
  | Some cells => nth_error cells (Z.to_nat off)
  | None => None
  end.
Definition store (e : env) (p : string * Z) (v : Z) : option env :=
  let '(a, off) := p in
  if off <? 0 then None else
  match lookup (arrs e) a with
  | Some cells => match list_set cells (Z.to_nat off) v with Some c' => Some (set_arr e a c') | None => None end
  | None => None
  end.

Definition b2z (b : bool) : Z := if b then 1 else 0.
Definition binop_eval (o : binop) (a b : Z) : Z :=
  match o with
  | Oadd => a + b | Osub => a - b | Omul => a * b
  | Oshl => Z.shiftl a b | Oshr => Z.shiftr a b | Oband => Z.land a b | Obor => Z.lor a b
  | Olt => b2z (a <? b) | Ole => b2z (a <=? b) | Ogt => b2z (b <? a) | Oge => b2z (b <=? a)
  | Oeq => b2z (a =? b) | One => b2z (negb (a =? b))
  end.

(* a pointer variable is in [ptrs]; an array name denotes (name, 0) *)
Fixpoint eval (e : env) (x : expr) {struct x} : option (Z * env) :=
  match x with
  | EConst z => Some (z, e)
  | EVar v => match lookup (vars e) v with Some z => Some (z, e) | None => None end
  | ECast t a => match eval e a with Some (z, e1) => Some (wrap t z, e1) | None => None end
  | EBin t o a b =>
    match eval e a with
    | Some (za, e1) => match eval e1 b with Some (zb, e2) => Some (wrap t (binop_eval o za zb), e2) | None => None end
    | None => None
    end
  | ENeg t a => match eval e a with Some (z, e1) => Some (wrap t (- z), e1) | None => None end
  | EAnd a b =>
    match eval e a with
    | Some (za, e1) => if za =? 0 then Some (0, e1)
                       else match eval e1 b with Some (zb, e2) => Some (b2z (negb (zb =? 0)), e2) | None => None end
    | None => None
    end
  | EOr a b =>
    match eval e a with
    | Some (za, e1) => if negb (za =? 0) then Some (1, e1)
                       else match eval e1 b with Some (zb, e2) => Some (b2z (negb (zb =? 0)), e2) | None => None end
    | None => None
    end
  | ECond c a b =>
    match eval e c with
    | Some (zc, e1) => if negb (zc =? 0) then eval e1 a else eval e1 b
    | None => None
    end
  | EDerefPostInc p =>
    match lookup (ptrs e) p with
    | Some (a, off) => match load e (a, off) with Some z => Some (z, set_ptr e p (a, off + 1)) | None => None end
    | None => None
    end
  | EIndex p i =>
    match peval e p with
    | Some ((a, off), e1) =>
      match eval e1 i with
      | Some (zi, e2) => match load e2 (a, off + zi) with Some z => Some (z, e2) | None => None end
      | None => None
      end
    | None => None
    end
  | EPostInc t v => match lookup (vars e) v with Some z => Some (z, set_var e v (wrap t (z + 1))) | None => None end
  end
with peval (e : env) (p : pexpr) {struct p} : option ((string * Z) * env) :=
  match p with
  | PVar x => match lookup (ptrs e) x with
              | Some q => Some (q, e)
              | None => match lookup (arrs e) x with Some _ => Some ((x, 0), e) | None => None end
              end
  | PCond c p1 p2 =>
    match eval e c with
    | Some (zc, e1) => if negb (zc =? 0) then peval e1 p1 else peval e1 p2
    | None => None
    end
  end.

Inductive outcome := ONormal (e : env) | OContinue (e : env) | OReturn (z : Z) (e : env) | OStuck.

Fixpoint exec (fuel : nat) (e : env) (s : stmt) {struct fuel} : outcome :=
  match fuel with
  | O => OStuck
  | S f =>
    match s with
    | SSkip => ONormal e
    | SSeq a b => match exec f e a with ONormal e1 => exec f e1 b | o => o end
    | SDecl t x a | SAssign t x a => match eval e a with Some (z, e1) => ONormal (set_var e1 x (wrap t z)) | None => OStuck end
    | SDeclPtr x p => match peval e p with Some (q, e1) => ONormal (set_ptr e1 x q) | None => OStuck end
    | SDeclTable x cells => ONormal (set_arr e x cells)
    | SPreDec t x => match lookup (vars e) x with Some z => ONormal (set_var e x (wrap t (z - 1))) | None => OStuck end
    | SStore p i a =>
      (* C leaves the order of the two sides open; neither side writes what the other reads in this file:
         index first (it carries the posn++), then the value *)
      match peval e p with
      | Some ((arr, off), e1) =>
        match eval e1 i with
        | Some (zi, e2) =>
          match eval e2 a with
          | Some (z, e3) => match store e3 (arr, off + zi) z with Some e4 => ONormal e4 | None => OStuck end
          | None => OStuck
          end
        | None => OStuck
        end
      | None => OStuck
      end
    | SIf c a b => match eval e c with
                   | Some (zc, e1) => if negb (zc =? 0) then exec f e1 a else exec f e1 b
                   | None => OStuck
                   end
    | SWhile c body =>
      match eval e c with
      | Some (zc, e1) =>
        if zc =? 0 then ONormal e1
        else match exec f e1 body with
             | ONormal e2 | OContinue e2 => exec f e2 (SWhile c body)
             | o => o
             end
      | None => OStuck
      end
    | SContinue => OContinue e
    | SReturn a => match eval e a with Some (z, e1) => OReturn z e1 | None => OStuck end
    end
  end.
