(* Kernel obligations: a translated permutation is a chain of segments with
   interfaces; each segment is checked reflectively against "T_out (rounds
   (T_in^-1 ..))" and the chain theorem composes them into
       run of the whole chain on memory = enc (rounds (dec memory)). *)
From Coq Require Import List PArith NArith Bool Arith Lia.
From AsconV Require Import Sym.BitPoly Sym.Wexpr Sym.Pipe Sym.PermW.
Import ListNotations.

Inductive klayout := KL64 | KL32 | KL8 | KL32BE.
(* KL64: uint64_t S[5] in host (little-endian) byte order; KL32: uint32_t W[10], W[2i] = even bits,
   W[2i+1] = odd bits of word i, host order; KL8: the canonical big-endian bytes;
   KL32BE: as KL32 on a big-endian host (m68k): each W[j] is stored most significant byte first *)

Definition mem_widths : list nat := repeat 8 40.
Definition int_widths (L : klayout) : list nat := match L with KL32 | KL32BE => repeat 32 10 | _ => repeat 64 5 end.

Fixpoint le_concat (bytes : list wexpr) : wexpr :=       (* first byte least significant *)
  match bytes with
  | [] => WConst 0 0
  | [b] => b
  | b :: rest => WConcat (le_concat rest) b
  end.

Definition dec_prog (L : klayout) : prog :=
  let ins := in_exprs 40 in
  {| p_body := [];
     p_outs := match L with
               | KL64 => map (fun i => le_concat (firstn 8 (skipn (8 * i) ins))) (seq 0 5)
               | KL8 => map (fun i => be_concat (firstn 8 (skipn (8 * i) ins))) (seq 0 5)
               | KL32 => map (fun j => le_concat (firstn 4 (skipn (4 * j) ins))) (seq 0 10)
               | KL32BE => map (fun j => be_concat (firstn 4 (skipn (4 * j) ins))) (seq 0 10)
               end |}.
Definition enc_prog (L : klayout) : prog :=
  {| p_body := [];
     p_outs := match L with
               | KL64 => flat_map (fun i => map (fun k => WTrunc 8 (WShr (8 * k) (WIn i))) (seq 0 8)) (seq 0 5)
               | KL8 => flat_map (fun i => map (fun k => WTrunc 8 (WShr (8 * (7 - k)) (WIn i))) (seq 0 8)) (seq 0 5)
               | KL32 => flat_map (fun j => map (fun k => WTrunc 8 (WShr (8 * k) (WIn j))) (seq 0 4)) (seq 0 10)
               | KL32BE => flat_map (fun j => map (fun k => WTrunc 8 (WShr (8 * (3 - k)) (WIn j))) (seq 0 4)) (seq 0 10)
               end |}.
Definition round_prog (L : klayout) (j : nat) : prog :=
  {| p_body := [];
     p_outs := match L with
               | KL32 | KL32BE => flat_map (fun e => [WEven e; WOdd e])
                           (round_exprs (rcw j) (map (fun i => WInterleave (WIn (2 * i)) (WIn (2 * i + 1))) (seq 0 5)))
               | _ => round_exprs (rcw j) (in_exprs 5)
               end |}.
Definition T_prog (T : list (nat * bool)) : prog :=
  {| p_body := []; p_outs := map (fun p : nat * bool => if snd p then WNot (WIn (fst p)) else WIn (fst p)) T |}.

Inductive iface := IMem (others : list nat) | IVars (T : list (nat * bool)) (others : list nat).
(* IMem o: the 40 state bytes, then other words (e.g. the registers on entry of an assembly function) *)
Record seg := { s_prog : prog; s_in : iface; s_out : iface; s_rounds : list nat }.

Definition rounds_pipe (L : klayout) (js : list nat) : pipe :=
  fold_right (fun j acc => PSeq (PRun (round_prog L j)) acc) PId js.

Definition nint (L : klayout) : nat := length (int_widths L).

Definition sym_widths (L : klayout) (i : iface) : list nat :=
  match i with IMem o => mem_widths ++ o | IVars _ o => int_widths L ++ o end.
Definition act_widths (L : klayout) (i : iface) : list nat :=
  match i with IMem o => mem_widths ++ o | IVars T o => map (fun p : nat * bool => nth (fst p) (int_widths L) 0) T ++ o end.
Definition nrel (i : iface) : nat := match i with IMem _ => 40 | IVars T _ => length T end.

Definition prep_in (L : klayout) (i : iface) : pipe :=
  match i with
  | IMem _ => PId
  | IVars T _ => PPar (PSeq (PFirst (nint L)) (PRun (T_prog T))) (PSkip (nint L))
  end.
Definition to_int (L : klayout) (i : iface) : pipe :=
  match i with IMem _ => PSeq (PFirst 40) (PRun (dec_prog L)) | IVars _ _ => PFirst (nint L) end.
Definition from_int (L : klayout) (i : iface) : pipe :=
  match i with IMem _ => PRun (enc_prog L) | IVars T _ => PRun (T_prog T) end.

Definition seg_lhs (L : klayout) (s : seg) : pipe := PSeq (prep_in L (s_in s)) (PRun (s_prog s)).
Definition seg_rhs (L : klayout) (s : seg) : pipe :=
  PSeq (to_int L (s_in s)) (PSeq (rounds_pipe L (s_rounds s)) (from_int L (s_out s))).

Definition check_seg (L : klayout) (s : seg) : bool :=
  check_pipes (sym_widths L (s_in s)) (PSeq (seg_lhs L s) (PFirst (nrel (s_out s)))) (seg_rhs L s) &&
  nat_list_eqb (out_widths (sym_widths L (s_in s)) (seg_lhs L s)) (act_widths L (s_out s)) &&
  forallb (fun j => j <? 12) (s_rounds s).

(* structural well-formedness of T lists: indices in range *)
Definition T_ok (L : klayout) (i : iface) : bool :=
  match i with IMem _ => true | IVars T _ => forallb (fun p : nat * bool => fst p <? nint L) T end.

Definition iface_eqb (a b : iface) : bool :=
  match a, b with
  | IMem o, IMem o' => nat_list_eqb o o'
  | IVars T o, IVars T' o' =>
    nat_list_eqb (map fst T) (map fst T') && nat_list_eqb (map (fun p : nat * bool => if snd p then 1 else 0) T) (map (fun p : nat * bool => if snd p then 1 else 0) T')
    && nat_list_eqb o o'
  | _, _ => false
  end.

Lemma iface_eqb_eq a b : iface_eqb a b = true -> a = b.
Proof.
  destruct a as [o|T o], b as [o'|T' o']; cbn; try discriminate; [intros H; apply nat_list_eqb_eq in H; now subst|].
  intros H. apply andb_true_iff in H. destruct H as [H H3]. apply andb_true_iff in H. destruct H as [H1 H2].
  apply nat_list_eqb_eq in H1, H2, H3. subst o'. f_equal.
  revert T' H1 H2. induction T as [|[k b] T IH]; intros T' H1 H2; destruct T' as [|[k' b'] T']; try discriminate; [reflexivity|].
  cbn in H1, H2. inversion H1; inversion H2; subst. f_equal; [|now apply IH].
  f_equal. destruct b, b'; cbn in *; congruence.
Qed.

(* a chain: consecutive interfaces agree, starts and ends in memory *)
Fixpoint links (cur : iface) (segs : list seg) : bool :=
  match segs with
  | [] => match cur with IMem [] => true | _ => false end
  | s :: rest => iface_eqb cur (s_in s) && links (s_out s) rest
  end.

Definition check_struct (L : klayout) (segs : list seg) : bool :=
  (match segs with s :: _ => match s_in s with IMem _ => true | _ => false end | [] => false end) &&
  links (match segs with s :: _ => s_in s | [] => IMem [] end) segs && forallb (fun s => T_ok L (s_in s) && T_ok L (s_out s)) segs &&
  negb (match segs with [] => true | _ => false end).
Definition check_chain (L : klayout) (segs : list seg) : bool :=
  forallb (check_seg L) segs && check_struct L segs.

Definition run_chain (segs : list seg) (v : list (list bool)) : list (list bool) :=
  fold_left (fun v s => run BoolAlg v (s_prog s)) segs v.

Definition chain_spec (L : klayout) (js : list nat) : pipe :=
  PSeq (PRun (dec_prog L)) (PSeq (rounds_pipe L js) (PRun (enc_prog L))).
