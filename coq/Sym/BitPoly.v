(* Boolean polynomials in algebraic normal form over symbolic input bits, and
   the homomorphism lemmas of the reflective checker.  Soundness needs
   neither sortedness nor fuel adequacy: the merge functions fall back to
   concatenation when fuel runs out, and equal heads are cancelled only when
   they are syntactically equal. *)
From Coq Require Import List PArith NArith Bool Lia.
Import ListNotations.

Definition mono := list positive.          (* product of variables; [] = 1 *)
Definition poly := list mono.              (* xor of monomials; [] = 0 *)

Definition valuation := positive -> bool.
Definition meval (rho : valuation) (m : mono) : bool := forallb rho m.
Fixpoint peval (rho : valuation) (p : poly) : bool :=
  match p with [] => false | m :: p' => xorb (meval rho m) (peval rho p') end.

Fixpoint mono_eqb (a b : mono) : bool :=
  match a, b with
  | [], [] => true
  | x :: a', y :: b' => Pos.eqb x y && mono_eqb a' b'
  | _, _ => false
  end.

Fixpoint mcompare (a b : mono) : comparison :=
  match a, b with
  | [], [] => Eq
  | [], _ => Lt
  | _, [] => Gt
  | x :: a', y :: b' => match Pos.compare x y with Eq => mcompare a' b' | c => c end
  end.

(* monomial product: sorted union *)
Fixpoint munion_fuel (fuel : nat) (a b : mono) : mono :=
  match fuel with
  | O => a ++ b
  | S f =>
    match a, b with
    | [], _ => b
    | _, [] => a
    | x :: a', y :: b' =>
      match Pos.compare x y with
      | Eq => x :: munion_fuel f a' b'
      | Lt => x :: munion_fuel f a' b
      | Gt => y :: munion_fuel f a b'
      end
    end
  end.
Definition munion (a b : mono) : mono := munion_fuel (length a + length b) a b.

(* polynomial sum: sorted merge with cancellation *)
Fixpoint pxor_fuel (fuel : nat) (p q : poly) : poly :=
  match fuel with
  | O => p ++ q
  | S f =>
    match p, q with
    | [], _ => q
    | _, [] => p
    | m :: p', n :: q' =>
      match mcompare m n with
      | Eq => if mono_eqb m n then pxor_fuel f p' q' else m :: n :: pxor_fuel f p' q'
      | Lt => m :: pxor_fuel f p' q
      | Gt => n :: pxor_fuel f p q'
      end
    end
  end.
Definition pxor (p q : poly) : poly := pxor_fuel (length p + length q) p q.

(* product of a monomial with a polynomial, re-normalised by insertion *)
Definition pmul_mono (m : mono) (q : poly) : poly :=
  fold_left (fun acc n => pxor acc [munion m n]) q [].
Definition pand (p q : poly) : poly :=
  fold_left (fun acc m => pxor acc (pmul_mono m q)) p [].
Definition pone : poly := [[]].
Definition pzero : poly := [].
Definition pnot (p : poly) : poly := pxor p pone.
Definition por (p q : poly) : poly := pxor (pxor p q) (pand p q).
Definition pvar (x : positive) : poly := [[x]].

Fixpoint poly_eqb (p q : poly) : bool :=
  match p, q with
  | [], [] => true
  | m :: p', n :: q' => mono_eqb m n && poly_eqb p' q'
  | _, _ => false
  end.

(* ---- soundness ---------------------------------------------------------------------- *)

Lemma mono_eqb_eq a b : mono_eqb a b = true -> a = b.
Proof.
  revert b; induction a as [|x a IH]; intros b H; destruct b as [|y b]; try discriminate; [reflexivity|].
  cbn in H. apply andb_true_iff in H. destruct H as [H1 H2]. apply Pos.eqb_eq in H1. subst. f_equal. now apply IH.
Qed.

Lemma poly_eqb_eq p q : poly_eqb p q = true -> p = q.
Proof.
  revert q; induction p as [|m p IH]; intros q H; destruct q as [|n q]; try discriminate; [reflexivity|].
  cbn in H. apply andb_true_iff in H. destruct H as [H1 H2]. apply mono_eqb_eq in H1. subst. f_equal. now apply IH.
Qed.

Lemma meval_app rho a b : meval rho (a ++ b) = meval rho a && meval rho b.
Proof. unfold meval. apply forallb_app. Qed.

Lemma meval_munion_fuel rho fuel : forall a b, meval rho (munion_fuel fuel a b) = meval rho a && meval rho b.
Proof.
  induction fuel as [|f IH]; intros a b; [apply meval_app|].
  cbn [munion_fuel]. destruct a as [|x a]; [reflexivity|]. destruct b as [|y b]; [now rewrite andb_true_r|].
  destruct (Pos.compare_spec x y) as [e|l|g]; cbn [meval forallb]; fold (meval rho).
  - subst y. rewrite IH. destruct (rho x); cbn; [reflexivity|]. reflexivity.
  - rewrite IH. cbn [meval forallb]. fold (meval rho). now rewrite andb_assoc.
  - rewrite IH. cbn [meval forallb]. fold (meval rho).
    destruct (rho y); destruct (rho x); cbn; try reflexivity; now rewrite ?andb_false_r.
Qed.
Lemma meval_munion rho a b : meval rho (munion a b) = meval rho a && meval rho b.
Proof. apply meval_munion_fuel. Qed.

Lemma peval_app rho p q : peval rho (p ++ q) = xorb (peval rho p) (peval rho q).
Proof.
  induction p as [|m p IH]; [cbn [app peval]; now rewrite xorb_false_l|].
  cbn [app peval]. rewrite IH. now rewrite xorb_assoc.
Qed.

Lemma peval_pxor_fuel rho fuel : forall p q, peval rho (pxor_fuel fuel p q) = xorb (peval rho p) (peval rho q).
Proof.
  induction fuel as [|f IH]; intros p q; [apply peval_app|].
  cbn [pxor_fuel]. destruct p as [|m p]; [cbn [peval]; now rewrite xorb_false_l|].
  destruct q as [|n q]; [cbn [peval]; now rewrite xorb_false_r|].
  destruct (mcompare m n).
  - destruct (mono_eqb m n) eqn:E.
    + apply mono_eqb_eq in E. subst n. rewrite IH. cbn [peval].
      destruct (meval rho m); destruct (peval rho p); destruct (peval rho q); reflexivity.
    + cbn [peval]. rewrite IH.
      destruct (meval rho m); destruct (meval rho n); destruct (peval rho p); destruct (peval rho q); reflexivity.
  - cbn [peval]. rewrite IH. cbn [peval].
    destruct (meval rho m); destruct (meval rho n); destruct (peval rho p); destruct (peval rho q); reflexivity.
  - cbn [peval]. rewrite IH. cbn [peval].
    destruct (meval rho m); destruct (meval rho n); destruct (peval rho p); destruct (peval rho q); reflexivity.
Qed.
Lemma peval_pxor rho p q : peval rho (pxor p q) = xorb (peval rho p) (peval rho q).
Proof. apply peval_pxor_fuel. Qed.

Lemma peval_pmul_mono rho m q : peval rho (pmul_mono m q) = meval rho m && peval rho q.
Proof.
  unfold pmul_mono.
  assert (G : forall acc, peval rho (fold_left (fun acc n => pxor acc [munion m n]) q acc) =
                          xorb (peval rho acc) (meval rho m && peval rho q)).
  { induction q as [|n q IH]; intros acc; cbn [fold_left].
    - cbn. now rewrite andb_false_r, xorb_false_r.
    - rewrite IH, peval_pxor. cbn [peval]. rewrite meval_munion.
      destruct (meval rho m); destruct (meval rho n); destruct (peval rho acc); destruct (peval rho q); reflexivity. }
  rewrite G. cbn. now destruct (meval rho m && peval rho q).
Qed.

Lemma peval_pand rho p q : peval rho (pand p q) = peval rho p && peval rho q.
Proof.
  unfold pand.
  assert (G : forall acc, peval rho (fold_left (fun acc m => pxor acc (pmul_mono m q)) p acc) =
                          xorb (peval rho acc) (peval rho p && peval rho q)).
  { induction p as [|m p IH]; intros acc; cbn [fold_left].
    - cbn. now rewrite xorb_false_r.
    - rewrite IH, peval_pxor, peval_pmul_mono. cbn [peval].
      destruct (meval rho m); destruct (peval rho acc); destruct (peval rho p); destruct (peval rho q); reflexivity. }
  rewrite G. cbn. now destruct (peval rho p && peval rho q).
Qed.

Lemma peval_pnot rho p : peval rho (pnot p) = negb (peval rho p).
Proof. unfold pnot. rewrite peval_pxor. cbn. now destruct (peval rho p). Qed.

Lemma peval_por rho p q : peval rho (por p q) = peval rho p || peval rho q.
Proof. unfold por. rewrite !peval_pxor, peval_pand. destruct (peval rho p); destruct (peval rho q); reflexivity. Qed.

Lemma peval_pvar rho x : peval rho (pvar x) = rho x.
Proof. cbn. now destruct (rho x). Qed.
Lemma peval_pone rho : peval rho pone = true. Proof. reflexivity. Qed.
Lemma peval_pzero rho : peval rho pzero = false. Proof. reflexivity. Qed.
