(* The bridge between the two specifications of the ASCON permutation used in this development:
   - the word-level one of the kernel theorems (Sym/): programs over bit lists (least significant
     bit first), chain_spec KL8 js = decode big-endian ; rounds js ; encode big-endian;
   - Spec.Perm.perm on 40 canonical big-endian bytes held as N, over which every mode-level
     theorem is stated.
   bridge_perm: on every 40-byte state they are the same function (bytes seen as 8-bit words). *)
From Coq Require Import List NArith Arith Lia Bool.
From AsconV Require Import Sym.BitPoly Sym.Wexpr Sym.Pipe Sym.PermW Sym.Kernel.
From AsconV Require Spec.Perm.
Import ListNotations.

Definition bits (w : nat) (x : N) : list bool := map (fun i => N.testbit x (N.of_nat i)) (seq 0 w).

(* ---- lists ------------------------------------------------------------------------------ *)

Lemma nth_map_seq_from {A : Type} (f : nat -> A) (d : A) : forall w s i, i < w -> nth i (map f (seq s w)) d = f (s + i).
Proof.
  induction w as [|w IH]; intros s i H; [lia|].
  cbn [seq map]. destruct i as [|i]; cbn [nth]; [now rewrite Nat.add_0_r|].
  rewrite IH by lia. f_equal. lia.
Qed.

Lemma nth_skipn' {A : Type} (d : A) : forall k l i, nth i (skipn k l) d = nth (k + i) l d.
Proof.
  induction k as [|k IH]; intros l i; [reflexivity|].
  destruct l as [|x l]; cbn [skipn Nat.add nth]; [now destruct i|]. apply IH.
Qed.

Lemma nth_firstn' {A : Type} (d : A) : forall k l i, i < k -> nth i (firstn k l) d = nth i l d.
Proof.
  induction k as [|k IH]; intros l i H; [lia|].
  destruct l as [|x l]; cbn [firstn]; [reflexivity|]. destruct i as [|i]; cbn [nth]; [reflexivity|]. apply IH. lia.
Qed.

Lemma Forall_firstn' {A : Type} (P : A -> Prop) : forall n l, Forall P l -> Forall P (firstn n l).
Proof.
  induction n as [|n IH]; intros l H; [constructor|].
  destruct H as [|x l Hx Hl]; cbn [firstn]; constructor; [exact Hx|]. now apply IH.
Qed.

Lemma Forall_skipn' {A : Type} (P : A -> Prop) : forall n l, Forall P l -> Forall P (skipn n l).
Proof.
  induction n as [|n IH]; intros l H; [exact H|].
  destruct H as [|x l Hx Hl]; cbn [skipn]; [constructor|]. now apply IH.
Qed.

(* ---- bits -------------------------------------------------------------------------------- *)

Lemma bits_length w x : length (bits w x) = w.
Proof. unfold bits. now rewrite map_length, seq_length. Qed.

Lemma nth_bits w x i : i < w -> nth i (bits w x) false = N.testbit x (N.of_nat i).
Proof. intros H. unfold bits. now rewrite nth_map_seq_from by exact H. Qed.

Lemma bits_eq w x l : length l = w -> (forall i, i < w -> nth i l false = N.testbit x (N.of_nat i)) -> l = bits w x.
Proof.
  intros HL H. apply (nth_ext _ _ false false); [now rewrite bits_length|].
  intros i Hi. rewrite nth_bits by lia. apply H. lia.
Qed.

Lemma bits_S w x : bits (S w) x = N.odd x :: bits w (N.div2 x).
Proof.
  unfold bits. cbn [seq map]. f_equal; [apply N.bit0_odd|].
  rewrite <- seq_shift, map_map. apply map_ext. intros i.
  rewrite Nat2N.inj_succ. apply N.testbit_succ_r_div2. apply N.le_0_l.
Qed.

Lemma const_bits_bits w : forall n, const_bits BoolAlg w n = bits w n.
Proof.
  induction w as [|w IH]; intros n; [reflexivity|].
  rewrite bits_S. cbn [const_bits b1 b0 BoolAlg]. rewrite IH. now destruct (N.odd n).
Qed.

Lemma map2_map (f : bool -> bool -> bool) (g h : nat -> bool) l :
  map2 BoolAlg f (map g l) (map h l) = map (fun i => f (g i) (h i)) l.
Proof. induction l as [|a l IH]; [reflexivity|]. cbn [map map2]. now rewrite IH. Qed.

Lemma bits_lxor w a b : map2 BoolAlg xorb (bits w a) (bits w b) = bits w (N.lxor a b).
Proof. unfold bits. rewrite map2_map. apply map_ext. intros i. now rewrite N.lxor_spec. Qed.

Lemma bits_land w a b : map2 BoolAlg andb (bits w a) (bits w b) = bits w (N.land a b).
Proof. unfold bits. rewrite map2_map. apply map_ext. intros i. now rewrite N.land_spec. Qed.

Lemma mask64_ones : Perm.mask64 = N.ones 64. Proof. reflexivity. Qed.

Lemma bits_not64 x : map negb (bits 64 x) = bits 64 (Perm.not64 x).
Proof.
  unfold bits, Perm.not64. rewrite map_map. apply map_ext_in. intros i Hi. apply in_seq in Hi.
  rewrite N.lxor_spec, mask64_ones, N.ones_spec_low by lia. now rewrite xorb_true_r.
Qed.

(* ---- magnitudes ---------------------------------------------------------------------------- *)

Definition lt64 (x : N) : Prop := (x < 2 ^ 64)%N.

Lemma testbit_high x n m : (x < 2 ^ n)%N -> (n <= m)%N -> N.testbit x m = false.
Proof.
  intros H Hm. destruct (N.eq_dec x 0) as [E|E]; [rewrite E; apply N.bits_0|].
  apply N.bits_above_log2. apply N.log2_lt_pow2 in H; lia.
Qed.

Lemma lt_pow2_of_bits x n : (forall m, (n <= m)%N -> N.testbit x m = false) -> (x < 2 ^ n)%N.
Proof.
  intros H. assert (E : x = (x mod 2 ^ n)%N).
  { apply N.bits_inj. intros m. destruct (N.lt_ge_cases m n) as [L|G].
    - now rewrite N.mod_pow2_bits_low by exact L.
    - rewrite N.mod_pow2_bits_high by exact G. now apply H. }
  rewrite E. apply N.mod_lt. apply N.pow_nonzero. discriminate.
Qed.

Lemma lxor_lt n a b : (a < 2 ^ n)%N -> (b < 2 ^ n)%N -> (N.lxor a b < 2 ^ n)%N.
Proof.
  intros Ha Hb. apply lt_pow2_of_bits. intros m Hm.
  now rewrite N.lxor_spec, (testbit_high a n m Ha Hm), (testbit_high b n m Hb Hm).
Qed.

Lemma land_lt n a b : (a < 2 ^ n)%N -> (N.land a b < 2 ^ n)%N.
Proof.
  intros Ha. apply lt_pow2_of_bits. intros m Hm.
  now rewrite N.land_spec, (testbit_high a n m Ha Hm).
Qed.

Lemma mask64_lt : lt64 Perm.mask64. Proof. reflexivity. Qed.

Lemma not64_lt x : lt64 x -> lt64 (Perm.not64 x).
Proof. intros H. apply lxor_lt; [exact H | exact mask64_lt]. Qed.

Lemma rotr64_lt x k : lt64 x -> lt64 (Perm.rotr64 x k).
Proof.
  intros H. apply lt_pow2_of_bits. intros m Hm. unfold Perm.rotr64.
  rewrite N.lor_spec, N.shiftr_spec', N.land_spec, mask64_ones, N.ones_spec_high by exact Hm.
  rewrite (testbit_high x 64 (m + k) H) by lia. now rewrite andb_false_r.
Qed.

Lemma bits_rotr64 x k : lt64 x -> k < 64 ->
  skipn k (bits 64 x) ++ firstn k (bits 64 x) = bits 64 (Perm.rotr64 x (N.of_nat k)).
Proof.
  intros Hx Hk. apply bits_eq.
  - rewrite app_length, skipn_length, firstn_length, bits_length. lia.
  - intros i Hi. unfold Perm.rotr64. rewrite N.lor_spec, N.shiftr_spec', N.land_spec, mask64_ones.
    rewrite (N.ones_spec_low 64 (N.of_nat i)) by lia. rewrite andb_true_r.
    destruct (lt_dec i (64 - k)) as [L|G].
    + rewrite app_nth1 by (rewrite skipn_length, bits_length; exact L).
      rewrite nth_skipn', nth_bits by lia.
      rewrite N.shiftl_spec_low by lia. rewrite orb_false_r. f_equal. lia.
    + rewrite app_nth2 by (rewrite skipn_length, bits_length; lia).
      rewrite skipn_length, bits_length. rewrite nth_firstn' by lia. rewrite nth_bits by lia.
      rewrite (testbit_high x 64 (N.of_nat i + N.of_nat k) Hx) by lia.
      rewrite N.shiftl_spec_high' by lia. cbn [orb]. f_equal. lia.
Qed.

(* ---- the round: word expressions of the fragment used by round_exprs, read over N ---------- *)

Fixpoint neval (xs : list N) (e : wexpr) : N :=
  match e with
  | WIn i => nth i xs 0%N
  | WConst _ c => c
  | WNot a => Perm.not64 (neval xs a)
  | WXor a b => N.lxor (neval xs a) (neval xs b)
  | WAnd a b => N.land (neval xs a) (neval xs b)
  | WRotr k a => Perm.rotr64 (neval xs a) (N.of_nat k)
  | _ => 0%N
  end.

Fixpoint wf (n : nat) (e : wexpr) : Prop :=
  match e with
  | WIn i => i < n
  | WConst w c => w = 64 /\ lt64 c
  | WNot a => wf n a
  | WXor a b => wf n a /\ wf n b
  | WAnd a b => wf n a /\ wf n b
  | WRotr k a => k < 64 /\ wf n a
  | _ => False
  end.

Lemma nth_lt64 xs i : Forall lt64 xs -> lt64 (nth i xs 0%N).
Proof.
  intros H. revert i. induction H as [|x xs Hx Hxs IH]; intros i; destruct i; cbn [nth].
  - reflexivity.
  - reflexivity.
  - exact Hx.
  - apply IH.
Qed.

Lemma neval_lt xs e : Forall lt64 xs -> wf (length xs) e -> lt64 (neval xs e).
Proof.
  intros Hxs. induction e; cbn [wf neval]; intros W; try contradiction.
  - now apply nth_lt64.
  - apply W.
  - apply not64_lt. now apply IHe.
  - destruct W as [W1 W2]. apply lxor_lt; [now apply IHe1 | now apply IHe2].
  - destruct W as [W1 W2]. apply land_lt. now apply IHe1.
  - destruct W as [W1 W2]. apply rotr64_lt. now apply IHe.
Qed.

Lemma eval_neval xs e : Forall lt64 xs -> wf (length xs) e ->
  eval BoolAlg (map (bits 64) xs) [] e = bits 64 (neval xs e).
Proof.
  intros Hxs. induction e; cbn [wf neval eval bxor band bnot BoolAlg]; intros W; try contradiction.
  - rewrite (nth_indep _ [] (bits 64 0)) by (now rewrite map_length). apply map_nth.
  - destruct W as [W1 W2]. subst w. apply const_bits_bits.
  - rewrite IHe by exact W. apply bits_not64.
  - destruct W as [W1 W2]. rewrite IHe1, IHe2 by assumption. apply bits_lxor.
  - destruct W as [W1 W2]. rewrite IHe1, IHe2 by assumption. apply bits_land.
  - destruct W as [W1 W2]. rewrite IHe by exact W2. apply bits_rotr64; [now apply neval_lt | exact W1].
Qed.

Definition wlist (w : Perm.words) : list N := let '(x0, x1, x2, x3, x4) := w in [x0; x1; x2; x3; x4].
Definition wbits (w : Perm.words) : list (list bool) := map (bits 64) (wlist w).
Definition wok (w : Perm.words) : Prop := Forall lt64 (wlist w).

Lemma round_neval c x0 x1 x2 x3 x4 :
  map (neval [x0; x1; x2; x3; x4]) (round_exprs c (in_exprs 5)) = wlist (Perm.round c (x0, x1, x2, x3, x4)).
Proof. reflexivity. Qed.

Lemma round_wf c : lt64 c -> Forall (wf 5) (round_exprs c (in_exprs 5)).
Proof.
  intros Hc. cbv [round_exprs in_exprs map seq].
  repeat (apply Forall_cons || apply Forall_nil); cbn [wf]; repeat split; try lia; exact Hc.
Qed.

Lemma rc_lt64 j : j < 12 -> lt64 (Perm.rc j).
Proof. intros H. do 12 (destruct j as [|j]; [reflexivity|]). lia. Qed.

Lemma rcw_rc j : rcw j = Perm.rc j. Proof. reflexivity. Qed.

Lemma round_bridge j w : j < 12 -> wok w ->
  run BoolAlg (wbits w) (round_prog KL8 j) = wbits (Perm.round (Perm.rc j) w) /\ wok (Perm.round (Perm.rc j) w).
Proof.
  intros Hj Hw. destruct w as [[[[x0 x1] x2] x3] x4].
  pose proof (round_neval (rcw j) x0 x1 x2 x3 x4) as E. rewrite rcw_rc in E.
  assert (W : Forall (wf 5) (round_exprs (Perm.rc j) (in_exprs 5))) by (apply round_wf; now apply rc_lt64).
  unfold wbits, wok in *. rewrite <- E. cbn [wlist] in *. clear E. split.
  - unfold run, round_prog. cbn [p_body p_outs run_body fold_left]. rewrite rcw_rc.
    rewrite map_map. apply map_ext_in. intros e He. rewrite Forall_forall in W.
    apply eval_neval; [exact Hw | exact (W e He)].
  - apply Forall_forall. intros y Hy. apply in_map_iff in Hy. destruct Hy as [e [Ey He]]. subst y.
    rewrite Forall_forall in W. apply neval_lt; [exact Hw | exact (W e He)].
Qed.

Lemma rounds_bridge js : Forall (fun j => j < 12) js -> forall w, wok w ->
  pexec BoolAlg (rounds_pipe KL8 js) (wbits w) = wbits (fold_left (fun w i => Perm.round (Perm.rc i) w) js w) /\
  wok (fold_left (fun w i => Perm.round (Perm.rc i) w) js w).
Proof.
  induction 1 as [|j js Hj Hjs IH]; intros w Hw; [split; [reflexivity | exact Hw]|].
  cbn [rounds_pipe fold_right pexec fold_left]. fold (rounds_pipe KL8 js).
  destruct (round_bridge j w Hj Hw) as [E K]. rewrite E. now apply IH.
Qed.

(* ---- decoding: 8 big-endian bytes -> one 64-bit word --------------------------------------- *)

Lemma bits_add n w a b : (b < 2 ^ N.of_nat n)%N ->
  bits (n + w) (a * 2 ^ N.of_nat n + b) = bits n b ++ bits w a.
Proof.
  intros Hb. symmetry. apply bits_eq; [now rewrite app_length, !bits_length|].
  assert (P : (2 ^ N.of_nat n)%N <> 0%N) by (apply N.pow_nonzero; discriminate).
  intros i Hi. destruct (lt_dec i n) as [L|G].
  - rewrite app_nth1 by (now rewrite bits_length). rewrite nth_bits by exact L.
    rewrite <- (N.mod_pow2_bits_low (a * 2 ^ N.of_nat n + b) (N.of_nat n) (N.of_nat i)) by lia.
    rewrite N.add_comm, N.mod_add by exact P. now rewrite N.mod_small by exact Hb.
  - rewrite app_nth2 by (rewrite bits_length; lia). rewrite bits_length, nth_bits by lia.
    replace (N.of_nat i) with (N.of_nat (i - n) + N.of_nat n)%N by lia.
    rewrite <- N.div_pow2_bits. rewrite N.div_add_l by exact P. rewrite N.div_small by exact Hb.
    now rewrite N.add_0_r.
Qed.

Lemma bits_add8 w a b : (b < 256)%N -> bits (8 + w) (a * 256 + b) = bits 8 b ++ bits w a.
Proof. intros H. exact (bits_add 8 w a b H). Qed.

Lemma fold_be_bits l : forall w acc, Forall (fun b => (b < 256)%N) l ->
  bits (8 * length l + w) (fold_left (fun acc b => (acc * 256 + b)%N) l acc) = concat (rev (map (bits 8) l)) ++ bits w acc.
Proof.
  induction l as [|b l IH]; intros w acc H; [reflexivity|].
  apply Forall_cons_iff in H. destruct H as [Hb Hl].
  cbn [fold_left length map rev]. replace (8 * S (length l) + w) with (8 * length l + (8 + w)) by lia.
  rewrite IH by exact Hl. rewrite bits_add8 by exact Hb.
  rewrite concat_app. cbn [concat]. now rewrite app_nil_r, app_assoc.
Qed.

Lemma fold_be_lt l : forall w acc, Forall (fun b => (b < 256)%N) l -> (acc < 2 ^ N.of_nat w)%N ->
  (fold_left (fun acc b => (acc * 256 + b)%N) l acc < 2 ^ N.of_nat (8 * length l + w))%N.
Proof.
  induction l as [|b l IH]; intros w acc H Ha; [exact Ha|].
  apply Forall_cons_iff in H. destruct H as [Hb Hl].
  cbn [fold_left length]. replace (8 * S (length l) + w) with (8 * length l + (8 + w)) by lia.
  apply IH; [exact Hl|].
  replace (N.of_nat (8 + w)) with (8 + N.of_nat w)%N by lia. rewrite N.pow_add_r.
  change (2 ^ 8)%N with 256%N. set (P := (2 ^ N.of_nat w)%N) in *. lia.
Qed.

Lemma be_decode_bits64 l : length l = 8 -> Forall (fun b => (b < 256)%N) l ->
  bits 64 (Bytes.be_decode l) = concat (rev (map (bits 8) l)).
Proof.
  intros HL H. pose proof (fold_be_bits l 0 0%N H) as E. rewrite HL in E.
  change (8 * 8 + 0) with 64 in E. change (bits 0 0) with (@nil bool) in E. rewrite app_nil_r in E. exact E.
Qed.

Lemma be_decode_lt64 l : length l = 8 -> Forall (fun b => (b < 256)%N) l -> lt64 (Bytes.be_decode l).
Proof.
  intros HL H. pose proof (fold_be_lt l 0 0%N H) as E. rewrite HL in E. apply E. reflexivity.
Qed.

Lemma get_at_ok s o : length s = 40 -> o + 8 <= 40 -> Forall (fun b => (b < 256)%N) s ->
  length (Bytes.get_at s o 8) = 8 /\ Forall (fun b => (b < 256)%N) (Bytes.get_at s o 8).
Proof.
  intros HL Ho H. unfold Bytes.get_at. split.
  - rewrite firstn_length, skipn_length. lia.
  - apply Forall_firstn'. now apply Forall_skipn'.
Qed.

Lemma dec_bridge s : length s = 40 -> Forall (fun b => (b < 256)%N) s ->
  run BoolAlg (map (bits 8) s) (dec_prog KL8) = wbits (Perm.words_of_bytes s) /\ wok (Perm.words_of_bytes s).
Proof.
  intros HL H.
  destruct (get_at_ok s 0 HL ltac:(lia) H) as [L0 F0]. destruct (get_at_ok s 8 HL ltac:(lia) H) as [L1 F1].
  destruct (get_at_ok s 16 HL ltac:(lia) H) as [L2 F2]. destruct (get_at_ok s 24 HL ltac:(lia) H) as [L3 F3].
  destruct (get_at_ok s 32 HL ltac:(lia) H) as [L4 F4].
  split.
  - unfold wbits, Perm.words_of_bytes. cbn [wlist map].
    rewrite !be_decode_bits64 by assumption. clear L0 F0 L1 F1 L2 F2 L3 F3 L4 F4 H.
    do 40 (destruct s as [|? s]; [discriminate HL|]). destruct s as [|? s]; [|discriminate HL]. clear HL.
    unfold run, dec_prog. cbn [p_body p_outs run_body fold_left].
    cbn [Bytes.get_at firstn skipn map rev app concat].
    cbn [map seq in_exprs firstn skipn Nat.mul Nat.add be_concat eval nth].
    rewrite ?app_nil_r, <- ?app_assoc. reflexivity.
  - unfold wok, Perm.words_of_bytes. cbn [wlist].
    repeat (apply Forall_cons || apply Forall_nil); now apply be_decode_lt64.
Qed.

(* ---- encoding: one 64-bit word -> 8 big-endian bytes --------------------------------------- *)

Lemma enc_byte y m z : m + 8 <= 64 ->
  firstn 8 (skipn m (bits 64 y) ++ z) = bits 8 (N.land (N.shiftr y (N.of_nat m)) 255).
Proof.
  intros Hm. apply bits_eq.
  - rewrite firstn_length, app_length, skipn_length, bits_length. lia.
  - intros i Hi. rewrite nth_firstn' by exact Hi.
    rewrite app_nth1 by (rewrite skipn_length, bits_length; lia).
    rewrite nth_skipn', nth_bits by lia.
    rewrite N.land_spec, N.shiftr_spec'. change 255%N with (N.ones 8).
    rewrite N.ones_spec_low by lia. rewrite andb_true_r. f_equal. lia.
Qed.

Lemma be_encode_map n : forall y,
  Bytes.be_encode n y = map (fun k => N.land (N.shiftr y (N.of_nat (8 * (n - 1 - k)))) 255) (seq 0 n).
Proof.
  induction n as [|n IH]; intros y; [reflexivity|].
  cbn [Bytes.be_encode]. rewrite IH, seq_S, map_app. f_equal.
  - apply map_ext_in. intros k Hk. apply in_seq in Hk. rewrite N.shiftr_shiftr. f_equal. f_equal. lia.
  - cbn [map]. replace (8 * (S n - 1 - (0 + n))) with 0 by lia. now rewrite N.shiftr_0_r.
Qed.

Lemma enc_word ins i y : nth i ins [] = bits 64 y ->
  map (eval BoolAlg ins []) (map (fun k => WTrunc 8 (WShr (8 * (7 - k)) (WIn i))) (seq 0 8)) =
  map (bits 8) (Bytes.be_encode 8 y).
Proof.
  intros H. rewrite be_encode_map, !map_map. apply map_ext_in. intros k Hk. apply in_seq in Hk.
  cbn [eval]. change (@nth (word BoolAlg) i ins (@nil (B BoolAlg))) with (@nth (list bool) i ins (@nil bool)).
  rewrite H. change (8 - 1 - k) with (7 - k). apply (enc_byte y (8 * (7 - k))). lia.
Qed.

Lemma enc_bridge w : run BoolAlg (wbits w) (enc_prog KL8) = map (bits 8) (Perm.bytes_of_words w).
Proof.
  destruct w as [[[[y0 y1] y2] y3] y4].
  unfold run, enc_prog, Perm.bytes_of_words. cbn [p_body p_outs run_body fold_left].
  change (seq 0 5) with [0; 1; 2; 3; 4]. cbn [flat_map]. rewrite app_nil_r, !map_app.
  rewrite (enc_word _ 0 y0), (enc_word _ 1 y1), (enc_word _ 2 y2), (enc_word _ 3 y3), (enc_word _ 4 y4) by reflexivity.
  reflexivity.
Qed.

(* ---- the bridge ------------------------------------------------------------------------------ *)

Theorem bridge_perm : forall (k : nat) (s : list N), k <= 12 -> length s = 40 -> Forall (fun b => (b < 256)%N) s ->
  pexec BoolAlg (chain_spec KL8 (seq k (12 - k))) (map (bits 8) s) = map (bits 8) (Spec.Perm.perm k s).
Proof.
  intros k s Hk HL H. unfold chain_spec, Spec.Perm.perm, Spec.Perm.perm_words. cbn [pexec].
  destruct (dec_bridge s HL H) as [D W]. rewrite D.
  assert (J : Forall (fun j => j < 12) (seq k (12 - k))) by (apply Forall_forall; intros j Hj; apply in_seq in Hj; lia).
  destruct (rounds_bridge _ J _ W) as [R _]. rewrite R. apply enc_bridge.
Qed.
