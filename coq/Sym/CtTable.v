(* C11 layer 1: the table of leakage traces produced by the symbolic executor
   (tools/kern_ct.py -> Gen/CtKernels.v) and what Coq re-checks about it.

   The stuck semantics lives in the Python executor (tools/symx.py, llvmx.py,
   symx_arith.py): a branch, select, switch, pointer offset, shift amount or
   copy length that is not a constant of the run raises Stuck, and the run is
   then absent from the table.  A run that is present therefore has a trace
   that was computed without looking at any data bit.  Coq re-checks the
   regenerated table:
     - every run executed at least one instruction and recorded a trace;
     - the trace hash obtained with ALL data symbolic equals the hashes
       obtained when only part of / none of the data is symbolic (two different
       concrete fillings): the trace is the same for the data values tried and
       for the symbolic run, which stands for all of them;
     - every REQUIRED (function, configuration) pair is present with exactly
       the required list of public control tuples (so a function that gets
       stuck for some length, or disappears from the source, breaks the
       theorem instead of silently shrinking the table). *)
From Coq Require Import List NArith String Bool Arith.
Import ListNotations.
Local Open Scope N_scope.

Record ct_run := mkRun {
  r_ctl : list N;        (* the public control arguments (lengths, sizes, offsets, first round) *)
  r_steps : N;           (* LLVM instructions executed *)
  r_leaklen : N;         (* events in the leakage trace: jumps taken, (region, offset, size) of each access, callees *)
  r_nsym : N;            (* symbolic inputs of the all-symbolic run *)
  r_hsym : N;            (* hash of the trace, all data symbolic *)
  r_hothers : list N;    (* hashes of the traces: mixed symbolic/concrete, concrete filling 1 (, concrete filling 2) *)
  r_perms : list N       (* the first-round argument of every call of ascon_permute, in order (mode-level functions) *)
}.
Record ct_entry := mkEntry { ce_fn : string; ce_cfg : string; ce_group : string; ce_runs : list ct_run }.

Definition ct_run_ok (r : ct_run) : bool :=
  (0 <? r_steps r) && (0 <? r_leaklen r) && (1 <=? List.length (r_hothers r))%nat && forallb (N.eqb (r_hsym r)) (r_hothers r).
Definition ct_entry_ok (e : ct_entry) : bool :=
  negb (match ce_runs e with [] => true | _ => false end) && forallb ct_run_ok (ce_runs e).

(* --- coverage ---------------------------------------------------------- *)
Fixpoint nlist_eqb (a b : list N) : bool :=
  match a, b with
  | [], [] => true
  | x :: a', y :: b' => (x =? y) && nlist_eqb a' b'
  | _, _ => false
  end.
Fixpoint nlists_eqb (a b : list (list N)) : bool :=
  match a, b with
  | [], [] => true
  | x :: a', y :: b' => nlist_eqb x y && nlists_eqb a' b'
  | _, _ => false
  end.

(* a requirement: function, configuration, the exact list of control tuples *)
Definition ct_req := (string * string * list (list N))%type.
Definition req_met (tab : list ct_entry) (q : ct_req) : bool :=
  let '(fn, cfg, ctls) := q in
  existsb (fun e => (* `if`, not `&&`: vm_compute is call-by-value, the expensive tests run only for the matching entry *)
             if String.eqb (ce_fn e) fn then if String.eqb (ce_cfg e) cfg then
               if ct_entry_ok e then nlists_eqb (map r_ctl (ce_runs e)) ctls else false else false else false) tab.

Definition nrange (a n : nat) : list N := map N.of_nat (seq a n).
Definition singles (l : list N) : list (list N) := map (fun x => [x]) l.
(* all (offset, size) with offset + size <= 40, offset-major *)
Definition off_size_pairs : list (list N) :=
  flat_map (fun o => map (fun s => [N.of_nat o; N.of_nat s]) (seq 0 (41 - o))) (seq 0 41).
(* size-major product used for check_tag: for s in sizes, for p in 0..20 *)
Definition check_tag_ctls : list (list N) :=
  flat_map (fun s => map (fun p => [p; s]) (nrange 0 21)) [16; 0; 1; 8; 32].

Lemma req_met_sound tab fn cfg ctls : req_met tab (fn, cfg, ctls) = true ->
  exists e, In e tab /\ ce_fn e = fn /\ ce_cfg e = cfg /\ ct_entry_ok e = true /\ nlists_eqb (map r_ctl (ce_runs e)) ctls = true.
Proof.
  unfold req_met. intro H. apply existsb_exists in H. destruct H as [e [I H]].
  destruct (String.eqb (ce_fn e) fn) eqn:H1; [|discriminate H].
  destruct (String.eqb (ce_cfg e) cfg) eqn:H2; [|discriminate H].
  destruct (ct_entry_ok e) eqn:H3; [|discriminate H].
  exists e. repeat split; try assumption; now apply String.eqb_eq.
Qed.
