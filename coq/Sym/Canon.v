(* Cross-layout agreement (C09): whatever the backend's state layout is, chain_spec L - the function every
   proved kernel computes on its memory image - is the same function of the canonical (big-endian byte) view. *)
From Coq Require Import List PArith NArith Bool Arith Lia.
From AsconV Require Import Sym.BitPoly Sym.Wexpr Sym.Pipe Sym.PermW Sym.Kernel Sym.KernelP.
Import ListNotations.

(* internal words of a layout -> the five 64-bit words *)
Definition join_prog (L : klayout) : prog :=
  {| p_body := [];
     p_outs := match L with
               | KL32 | KL32BE => map (fun i => WInterleave (WIn (2 * i)) (WIn (2 * i + 1))) (seq 0 5)
               | _ => in_exprs 5
               end |}.
(* memory image of a backend -> the 40 canonical bytes (what ascon_extract_bytes(state, out, 0, 40) returns) *)
Definition view (L : klayout) : pipe := PSeq (PRun (dec_prog L)) (PSeq (PRun (join_prog L)) (PRun (enc_prog KL8))).

Lemma dec_enc_id : forallb (fun L => check_pipes (int_widths L) (PSeq (PRun (enc_prog L)) (PRun (dec_prog L))) PId) layouts = true.
Proof. vm_compute. reflexivity. Qed.
Lemma join_round : forallb (fun L => forallb (fun j =>
    check_pipes (int_widths L) (PSeq (PRun (round_prog L j)) (PRun (join_prog L))) (PSeq (PRun (join_prog L)) (PRun (round_prog KL64 j)))) (seq 0 12)) layouts = true.
Proof. vm_compute. reflexivity. Qed.
Lemma join_widths : forallb (fun L => nat_list_eqb (out_widths (int_widths L) (PRun (join_prog L))) (int_widths KL64)) layouts = true.
Proof. vm_compute. reflexivity. Qed.

Lemma dec_enc_ok L x : widths_of x = int_widths L -> run BoolAlg (run BoolAlg x (enc_prog L)) (dec_prog L) = x.
Proof.
  intros H. pose proof dec_enc_id as D. rewrite forallb_forall in D. specialize (D L (in_layouts L)).
  exact (check_pipes_sound _ _ _ D x H).
Qed.
Lemma join_widths_ok L x : widths_of x = int_widths L -> widths_of (run BoolAlg x (join_prog L)) = int_widths KL64.
Proof.
  intros H. pose proof join_widths as D. rewrite forallb_forall in D. specialize (D L (in_layouts L)).
  apply nat_list_eqb_eq in D. rewrite <- D. exact (out_widths_sound (int_widths L) (PRun (join_prog L)) x H).
Qed.
Lemma join_round_ok L j x : j < 12 -> widths_of x = int_widths L ->
  run BoolAlg (run BoolAlg x (round_prog L j)) (join_prog L) = run BoolAlg (run BoolAlg x (join_prog L)) (round_prog KL64 j).
Proof.
  intros Hj H. pose proof join_round as D. rewrite forallb_forall in D. specialize (D L (in_layouts L)).
  rewrite forallb_forall in D. specialize (D j). rewrite in_seq in D. specialize (D (conj (Nat.le_0_l j) Hj)).
  exact (check_pipes_sound _ _ _ D x H).
Qed.

Lemma join_rounds L js : forall x, forallb (fun j => j <? 12) js = true -> widths_of x = int_widths L ->
  run BoolAlg (pexec BoolAlg (rounds_pipe L js) x) (join_prog L) = pexec BoolAlg (rounds_pipe KL64 js) (run BoolAlg x (join_prog L)).
Proof.
  induction js as [|j js IH]; intros x Hj H; [reflexivity|].
  cbn [forallb] in Hj. apply andb_true_iff in Hj. destruct Hj as [H1 H2]. apply Nat.ltb_lt in H1.
  cbn [rounds_pipe fold_right pexec]. fold (rounds_pipe L js) (rounds_pipe KL64 js).
  rewrite IH by (try exact H2; now apply round_widths_ok). now rewrite join_round_ok.
Qed.

Lemma rounds_pipe_KL8 js : rounds_pipe KL8 js = rounds_pipe KL64 js.
Proof. induction js as [|j js IH]; [reflexivity|]. cbn [rounds_pipe fold_right]. fold (rounds_pipe KL8 js) (rounds_pipe KL64 js). now rewrite IH. Qed.

(* the function proved of every kernel, seen through the canonical bytes, does not depend on the layout *)
Theorem canon_chain L js m : widths_of m = mem_widths -> forallb (fun j => j <? 12) js = true ->
  pexec BoolAlg (view L) (pexec BoolAlg (chain_spec L js) m) = pexec BoolAlg (chain_spec KL8 js) (pexec BoolAlg (view L) m).
Proof.
  intros Hm Hj. unfold view, chain_spec. cbn [pexec].
  set (x := run BoolAlg m (dec_prog L)).
  assert (Hx : widths_of x = int_widths L) by (now apply dec_widths_ok).
  rewrite dec_enc_ok by (now apply rounds_widths_ok).
  rewrite join_rounds by assumption.
  assert (Hy : widths_of (run BoolAlg x (join_prog L)) = int_widths KL8) by (now apply join_widths_ok).
  rewrite (dec_enc_ok KL8) by exact Hy. now rewrite rounds_pipe_KL8.
Qed.
