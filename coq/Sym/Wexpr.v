(* Word-level straight-line programs (the output of the translators'
   symbolic execution), their semantics over a bit algebra, and the
   reflective equivalence check with its soundness theorem. *)
From Coq Require Import List PArith NArith Bool Arith Lia.
From AsconV Require Import Sym.BitPoly.
Import ListNotations.

Record BitAlg := { B :> Type; b0 : B; b1 : B; bxor : B -> B -> B; band : B -> B -> B; bor : B -> B -> B; bnot : B -> B }.
Definition BoolAlg : BitAlg := {| B := bool; b0 := false; b1 := true; bxor := xorb; band := andb; bor := orb; bnot := negb |}.
Definition PolyAlg : BitAlg := {| B := poly; b0 := pzero; b1 := pone; bxor := pxor; band := pand; bor := por; bnot := pnot |}.

(* words are bit lists, least significant bit first; the width is the length *)
Inductive wexpr :=
| WIn (i : nat)                         (* i-th input word *)
| WTmp (i : nat)                        (* value of the i-th instruction *)
| WConst (w : nat) (n : N)
| WNot (e : wexpr)
| WXor (a b : wexpr) | WAnd (a b : wexpr) | WOr (a b : wexpr)
| WShl (k : nat) (e : wexpr)            (* logical shifts and rotation within the width of e *)
| WShr (k : nat) (e : wexpr)
| WRotr (k : nat) (e : wexpr)
| WZext (w : nat) (e : wexpr)           (* zero-extend to w bits *)
| WTrunc (w : nat) (e : wexpr)          (* low w bits *)
| WConcat (hi lo : wexpr)
| WInterleave (ev od : wexpr)           (* bit 2j = ev_j, bit 2j+1 = od_j *)
| WEven (e : wexpr) | WOdd (e : wexpr). (* bits 0,2,4,.. / 1,3,5,.. *)

Section Sem.
Variable A : BitAlg.
Definition word := list A.

Fixpoint map2 (f : A -> A -> A) (a b : word) : word :=
  match a, b with x :: a', y :: b' => f x y :: map2 f a' b' | _, _ => [] end.
Fixpoint const_bits (w : nat) (n : N) : word :=
  match w with O => [] | S w' => (if N.odd n then b1 A else b0 A) :: const_bits w' (N.div2 n) end.
Fixpoint interleave (a b : word) : word :=
  match a, b with x :: a', y :: b' => x :: y :: interleave a' b' | _, _ => [] end.
Fixpoint evens (l : word) : word :=
  match l with x :: _ :: l' => x :: evens l' | [x] => [x] | [] => [] end.
Definition odds (l : word) : word := match l with [] => [] | _ :: l' => evens l' end.
Definition zerosw (k : nat) : word := repeat (b0 A) k.

Fixpoint eval (ins tmps : list word) (e : wexpr) : word :=
  match e with
  | WIn i => nth i ins []
  | WTmp i => nth i tmps []
  | WConst w n => const_bits w n
  | WNot e => map (bnot A) (eval ins tmps e)
  | WXor a b => map2 (bxor A) (eval ins tmps a) (eval ins tmps b)
  | WAnd a b => map2 (band A) (eval ins tmps a) (eval ins tmps b)
  | WOr a b => map2 (bor A) (eval ins tmps a) (eval ins tmps b)
  | WShl k e => let v := eval ins tmps e in firstn (length v) (zerosw k ++ v)
  | WShr k e => let v := eval ins tmps e in skipn k v ++ zerosw (Nat.min k (length v))
  | WRotr k e => let v := eval ins tmps e in skipn k v ++ firstn k v
  | WZext w e => let v := eval ins tmps e in v ++ zerosw (w - length v)
  | WTrunc w e => firstn w (eval ins tmps e)
  | WConcat hi lo => eval ins tmps lo ++ eval ins tmps hi
  | WInterleave a b => interleave (eval ins tmps a) (eval ins tmps b)
  | WEven e => evens (eval ins tmps e)
  | WOdd e => odds (eval ins tmps e)
  end.

(* a program: instructions in order (instruction i may use WTmp j, j < i), then outputs *)
Record prog := { p_body : list wexpr; p_outs : list wexpr }.
Definition run_body (ins : list word) (body : list wexpr) : list word :=
  fold_left (fun tmps e => tmps ++ [eval ins tmps e]) body [].
Definition run (ins : list word) (p : prog) : list word :=
  let tmps := run_body ins (p_body p) in map (eval ins tmps) (p_outs p).
End Sem.


(* ---- the homomorphism from the symbolic to the concrete algebra ----------------------- *)

Section Hom.
Variable rho : valuation.
Definition hw (w : word PolyAlg) : word BoolAlg := map (peval rho) w.

Lemma hw_map2 (f : poly -> poly -> poly) (g : bool -> bool -> bool) :
  (forall x y, peval rho (f x y) = g (peval rho x) (peval rho y)) ->
  forall a b, hw (map2 PolyAlg f a b) = map2 BoolAlg g (hw a) (hw b).
Proof.
  intros H. induction a as [|x a IH]; intros b; [reflexivity|]. destruct b as [|y b]; [reflexivity|].
  cbn. now rewrite H, IH.
Qed.
Lemma hw_const w : forall n, hw (const_bits PolyAlg w n) = const_bits BoolAlg w n.
Proof. induction w as [|w IH]; intros n; [reflexivity|]. cbn. rewrite IH. now destruct (N.odd n). Qed.
Lemma hw_zeros k : hw (zerosw PolyAlg k) = zerosw BoolAlg k.
Proof. unfold hw, zerosw. induction k as [|k IH]; [reflexivity|]. cbn [repeat map]. rewrite IH. reflexivity. Qed.
Lemma hw_interleave : forall a b, hw (interleave PolyAlg a b) = interleave BoolAlg (hw a) (hw b).
Proof. induction a as [|x a IH]; intros b; [reflexivity|]. destruct b as [|y b]; [reflexivity|]. cbn. now rewrite IH. Qed.
Lemma hw_evens : forall l, hw (evens PolyAlg l) = evens BoolAlg (hw l).
Proof.
  fix IH 1. intros l. destruct l as [|x [|y l]]; [reflexivity|reflexivity|]. cbn. now rewrite IH.
Qed.
Lemma hw_odds l : hw (odds PolyAlg l) = odds BoolAlg (hw l).
Proof. destruct l as [|x l]; [reflexivity|]. cbn. apply hw_evens. Qed.
Lemma hw_length w : length (hw w) = length w. Proof. apply map_length. Qed.
Lemma hw_nth i l : hw (nth i l []) = nth i (map hw l) [].
Proof. revert i; induction l as [|x l IH]; intros i; destruct i; cbn; auto. Qed.

Lemma hw_firstn n l : hw (firstn n l) = firstn n (hw l). Proof. unfold hw. symmetry. apply firstn_map. Qed.
Lemma hw_skipn n l : hw (skipn n l) = skipn n (hw l). Proof. unfold hw. symmetry. apply skipn_map. Qed.
Lemma hw_app a b : hw (a ++ b) = hw a ++ hw b. Proof. unfold hw. apply map_app. Qed.

Theorem eval_hom ins tmps e :
  hw (eval PolyAlg ins tmps e) = eval BoolAlg (map hw ins) (map hw tmps) e.
Proof.
  induction e; cbn [eval].
  - apply hw_nth.
  - apply hw_nth.
  - apply hw_const.
  - unfold hw in *. rewrite map_map. rewrite <- IHe, map_map. apply map_ext. intros. apply peval_pnot.
  - rewrite <- IHe1, <- IHe2. apply hw_map2. intros. apply peval_pxor.
  - rewrite <- IHe1, <- IHe2. apply hw_map2. intros. apply peval_pand.
  - rewrite <- IHe1, <- IHe2. apply hw_map2. intros. apply peval_por.
  - rewrite <- IHe. cbv zeta. now rewrite hw_firstn, hw_app, hw_zeros, hw_length.
  - rewrite <- IHe. cbv zeta. now rewrite hw_app, hw_skipn, hw_zeros, hw_length.
  - rewrite <- IHe. cbv zeta. now rewrite hw_app, hw_skipn, hw_firstn.
  - rewrite <- IHe. cbv zeta. now rewrite hw_app, hw_zeros, hw_length.
  - rewrite <- IHe. now rewrite hw_firstn.
  - rewrite <- IHe1, <- IHe2. now rewrite hw_app.
  - rewrite <- IHe1, <- IHe2. apply hw_interleave.
  - rewrite <- IHe. apply hw_evens.
  - rewrite <- IHe. apply hw_odds.
Qed.

Lemma run_body_hom ins body :
  map hw (run_body PolyAlg ins body) = run_body BoolAlg (map hw ins) body.
Proof.
  unfold run_body.
  assert (G : forall tmps, map hw (fold_left (fun t e => t ++ [eval PolyAlg ins t e]) body tmps) =
                            fold_left (fun t e => t ++ [eval BoolAlg (map hw ins) t e]) body (map hw tmps)).
  { induction body as [|e body IH]; intros tmps; [reflexivity|]. cbn [fold_left]. rewrite IH, map_app. cbn [map].
    now rewrite eval_hom. }
  apply (G []).
Qed.

Theorem run_hom ins p : map hw (run PolyAlg ins p) = run BoolAlg (map hw ins) p.
Proof.
  unfold run. rewrite map_map. rewrite <- run_body_hom, <- map_map. rewrite map_map.
  apply map_ext. intros e. apply eval_hom.
Qed.
End Hom.

(* ---- symbolic inputs and the valuation that realises given concrete inputs ------------ *)

Fixpoint sym_word (off : positive) (w : nat) : word PolyAlg :=
  match w with O => [] | S w' => pvar off :: sym_word (Pos.succ off) w' end.
Fixpoint sym_inputs (off : positive) (widths : list nat) : list (word PolyAlg) :=
  match widths with
  | [] => []
  | w :: ws => sym_word off w :: sym_inputs (Pos.of_nat (Pos.to_nat off + w)) ws
  end.

Definition rho_of (flat : list bool) : valuation := fun p => nth (Pos.to_nat p - 1) flat false.

Lemma hw_sym_word flat w : forall off, Pos.to_nat off - 1 + w <= length flat ->
  hw (rho_of flat) (sym_word off w) = firstn w (skipn (Pos.to_nat off - 1) flat).
Proof.
  induction w as [|w IH]; intros off H; [reflexivity|].
  cbn [sym_word hw map]. rewrite peval_pvar. fold (hw (rho_of flat) (sym_word (Pos.succ off) w)).
  rewrite IH by (rewrite Pos2Nat.inj_succ; lia).
  rewrite Pos2Nat.inj_succ. replace (S (Pos.to_nat off) - 1) with (S (Pos.to_nat off - 1)) by lia.
  unfold rho_of. set (k := Pos.to_nat off - 1) in *.
  assert (Hk : k < length flat) by lia. clear IH.
  revert flat H Hk. induction k as [|k IHk]; intros flat H Hk.
  - destruct flat as [|b flat]; [cbn in Hk; lia|]. reflexivity.
  - destruct flat as [|b flat]; [cbn in Hk; lia|]. cbn [nth skipn]. apply IHk; cbn in *; lia.
Qed.

Definition widths_of (ci : list (list bool)) : list nat := map (@length bool) ci.

Lemma hw_sym_inputs ci : forall (pre : list bool),
  map (hw (rho_of (pre ++ concat ci))) (sym_inputs (Pos.of_nat (S (length pre))) (widths_of ci)) = ci.
Proof.
  induction ci as [|c ci IH]; intros pre; [reflexivity|].
  cbn [widths_of map sym_inputs concat].
  assert (E : Pos.to_nat (Pos.of_nat (S (length pre))) = S (length pre)) by (apply Nat2Pos.id; lia).
  rewrite hw_sym_word by (rewrite E, !app_length; lia).
  rewrite E. replace (S (length pre) - 1) with (length pre) by lia.
  rewrite skipn_app, skipn_all, Nat.sub_diag. cbn [app skipn].
  rewrite firstn_app, firstn_all, Nat.sub_diag, firstn_O, app_nil_r. f_equal.
  replace (S (length pre) + length c) with (S (length (pre ++ c))) by (rewrite app_length; lia).
  specialize (IH (pre ++ c)). rewrite <- app_assoc in IH. exact IH.
Qed.

(* ---- the check ---------------------------------------------------------------------------- *)

Fixpoint poly_list_eqb (x y : word PolyAlg) : bool :=
  match x, y with
  | [], [] => true
  | p :: x', q :: y' => poly_eqb p q && poly_list_eqb x' y'
  | _, _ => false
  end.
Fixpoint words_eqb (a b : list (word PolyAlg)) : bool :=
  match a, b with
  | [], [] => true
  | x :: a', y :: b' => poly_list_eqb x y && words_eqb a' b'
  | _, _ => false
  end.

Lemma poly_list_eqb_eq x y : poly_list_eqb x y = true -> x = y.
Proof.
  revert y; induction x as [|p x IH]; intros y H; destruct y as [|q y]; try discriminate; [reflexivity|].
  cbn in H. apply andb_true_iff in H. destruct H as [H1 H2]. apply poly_eqb_eq in H1. subst. f_equal. now apply IH.
Qed.
Lemma words_eqb_eq a b : words_eqb a b = true -> a = b.
Proof.
  revert b; induction a as [|x a IH]; intros b H; destruct b as [|y b]; try discriminate; [reflexivity|].
  cbn in H. apply andb_true_iff in H. destruct H as [H1 H2]. apply poly_list_eqb_eq in H1. subst. f_equal. now apply IH.
Qed.

(* two programs over inputs of the given widths compute the same outputs *)
Definition check_equiv (widths : list nat) (p q : prog) : bool :=
  let ins := sym_inputs 1 widths in words_eqb (run PolyAlg ins p) (run PolyAlg ins q).

Theorem check_equiv_sound widths p q : check_equiv widths p q = true ->
  forall ci : list (list bool), widths_of ci = widths -> run BoolAlg ci p = run BoolAlg ci q.
Proof.
  unfold check_equiv. intros H ci Hw. apply words_eqb_eq in H.
  pose proof (hw_sym_inputs ci []) as S. cbn [length app] in S. change (Pos.of_nat 1) with 1%positive in S.
  rewrite Hw in S.
  apply (f_equal (map (hw (rho_of (concat ci))))) in H. rewrite !run_hom in H. rewrite S in H. exact H.
Qed.
