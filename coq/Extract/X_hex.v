(* C20 - definitions extracted for the correspondence check (hex codec and
   ASCON_NO_STL byte_array).  Only ExtrOcamlBasic; see Extract/X_aead.v. *)
From AsconV Require Export Model.Hexm Model.ByteArraym.

(* also: cfg_asis cfg_fixed cfg_selected *)
Definition x_hex_to_hex := to_hex.
Definition x_hex_from_hex := from_hex.
Definition x_hex_cpp_from_hex := cpp_from_hex_gen.
Definition x_hex_cpp_from_hex_z := cpp_from_hex_z_gen.
Definition x_hex_cpp_from_hex_string := cpp_from_hex_string_gen.
Definition x_hex_cpp_to_hex := cpp_to_hex.
Definition x_hex_cstr := cstr.
Definition x_hex_uninit := UNINIT.
Definition x_hex_spec_decode := Hex.decode.
Definition x_hex_spec_encode := Hex.encode.
Definition x_ba_init := init.
Definition x_ba_step := step.
Definition x_ba_vec_step := vec_step.
Definition x_ba_abs := abs.
Definition x_ba_op_pre := op_pre.
