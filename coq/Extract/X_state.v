From AsconV Require Export Model.Statem.
Definition x_st_add := st_add.
Definition x_st_overwrite := st_overwrite.
Definition x_st_zero := st_zero.
Definition x_st_extract := st_extract.
Definition x_st_extract_and_add := st_extract_and_add.
Definition x_st_extract_and_overwrite := st_extract_and_overwrite.
