(* Extraction of the executable models for the correspondence check.
   Only ExtrOcamlBasic: bool, option, list, prod, unit, sumbool map to the
   OCaml types; nat, N, positive, Z stay the extracted inductives.  No
   Extract Constant, no further Extract Inductive.  Compiled by
   lib/common.py:build_driver in build/ocaml (not part of the make build,
   because it writes model.ml into the current directory). *)
Require Extraction.
Require Import ExtrOcamlBasic.
From AsconV Require Import Extract.ExtractDeps.
Extraction Language OCaml.
Extraction "model.ml" a128 a128a a80pq x_perm x_aead_encrypt x_aead_decrypt
  x_aead_spec_encrypt x_aead_spec_decrypt x_inc_init x_inc_reinit x_inc_start
  x_inc_encrypt_block x_inc_decrypt_block x_inc_encrypt_finalize x_inc_decrypt_finalize.
