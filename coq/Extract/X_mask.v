(* Extracted definitions for masked keys (C10). *)
From AsconV Require Export Model.Maskm.
From Coq Require Import List NArith.
Import ListNotations.
From AsconV Require Import Bits.Bytes Spec.Perm.
(* the 32-bit backend draws each fresh 64-bit word as two 32-bit words (the low halves of two tape words) *)
Fixpoint pair32 (fuel : nat) (t : list N) : list N :=
  match fuel, t with
  | S f, a :: b :: t' => (N.lor (N.shiftl (N.land a 4294967295) 32) (N.land b 4294967295)) :: pair32 f t'
  | S f, [a] => [N.shiftl (N.land a 4294967295) 32]
  | _, _ => nil
  end.
Definition x_mk_history (n : nat) (half : bool) (key : list N) (tape : list (list N)) (rounds : nat) :=
  let t := map Bytes.be_decode tape in
  mk_history n key (if half then pair32 (length t) t else t) rounds.
(* masked-state histories: only the permutation steps act on the value *)
Definition x_ms_run (prog : list (option nat)) (st : list N) : list N :=
  fold_left (fun s o => match o with Some k => Perm.perm k s | None => s end) prog st.
(* masked words given directly (the five words of a masked state) *)
Definition x_mws_history (n : nat) (half : bool) (ws : list (list N)) (tape : list (list N)) (rounds : nat) :=
  let t := map Bytes.be_decode tape in
  let '(v0, rs) := mws_history n (map Bytes.be_decode ws) (if half then pair32 (length t) t else t) rounds in
  (map (Bytes.be_encode 8) v0, map (fun e => (map (Bytes.be_encode 8) (fst e), snd e)) rs).
