(* Extracted definitions for the PRNG. *)
From AsconV Require Export Model.Prngm.
Definition x_prng_init := prng_init Perm.perm.
Definition x_prng_reseed := prng_reseed Perm.perm.
Definition x_prng_fetch := prng_fetch Perm.perm.
Definition x_prng_feed := prng_feed Perm.perm.
Definition x_prng_save := prng_save_seed Perm.perm.
Definition x_prng_load := prng_load_seed Perm.perm.
Definition x_random_oneshot := random_oneshot Perm.perm.
