(* Extracted definitions for the PRNG. *)
From AsconV Require Export Model.Prngm.
Definition x_prng_init := prng_init Perm.perm.
Definition x_prng_reseed := prng_reseed Perm.perm.
Definition x_prng_fetch := prng_fetch Perm.perm.
Definition x_prng_feed := prng_feed Perm.perm.
(* save / load with the full storage descriptor and the log of callback calls; PrngP.save_g_refines / load_g_refines
   relate them to prng_save_seed / prng_load_seed (the operations of Model/Leak.v) *)
Definition x_prng_save := prng_save_seed_g Perm.perm.
Definition x_prng_load := prng_load_seed_g Perm.perm.
Definition x_random_oneshot := random_oneshot Perm.perm.
