(* C17: what the correspondence driver runs of Model/Cppm.v (see X_aead.v for
   the extraction conventions).  The cipher functions are parameters: the
   driver passes x_aead_encrypt / x_aead_decrypt for the plain and masked
   classes and a free (symbolic) cipher for the SIV and ISAP classes. *)
From AsconV Require Export Model.Cppm.

(* also: cpp_keying_plain cpp_keying_masked cpp_keying_isap cpp_raw_key_of_doc cpp_isap_key_of_doc *)
Definition x_cpp_code_ctor := cpp_code_ctor.
Definition x_cpp_code_step := cpp_code_step.
Definition x_cpp_doc_ctor := cpp_doc_ctor.
Definition x_cpp_doc_step := cpp_doc_step.
Definition x_cpp_siv80pq_ncopy : nat := cpp_siv80pq_ncopy siv80pq_code.
Definition x_cpp_isap_version : cpp_code_version := isap_setkey0_code.
Definition x_cpp_xof_ctor := cpp_xof_ctor.
Definition x_cpp_xof_step := cpp_xof_step.
Definition x_cpp_hash_step := cpp_hash_step.
Definition x_cpp_bytes_to_hex := cpp_bytes_to_hex.
Definition x_cpp_bytes_from_hex := cpp_bytes_from_hex.
Definition x_cpp_bytes_from_hex_cstr := cpp_bytes_from_hex_cstr.
Definition x_cpp_bytes_from_data := cpp_bytes_from_data.
