(* Definitions that are extracted for the correspondence check (see Extract.v).
   Only ExtrOcamlBasic: bool, option, list, prod, unit, sumbool map to the
   OCaml types; nat, N, positive, Z stay the extracted inductives.  No
   Extract Constant, no further Extract Inductive. *)
From AsconV Require Export Model.Aeadm.

Definition x_perm := Perm.perm.
Definition x_aead_encrypt := encrypt_c Perm.perm.
Definition x_aead_decrypt := decrypt_c Perm.perm.
Definition x_aead_spec_encrypt := Aead.encrypt Perm.perm.
Definition x_aead_spec_decrypt := Aead.decrypt Perm.perm.
Definition x_inc_init := inc_init.
Definition x_inc_reinit := inc_reinit.
Definition x_inc_start := inc_start Perm.perm.
Definition x_inc_encrypt_block := inc_encrypt_block Perm.perm.
Definition x_inc_decrypt_block := inc_decrypt_block Perm.perm.
Definition x_inc_encrypt_finalize := inc_encrypt_finalize Perm.perm.
Definition x_inc_decrypt_finalize := inc_decrypt_finalize Perm.perm.

