(* Extracted definitions for PRF/MAC/HMAC/KMAC and the KDFs. *)
From AsconV Require Export Model.Macm.
(* also: vprf *)
Definition x_prf_init := prf_init Perm.perm.
Definition x_prf_oneshot := prf_oneshot Perm.perm.
Definition x_mac := mac_c Perm.perm.
Definition x_mac_verify := mac_verify_c Perm.perm.
Definition x_prf_short := prf_short_c Perm.perm.
Definition x_hmac_run := hmac_run Perm.perm.
Definition x_hmac_init := hmac_init Perm.perm.
Definition x_hmac_finalize := hmac_finalize Perm.perm.
Definition x_kmac_init := kmac_init Perm.perm.
Definition x_kdf_init := kdf_init Perm.perm.
Definition x_hkdf_extract := hkdf_extract_c Perm.perm.
Definition x_hkdf_expand := hkdf_expand_c Perm.perm.
Definition x_hkdf := hkdf_c Perm.perm.
Definition x_pbkdf2 := pbkdf2_c Perm.perm.
Definition x_pbkdf2_hmac := pbkdf2_hmac_c Perm.perm.
Definition x_spec_prf := Mac.prf Perm.perm.
Definition x_spec_prf_short := Mac.prf_short Perm.perm.
Definition x_spec_hmac (v : xof_variant) := Mac.hmac (Hash.hash Perm.perm v).
Definition x_spec_kmac := Mac.kmac Perm.perm.
Definition x_spec_kdf := Mac.kdf Perm.perm.
(* the first nblocks blocks of the OKM stream (the full stream is quadratic to evaluate) *)
Definition x_spec_hkdf_okm (v : xof_variant) (salt ikm info : bytes) (nblocks : nat) :=
  flat_map (Mac.hkdf_T (Hash.hash Perm.perm v) (Mac.hkdf_extract (Hash.hash Perm.perm v) salt ikm) info) (seq 1 nblocks).
Definition x_spec_pbkdf2 (P : bytes) := Mac.pb_dk (Mac.pbkdf2_prf Perm.perm P).
Definition x_spec_pbkdf2_hmac (P : bytes) := Mac.pb_dk (Mac.hmac (Hash.hash Perm.perm vxof) P).
