(* Extracted definitions for SIV and ISAP. *)
From AsconV Require Export Model.Sivm.
(* also: isap128a isap128 isap80pq *)
Definition x_siv_encrypt := siv_encrypt_c Perm.perm.
Definition x_siv_decrypt := siv_decrypt_c Perm.perm.
Definition x_siv_spec_encrypt := Siv.siv_encrypt Perm.perm.
Definition x_isap_init := isap_init_c Perm.perm.
Definition x_isap_save := isap_save_c.
Definition x_isap_load := isap_load_c.
Definition x_isap_encrypt := isap_encrypt_c Perm.perm.
Definition x_isap_decrypt := isap_decrypt_c Perm.perm.
Definition x_isap_spec_encrypt (iv : isap_variant) (K : bytes) :=
  Siv.isap_encrypt Perm.perm iv (Siv.isap_expand Perm.perm iv K 3%N) (Siv.isap_expand Perm.perm iv K 2%N).
