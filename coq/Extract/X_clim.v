(* Extraction roots of the command-line-tool model (C19).  The abstract
   cryptography of Model/Clim.v becomes function arguments of the extracted
   definitions; ocaml/drv_clim.ml supplies them from harness/c19_oracle.c
   (the library built from /repo's working tree). *)
From AsconV Require Export Model.Clim.

(* also: shipped fixed world0 fs_get *)
Definition x_main_crypt := main_crypt.
Definition x_main_generate := main_generate.
Definition x_main_sum := main_sum.
(* main() of asconcrypt (options parsed; direction detection, output names, typed passwords, "-",
   close(2) results of output descriptors), asconcrypt -g with the close result, asconsum without FILE arguments *)
Definition x_main_args := main_args.
Definition x_main_generate_c := main_generate_c.
Definition x_main_sum_argv := main_sum_argv.
