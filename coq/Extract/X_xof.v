(* Extracted definitions for the hash / XOF family. *)
From AsconV Require Export Model.Xofm.
(* also: vxof vxofa *)
Definition x_xof_init := xof_init Perm.perm.
Definition x_xof_init_fixed := xof_init_fixed Perm.perm.
Definition x_xof_init_custom := xof_init_custom Perm.perm.
Definition x_xof_absorb := xof_absorb Perm.perm.
Definition x_xof_squeeze := xof_squeeze Perm.perm.
Definition x_xof_pad := xof_pad Perm.perm.
Definition x_xof_free := xof_free.
Definition x_xof_spec := Hash.xof_fixed Perm.perm.
Definition x_cxof_spec := Hash.cxof Perm.perm.
