(* Extracted definitions for the TRNG mixer. *)
From AsconV Require Export Spec.Perm Model.Mixerm.
Definition x_mix_history := mix_history Perm.perm.
