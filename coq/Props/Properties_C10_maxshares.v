(* C10 (and the masked x86-64 files of C18) - every container size.

   ASCON_MASKED_MAX_SHARES = k makes ascon_masked_word_t 8*k bytes: the stride between the five words of a masked
   state, the #if bodies selected in src/masking/ascon-x2-asm-x86-64.S, ascon-x3-asm-x86-64.S,
   ascon-word-asm-x86-64.S and in the C files all depend on it.  Properties_C10.v / _c32.v / _words.v are about the
   default k = 4.  The theorems below are about the code re-translated on every run with -DASCON_MASKED_MAX_SHARES=k
   (tools/kern_masked_max.py, tools/kern_mword_max.py) for every valid pair (n shares, k):
        x2: k = 2, 3, 4      x3: k = 3, 4      x4: k = 4
   on the three masked back ends (x86-64 assembly, 64-bit C, 32-bit C).

   Permutation kernels - Obl/KernMaskedDefs.masked_perm_std be n k, the statement of Properties_C10.v with max = k:
     - the entry and exit interfaces of the translated kernel are the memory image of state_bytes n k = 40*k + 8*(n-1)
       bytes (state, then the preserved random words; on entry followed by the registers for the assembly);
     - for every first_round <= 12 and ALL memory contents (shares, surplus shares of the container, preserved random
       words) and entry registers:  state_val be n k (memory after) = rounds first_round..11 (state_val be n k (memory before)),
       where the HAND-WRITTEN Obl/MWordSpec.state_val reads word i at byte 8*k*i, share j at +8*j, stored rotated right
       by 11*j (32-bit back end: even/odd halves, each rotated by 5*j, interleaved).  That the generated entry / exit
       value programs are syntactically state_val be n k is the lemma <name>_std_ok of each Gen/MaskedObl_<name>.v.
   The k = 4 theorems restate C10_perm_x{n}_{backend} of Properties_C10.v / _c32.v under the uniform name.

   This file: the 64-bit C kernels, the toolkit / state / key obligations and the direct-XOR x1 conversions;
   Properties_C10_maxshares_x86.v: the x86-64 assembly kernels; Properties_C10_maxshares_c32.v: the 32-bit C kernels
   (three files so that make checks them in parallel). *)
From Coq Require Import List Arith Bool NArith Lia String. Import ListNotations.
From AsconV Require Import Sym.Wexpr Sym.Pipe Sym.Kernel Sym.KernelP Sym.VKernel Obl.KernMaskedDefs Obl.FnObl Obl.FnOblParts
  Obl.MWordCoverMax
  Gen.Masked_mx2_c64_max2 Gen.MaskedObl_mx2_c64_max2
  Gen.Masked_mx2_c64_max3 Gen.MaskedObl_mx2_c64_max3
  Gen.Masked_mx3_c64_max3 Gen.MaskedObl_mx3_c64_max3
  Gen.Masked_mx2_c64 Gen.MaskedObl_mx2_c64
  Gen.Masked_mx3_c64 Gen.MaskedObl_mx3_c64
  Gen.Masked_mx4_c64 Gen.MaskedObl_mx4_c64
  Gen.MW2max_index Gen.MW2_dx_x1.

(* ---- 64-bit C kernels (src/masking/ascon-x{2,3,4}-c64.c, clang -O1 LLVM IR, -DASCON_FORCE_C64) *)
Theorem C10_perm_x2_c64_max2 : masked_perm_std B64 2 2 mx2_c64_max2_ifaces mx2_c64_max2_entry mx2_c64_max2_exit mx2_c64_max2_segs mx2_c64_max2_chains.
Proof. exact (vbackend_sound_std _ _ _ _ _ _ _ _ mx2_c64_max2_ok mx2_c64_max2_std_ok). Qed.
Print Assumptions C10_perm_x2_c64_max2.
Theorem C10_perm_x2_c64_max3 : masked_perm_std B64 2 3 mx2_c64_max3_ifaces mx2_c64_max3_entry mx2_c64_max3_exit mx2_c64_max3_segs mx2_c64_max3_chains.
Proof. exact (vbackend_sound_std _ _ _ _ _ _ _ _ mx2_c64_max3_ok mx2_c64_max3_std_ok). Qed.
Print Assumptions C10_perm_x2_c64_max3.
Theorem C10_perm_x2_c64_max4 : masked_perm_std B64 2 4 mx2_c64_ifaces mx2_c64_entry mx2_c64_exit mx2_c64_segs mx2_c64_chains.
Proof. exact (vbackend_sound_std _ _ _ _ _ _ _ _ mx2_c64_ok mx2_c64_std_ok). Qed.
Print Assumptions C10_perm_x2_c64_max4.
Theorem C10_perm_x3_c64_max3 : masked_perm_std B64 3 3 mx3_c64_max3_ifaces mx3_c64_max3_entry mx3_c64_max3_exit mx3_c64_max3_segs mx3_c64_max3_chains.
Proof. exact (vbackend_sound_std _ _ _ _ _ _ _ _ mx3_c64_max3_ok mx3_c64_max3_std_ok). Qed.
Print Assumptions C10_perm_x3_c64_max3.
Theorem C10_perm_x3_c64_max4 : masked_perm_std B64 3 4 mx3_c64_ifaces mx3_c64_entry mx3_c64_exit mx3_c64_segs mx3_c64_chains.
Proof. exact (vbackend_sound_std _ _ _ _ _ _ _ _ mx3_c64_ok mx3_c64_std_ok). Qed.
Print Assumptions C10_perm_x3_c64_max4.
Theorem C10_perm_x4_c64_max4 : masked_perm_std B64 4 4 mx4_c64_ifaces mx4_c64_entry mx4_c64_exit mx4_c64_segs mx4_c64_chains.
Proof. exact (vbackend_sound_std _ _ _ _ _ _ _ _ mx4_c64_ok mx4_c64_std_ok). Qed.
Print Assumptions C10_perm_x4_c64_max4.

(* ---- the word toolkit, masked states and masked keys with masked words of 16 and 24 bytes, and the direct-XOR x1
   conversions.  Statement (Obl/FnObl.table_correct, as Properties_C10_words.v): every obligation o of the table meets
   the HAND-WRITTEN specification of its descriptor (fn_meets_std: for ALL share bytes incl. the surplus shares of the
   k-share container, data bytes and random words, std_post (translated program) = std_spec, with fd_max = k in the
   descriptor, and the C function is the one named by kind and share count), and every entry of the hand-written
   requirement list has an obligation:
     req_words be k   = load, store, randomize (distinct, in place), xor for n = 2..k, xN_from_xM (distinct, in place) for
                        n <> m in 2..k; zero, load_partial 0..7, load_32, store_partial 0..7, replace 0..7 for n = 2..k;
                        pad 0..7, separator
     req_objects be k = ascon_xN_randomize, ascon_xN_copy_from_xM (in place when M <> N), ascon_xN_copy_from_x1 / copy_to_x1
                        (over the unmasked back end of the same build) for N, M in 2..k; ascon_masked_key_{128,160}_{init,
                        extract,randomize_with_trng} for KEY_SHARES = 2..k (a masked KEY word stays 32 bytes - public
                        type -: stride 32, the masked word in its first 8k bytes)
     req_x1 B64 true 4 = the ASCON_BACKEND_DIRECT_XOR bodies of ascon_x{2,3,4}_copy_from_x1 / copy_to_x1
                        (src/masking/ascon-masked-state.c compiled with -DASCON_FORCE_DIRECT_XOR, as the directxor and generic
                        builds do): the unmasked state is the canonical byte string, word i = big-endian bytes 8i..8i+7 *)
Theorem C10_word_toolkit_c64_max2 : table_correct (List.concat mwmax2_c64_words_parts) (req_words B64 2).
Proof. exact (table_sound_parts _ _ mwmax2_c64_words_ok mwmax2_c64_words_covers). Qed.
Print Assumptions C10_word_toolkit_c64_max2.
Theorem C10_word_toolkit_c64_max3 : table_correct (List.concat mwmax3_c64_words_parts) (req_words B64 3).
Proof. exact (table_sound_parts _ _ mwmax3_c64_words_ok mwmax3_c64_words_covers). Qed.
Print Assumptions C10_word_toolkit_c64_max3.
Theorem C10_word_toolkit_c32_max2 : table_correct (List.concat mwmax2_c32_words_parts) (req_words B32 2).
Proof. exact (table_sound_parts _ _ mwmax2_c32_words_ok mwmax2_c32_words_covers). Qed.
Print Assumptions C10_word_toolkit_c32_max2.
Theorem C10_word_toolkit_c32_max3 : table_correct (List.concat mwmax3_c32_words_parts) (req_words B32 3).
Proof. exact (table_sound_parts _ _ mwmax3_c32_words_ok mwmax3_c32_words_covers). Qed.
Print Assumptions C10_word_toolkit_c32_max3.
Theorem C10_word_toolkit_x86_64_asm_max2 : table_correct (List.concat mwmax2_x86_words_parts) (req_words B64 2).
Proof. exact (table_sound_parts _ _ mwmax2_x86_words_ok mwmax2_x86_words_covers). Qed.
Print Assumptions C10_word_toolkit_x86_64_asm_max2.
Theorem C10_word_toolkit_x86_64_asm_max3 : table_correct (List.concat mwmax3_x86_words_parts) (req_words B64 3).
Proof. exact (table_sound_parts _ _ mwmax3_x86_words_ok mwmax3_x86_words_covers). Qed.
Print Assumptions C10_word_toolkit_x86_64_asm_max3.
Theorem C10_masked_states_keys_c64_max2 : table_correct (List.concat mwmax2_c64_objects_parts) (req_objects B64 2).
Proof. exact (table_sound_parts _ _ mwmax2_c64_objects_ok mwmax2_c64_objects_covers). Qed.
Print Assumptions C10_masked_states_keys_c64_max2.
Theorem C10_masked_states_keys_c64_max3 : table_correct (List.concat mwmax3_c64_objects_parts) (req_objects B64 3).
Proof. exact (table_sound_parts _ _ mwmax3_c64_objects_ok mwmax3_c64_objects_covers). Qed.
Print Assumptions C10_masked_states_keys_c64_max3.
Theorem C10_masked_states_keys_c32_max2 : table_correct (List.concat mwmax2_c32_objects_parts) (req_objects B32 2).
Proof. exact (table_sound_parts _ _ mwmax2_c32_objects_ok mwmax2_c32_objects_covers). Qed.
Print Assumptions C10_masked_states_keys_c32_max2.
Theorem C10_masked_states_keys_c32_max3 : table_correct (List.concat mwmax3_c32_objects_parts) (req_objects B32 3).
Proof. exact (table_sound_parts _ _ mwmax3_c32_objects_ok mwmax3_c32_objects_covers). Qed.
Print Assumptions C10_masked_states_keys_c32_max3.
Theorem C10_state_x1_direct_xor : table_correct (List.concat mw_dx_x1_parts) (req_x1 B64 true 4).
Proof. exact (table_sound_parts _ _ mw_dx_x1_ok mw_dx_x1_covers). Qed.
Print Assumptions C10_state_x1_direct_xor.

(* the tables hold exactly as many obligations as the requirement lists ask for; front ends and container sizes of the
   descriptors (Obl/MWordCoverMax.fronts_max_ok) *)
Theorem C10_maxshares_coverage :
  map (fun p => List.length (List.concat p))
      [mwmax2_c64_words_parts; mwmax2_c32_words_parts; mwmax2_x86_words_parts; mwmax3_c64_words_parts; mwmax3_c32_words_parts; mwmax3_x86_words_parts;
       mwmax2_c64_objects_parts; mwmax2_c32_objects_parts; mwmax3_c64_objects_parts; mwmax3_c32_objects_parts; mw_dx_x1_parts]
  = [40; 40; 40; 75; 75; 75; 10; 10; 24; 24; 6] /\
  map (@List.length fn_req) [req_words B64 2; req_words B64 3; req_objects B64 2; req_objects B64 3; req_x1 B64 true 4] = [40; 75; 10; 24; 6] /\
  map fo_name dx_x1_obls =
  ["ascon_x2_copy_from_x1 [direct-xor]"; "ascon_x2_copy_to_x1 [direct-xor]"; "ascon_x3_copy_from_x1 [direct-xor]";
   "ascon_x3_copy_to_x1 [direct-xor]"; "ascon_x4_copy_from_x1 [direct-xor]"; "ascon_x4_copy_to_x1 [direct-xor]"]%string.
Proof. repeat split; vm_compute; reflexivity. Qed.
Print Assumptions C10_maxshares_coverage.
