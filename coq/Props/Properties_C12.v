(* C12 - No out-of-bounds access, undefined behaviour or stray output writes.

   Three layers (DESIGN section 4, C12):

   1. Kernel clause (T).  The masked-word / masked-state / masked-key toolkit
      and the masked permutations are re-translated from /repo on every run
      (tools/kern_bounds.py: clang -O1 LLVM IR of the C files and the
      x86-64 .S files, for ASCON_MASKED_MAX_SHARES = 2, 3, 4) and executed
      symbolically with regions sized exactly as the C types say.  The
      executor is stuck on any access outside its region; the verdict table
      it writes (Gen/Bounds.v) is re-checked here.  THE STUCK SEMANTICS LIVES
      IN THE PYTHON EXECUTOR, NOT IN COQ: C12_kernel_bounds is a theorem
      about the regenerated table.  (The unmasked permutation kernels of the
      four host backends are covered the same way by Props/Properties_C08.v:
      a segment that leaves the 40-byte state does not translate.)

   2. Length arithmetic.  Index-level models (Model/Idx.v) of the functions
      whose safety is arithmetic; every access is checked against the declared
      (= documented) size of its object, unsigned/size_t subtraction is
      written with its wrap-around.  Theorems: valid arguments => the model
      never returns None.  For asconcrypt's derived file names the statement
      is refuted for the code as pinned (exact set of failing names) and
      proved for the code after fixes/C12-asconcrypt-filenames.patch;
      Model/C12Config.v says which of the two /repo currently is.

   3. Everything else is OBSERVED, not proved: lib/p_c12.py replays the
      operation streams of the other properties on ASan+UBSan builds with
      exact-size heap buffers.  Undefined behaviour in C code that is neither
      translated (1) nor modelled (2) is only detected when a generated case
      triggers it: the property is claimed PARTIAL in that respect. *)
From Coq Require Import List NArith String Bool.
From AsconV Require Import Model.BoundsDefs Model.C12Config Model.Idx Gen.Bounds Proofs.BoundsP Proofs.IdxP Obl.BoundsReq Proofs.BoundsReqP.
Import ListNotations.
Local Open Scope N_scope.

(* ================================================================== 1. kernel clause *)

(* No entry of the regenerated table is stuck on valid arguments.  While
   Model/C12Config.fix_x3_zero = false the one known defect
   (ascon_masked_word_x3_zero in ascon-masked-word-c64.c with MAX_SHARES = 3
   stores word->S[3], 8 bytes past the 24-byte word) is tolerated here and
   reported by lib/p_c12.py with its replay; with the flag set to true the
   statement is literally [forallb entry_ok bounds_entries = true]. *)
Theorem C12_kernel_bounds : forallb (entry_ok_cfg fix_x3_zero) bounds_entries = true.
Proof. exact bounds_table_ok. Qed.
Print Assumptions C12_kernel_bounds.

Theorem C12_kernel_bounds_strict : fix_x3_zero = true -> forallb entry_ok bounds_entries = true.
Proof. exact bounds_table_strict. Qed.
Print Assumptions C12_kernel_bounds_strict.

(* the table covers every (file, MAX_SHARES) combination: 45 configurations, more than 1000 runs *)
Theorem C12_kernel_table_covers :
  forallb (has_config bounds_entries) expected_configs = true /\ (1000 <=? N.of_nat (List.length bounds_entries)) = true.
Proof. exact (conj bounds_table_covers bounds_table_size). Qed.
Print Assumptions C12_kernel_table_covers.

(* What the table must contain is written by hand (Obl/BoundsReq.bounds_required: 45 configurations, every function of
   the masked word / state / key toolkit and the masked permutations, every value 0..8 of size / offset, first_round
   0..13, both aliasing shapes, null objects, and the incremental AEAD functions below: 2491 requirements), and whether a call is within contract is decided by
   the hand-written predicate Model/BoundsDefs.in_contract (load_partial 1..7, store_partial / replace 0..7, pad 0..7,
   first_round 0..12, everything else always) - [entry_ok] above uses it, not the generator's flag.
   For every requirement: in_contract agrees with the hand-written flag, and the regenerated table has the run of
   exactly this configuration, function and argument record, flagged the same way by the generator, and NOT STUCK when
   within contract (or, while fix_x3_zero = false, the one pinned entry).  Dropping a function, a configuration or an
   argument value from the generator, or marking an in-contract call "out of contract", breaks this theorem. *)
Theorem C12_kernel_required : forall cfg fn args valid, In (cfg, fn, args, valid) bounds_required ->
  in_contract fn args = valid /\
  exists e, In e bounds_entries /\ be_config e = cfg /\ be_function e = fn /\ be_args e = args /\ be_valid e = valid /\
            (valid = true -> verdict_ok (be_verdict e) = true \/ tolerated e = true).
Proof. exact bounds_required_covered. Qed.
Print Assumptions C12_kernel_required.

(* the generator's flags are in_contract on every entry, and the table has nothing outside the hand-written list *)
Theorem C12_kernel_flags_and_extent :
  forallb valid_flag_ok bounds_entries = true /\ forallb (bentry_listed bounds_required) bounds_entries = true.
Proof. exact (conj bounds_flags_agree bounds_all_listed). Qed.
Print Assumptions C12_kernel_flags_and_extent.

(* The incremental AEAD functions (ascon{128,128a,80pq}_aead_init / _reinit / _start / _encrypt_block / _decrypt_block /
   _encrypt_finalize / _decrypt_finalize / _free) are part of the same table: 1002 of the requirements of bounds_required
   (Obl/BoundsReq.inc_required: three state layouts; key and nonce given / NULL / the object's own nonce field; associated data and
   chunk lengths 0, 1, rate-1, rate, rate+1, 2 rate+3; every posn of the finalisers; in place and not; free of an object and of
   NULL), every one within contract and met by a run that is NOT stuck with the key a region of exactly 16 / 20 bytes, nonce and tag of
   16, the state object of 80 and every data buffer of exactly the length passed. *)
Theorem C12_kernel_incremental_aead :
  List.length inc_required = 1002%nat /\ incl inc_required bounds_required /\
  forallb (fun q => snd q) inc_required = true /\
  forallb (breq_met (fun _ => false) bounds_entries) inc_required = true /\
  existsb (fun e => String.eqb (be_config e) "aead-inc/default") bounds_entries = true /\
  breq_in "aead-inc/c32"%string "ascon80pq_aead_init"%string [("k", 1%N); ("npub", 0%N)]%string inc_required = true /\
  breq_in "aead-inc/default"%string "ascon128a_aead_reinit"%string [("k", 0%N); ("npub", 2%N)]%string inc_required = true /\
  breq_in "aead-inc/directxor"%string "ascon128_aead_decrypt_block"%string [("alias", 1%N); ("len", 19%N); ("posn", 7%N)]%string inc_required = true /\
  breq_in "aead-inc/default"%string "ascon80pq_aead_start"%string [("adlen", 0%N)]%string inc_required = true /\
  breq_in "aead-inc/c32"%string "ascon128a_aead_decrypt_finalize"%string [("posn", 15%N)]%string inc_required = true.
Proof. exact inc_required_checked. Qed.
Print Assumptions C12_kernel_incremental_aead.

(* ================================================================== 2. length arithmetic *)

(* ascon_aead_encrypt_8/_16 and ascon_aead_decrypt_8/_16 (rate r = 8 or 16):
   for every length n and every carried-over `partial` < r, with src and dest
   of exactly n bytes and only the first r bytes of the state declared, no
   access leaves its object, and the returned `partial` is again < r. *)
Theorem C12_idx_aead_crypt : forall sz r n srcw partial,
  0 < r -> r <= 256 -> partial < r ->
  sz STATE = Some (r, true) -> sz SRC = Some (n, srcw) -> sz DST = Some (n, true) ->
  exists ret, aead_crypt sz r n partial = Some ret /\ ret < r.
Proof. intros sz r n srcw partial Hr Hr8 Hp Hst Hsrc Hdst. exact (aead_crypt_safe sz r n srcw Hr Hst Hsrc Hdst partial Hp Hr8). Qed.
Print Assumptions C12_idx_aead_crypt.

(* ascon_aead_absorb_8/_16: any length, a null pointer allowed for empty associated data *)
Theorem C12_idx_aead_absorb : forall sz r n inw,
  0 < r -> sz STATE = Some (r, true) -> (sz SRC = Some (n, inw) \/ (sz SRC = None /\ n = 0)) ->
  aead_absorb sz r n = Some tt.
Proof. exact aead_absorb_safe. Qed.
Print Assumptions C12_idx_aead_absorb.

(* ascon_xof_absorb / xofa / hash update (r = 8), ascon_prf_absorb (r = 32):
   any input length, any count < r, either mode; null allowed for an empty input *)
Theorem C12_idx_sponge_absorb : forall sz r count mode n inw,
  0 < r -> r <= 255 -> count < r ->
  sz STATE = Some (r, true) -> (sz IOB = Some (n, inw) \/ (sz IOB = None /\ n = 0)) ->
  exists count', sponge_absorb sz r count mode n = Some (count', 0) /\ count' < r.
Proof. exact sponge_absorb_safe. Qed.
Print Assumptions C12_idx_sponge_absorb.

(* ascon_xof_squeeze / xofa / hash finalize (r = 8), ascon_prf_squeeze (r = 16): out of exactly n bytes *)
Theorem C12_idx_sponge_squeeze : forall sz r n count mode,
  0 < r -> r <= 255 -> count < r ->
  sz STATE = Some (r, true) -> sz IOB = Some (n, true) ->
  exists count', sponge_squeeze sz r count mode n = Some (count', 1) /\ count' < r.
Proof. intros sz r n count mode Hr Hr8 Hc Hst Hout. exact (sponge_squeeze_safe sz r n Hr Hst Hout count mode Hr8 Hc). Qed.
Print Assumptions C12_idx_sponge_squeeze.

(* ascon_hmac / ascon_hmaca *_absorb_key: every key length against the 32-byte temp (null allowed for an empty key) *)
Theorem C12_idx_hmac_absorb_key : forall sz keylen keyw,
  (sz KEY = Some (keylen, keyw) \/ (sz KEY = None /\ keylen = 0)) -> sz TEMP = Some (HASH_SIZE, true) ->
  hmac_absorb_key sz keylen = Some tt.
Proof. exact hmac_absorb_key_safe. Qed.
Print Assumptions C12_idx_hmac_absorb_key.

(* ascon_hkdf_expand / ascon_hkdfa_expand: every request length (including past the 255-block limit),
   every counter and position <= 32; `out` of exactly outlen bytes (not null), copies from the 32-byte state->out *)
Theorem C12_idx_hkdf_expand : forall sz infolen outlen infow counter posn,
  sz PRK = Some (HMAC_SIZE, true) -> sz SOUT = Some (HMAC_SIZE, true) ->
  (sz INFO = Some (infolen, infow) \/ (sz INFO = None /\ infolen = 0)) ->
  sz OUT = Some (outlen, true) -> posn <= HMAC_SIZE ->
  exists ret counter' posn', hkdf_expand sz infolen outlen counter posn = Some (ret, counter', posn') /\ posn' <= HMAC_SIZE /\ ret <= 1.
Proof. intros sz infolen outlen infow counter posn H1 H2 H3 H4 H5. exact (hkdf_expand_safe sz infolen outlen infow H1 H2 H3 H4 counter posn H5). Qed.
Print Assumptions C12_idx_hkdf_expand.

(* ---- asconcrypt: derived output names *)

(* THE statement for the code Model/C12Config.v says /repo is: safety of
   main()'s use of is_encrypted_filename / strip_suffix / add_suffix for every
   name and mode when fix_cli_names = true; its refutation when false. *)
Theorem C12_idx_cli_names : cli_names_statement fix_cli_names.
Proof. exact (cli_names_statement_both fix_cli_names). Qed.
Print Assumptions C12_idx_cli_names.

(* code as pinned: refuted - a one-character name overruns (strlen - 6 wraps, 8192-byte memcpy, store to temp_filename[8192]) *)
Theorem C12_idx_cli_names_refuted :
  exists explicit name, strlen name < two64 /\ cli_output_name false (name_sizes name) explicit name = None.
Proof. exact (cli_names_statement_both false). Qed.
Print Assumptions C12_idx_cli_names_refuted.

(* ... and the failing arguments are exactly: not -e, the name is not "-" (standard input), and it is shorter
   than 6 characters or has at least 8198 characters and ends in ".ascon" (lib/p_c12.py predicts the sanitizer reports from this) *)
Theorem C12_idx_cli_names_pinned_iff : forall explicit name, strlen name < two64 ->
  (cli_output_name false (name_sizes name) explicit name = None <->
   explicit <> Some false /\ is_dash name = false /\ (strlen name < 6 \/ (8198 <= strlen name /\ has_suffix name = true))).
Proof. exact cli_output_name_pinned_iff. Qed.
Print Assumptions C12_idx_cli_names_pinned_iff.

(* the second witness: 8192 x 'a' followed by ".ascon" *)
Theorem C12_idx_cli_names_refuted_long : cli_output_name false (name_sizes name_long) None name_long = None.
Proof. exact cli_pinned_refuted_long. Qed.
Print Assumptions C12_idx_cli_names_refuted_long.

(* code after fixes/C12-asconcrypt-filenames.patch: every name, every mode *)
Theorem C12_idx_cli_names_fixed : forall explicit name, strlen name < two64 ->
  cli_output_name true (name_sizes name) explicit name <> None.
Proof. exact cli_output_name_fixed_safe. Qed.
Print Assumptions C12_idx_cli_names_fixed.

(* is_encrypted_filename and add_suffix themselves never leave their objects (both versions) *)
Theorem C12_idx_is_encrypted_filename : forall fx name,
  is_encrypted_filename fx (name_sizes name) name = Some (if 6 <=? strlen name then has_suffix name else negb fx).
Proof. exact is_encrypted_filename_val. Qed.
Print Assumptions C12_idx_is_encrypted_filename.

Theorem C12_idx_add_suffix : forall name suffix, add_suffix (name_sizes name) name suffix <> None.
Proof. intros name suffix. rewrite add_suffix_val. discriminate. Qed.
Print Assumptions C12_idx_add_suffix.

(* ---- asconcrypt: passwords and data buffers *)
Theorem C12_idx_password_opt : forall sz n optw,
  sz PW = Some (PWSIZ, true) -> sz OPT = Some (n + 1, optw) -> password_opt sz n <> None.
Proof. exact password_opt_safe. Qed.
Print Assumptions C12_idx_password_opt.

(* read_keyfile: every key file content - any length, no newline, 1024 bytes and more, NUL bytes *)
Theorem C12_idx_read_keyfile : forall sz content, sz PW = Some (PWSIZ, true) -> read_keyfile sz content <> None.
Proof. intros sz content H. exact (read_keyfile_safe sz H content). Qed.
Print Assumptions C12_idx_read_keyfile.

(* decrypt_file's sliding window (data + 16, memmove) and encrypt_file's loop: every sequence of read results *)
Theorem C12_idx_decrypt_window : forall sz reads,
  sz DATA = Some (BUFSIZ, true) -> Forall (fun len => len <= BUFSIZ - 16) reads -> decrypt_data sz reads = Some tt.
Proof. intros sz reads H. exact (decrypt_data_safe sz H reads). Qed.
Print Assumptions C12_idx_decrypt_window.

Theorem C12_idx_encrypt_loop : forall sz reads,
  sz DATA = Some (BUFSIZ, true) -> Forall (fun len => len <= BUFSIZ) reads -> encrypt_data sz reads = Some tt.
Proof. intros sz reads H. exact (encrypt_data_safe sz H reads). Qed.
Print Assumptions C12_idx_encrypt_loop.

(* ---- asconsum: one line of a checksum list, as fgets delivers it (at most 1023 characters) *)
Theorem C12_idx_check_line : forall sz l,
  sz LINE = Some (LINESIZ, true) -> sz HASHB = Some (32, true) -> strlen l < LINESIZ -> check_line sz l <> None.
Proof. exact check_line_safe. Qed.
Print Assumptions C12_idx_check_line.

(* ================================================================== non-vacuity *)
(* the hypotheses are satisfiable on a non-trivial instance, and the models do
   refuse a buffer that is one byte too short (so `Some` is not the only answer they know) *)
Definition ex_sizes (n : N) : sizes :=
  fun b => if b =? STATE then Some (8, true) else if b =? SRC then Some (n, false) else if b =? DST then Some (n, true) else None.
Definition ex_sizes_short (n : N) : sizes :=
  fun b => if b =? STATE then Some (8, true) else if b =? SRC then Some (n, false) else if b =? DST then Some (n - 1, true) else None.

Example C12_example :
  aead_crypt (ex_sizes 21) 8 21 3 = Some 0 /\                 (* 5 + 8 + 8 bytes: partial, two blocks, no tail *)
  aead_crypt (ex_sizes 22) 8 22 3 = Some 1 /\
  aead_crypt (ex_sizes_short 22) 8 22 3 = None /\            (* dest one byte short: refused *)
  hmac_absorb_key (fun b => if b =? KEY then Some (65, false) else if b =? TEMP then Some (32, true) else None) 65 = Some tt /\
  hmac_absorb_key (fun b => if b =? KEY then Some (65, false) else if b =? TEMP then Some (31, true) else None) 65 = None /\
  cli_output_name true (name_sizes name_a) None name_a = Some 7 /\     (* "a" -> "a.ascon" *)
  existsb (fun e => negb (verdict_ok (be_verdict e))) bounds_entries = true.   (* the table does contain stuck verdicts (out-of-contract probes) *)
Proof. vm_compute. repeat split; reflexivity. Qed.
