(* C06 - SIV and ISAP modes compute their documented constructions; ISAP keys
   persist.  (Also the SIV / ISAP parts of C02: exactness of decryption.) *)
From AsconV Require Import Model.Sivm Proofs.AeadP Proofs.SivP Proofs.SivDepP Proofs.IsapP Proofs.PermP Props.Properties_C01.
From Coq Require Import ZArith.
Local Open Scope nat_scope.

Lemma variant_iv v : variant_ok v -> v_iv v <> [].
Proof. intros [H|[H|H]]; subst v; discriminate. Qed.

Definition ivariant_ok (iv : isap_variant) : Prop := iv = isap128a \/ iv = isap128 \/ iv = isap80pq.
Lemma ivariant_klen iv : ivariant_ok iv -> i_klen iv = 16 \/ i_klen iv = 20.
Proof. intros [H|[H|H]]; subst iv; cbn; auto. Qed.

(* SIV: the two-pass construction of doc/siv.dox - the tag of the first pass
   is the nonce of the keystream pass *)
Theorem C06_siv : forall v K N A P, variant_ok v -> wf_kn v K N ->
  siv_encrypt_c Perm.perm v K N A P = (Siv.siv_encrypt Perm.perm v K N A P, length P + 16).
Proof. intros v K N A P Hv. exact (siv_encrypt_c_spec Perm.perm perm_len v (variant_wf v Hv) (variant_iv v Hv) K N A P). Qed.
Print Assumptions C06_siv.

(* BY CONSTRUCTION: this only unfolds the definition of the specification function Spec/Siv.siv_encrypt (written from
   doc/siv.dox: body = P xor keystream(K, tag), then the tag); it is kept because it is the form the next theorem and the
   C02 exactness proofs use.  It is not a statement about the code, and "depends on" is meant structurally: the keystream
   is a function of key and tag only - no claim about cryptographic dependence is made or could be proved here.
   "Equal inputs give equal outputs" is the fact that siv_encrypt_c is a function. *)
Theorem C06_siv_tag_dependence_by_construction : forall v K N A P,
  Siv.siv_encrypt Perm.perm v K N A P =
  xorl P (Siv.siv_keystream Perm.perm v K (Siv.siv_tag Perm.perm v K N A P) (length P)) ++ Siv.siv_tag Perm.perm v K N A P.
Proof. reflexivity. Qed.
Print Assumptions C06_siv_tag_dependence_by_construction.

(* About the C-shaped model function the harness drives (siv_encrypt_c, two passes over the state as ascon*_siv_encrypt does):
   its output C is |P| + 16 bytes; the last 16 bytes T are the first-pass tag; the body is P xor the keystream generated from
   the key and THAT T - i.e. it is what the model's second pass (siv_crypt_c) produces with the output's own tag in the nonce
   position; and nonce and AD enter the body through T only: any other nonce / AD with the same first-pass tag gives the same
   output. *)
Theorem C06_siv_tag_is_nonce : forall v K N A P, variant_ok v -> wf_kn v K N ->
  let C := fst (siv_encrypt_c Perm.perm v K N A P) in
  let T := skipn (length P) C in
  length C = length P + 16 /\
  T = Siv.siv_tag Perm.perm v K N A P /\
  firstn (length P) C = xorl P (Siv.siv_keystream Perm.perm v K T (length P)) /\
  firstn (length P) C = siv_crypt_c Perm.perm v K T P /\
  forall N' A', wf_kn v K N' -> Siv.siv_tag Perm.perm v K N' A' P = Siv.siv_tag Perm.perm v K N A P ->
    fst (siv_encrypt_c Perm.perm v K N' A' P) = C.
Proof. intros v K N A P Hv. exact (siv_encrypt_c_own_tag Perm.perm perm_len v (variant_wf v Hv) (variant_iv v Hv) K N A P). Qed.
Print Assumptions C06_siv_tag_is_nonce.

Theorem C06_siv_exact : forall v K N A C m, variant_ok v -> wf_kn v K N ->
  (Siv.siv_decrypt Perm.perm v K N A C = Some m <->
   length C = length m + 16 /\ Siv.siv_encrypt Perm.perm v K N A m = C).
Proof. intros v K N A C m Hv. exact (siv_decrypt_exact Perm.perm perm_len v (variant_wf v Hv) (variant_iv v Hv) K N A C m). Qed.
Print Assumptions C06_siv_exact.

Theorem C06_siv_decrypt_model : forall v K N A C, variant_ok v -> wf_kn v K N -> bytes_ok K -> bytes_ok C ->
  siv_decrypt_c Perm.perm v K N A C =
  if length C <? 16 then DecShort
  else match Siv.siv_decrypt Perm.perm v K N A C with
       | Some m => DecDone 0 m
       | None => DecDone (-1) (zeros (length C - 16))
       end.
Proof. intros v K N A C Hv. exact (siv_decrypt_c_spec Perm.perm perm_len v (variant_wf v Hv) (variant_iv v Hv) perm_ok K N A C). Qed.
Print Assumptions C06_siv_decrypt_model.

(* ISAP: key expansion, bit-wise re-keying, keystream and MAC of ISAP v2.0 *)
Theorem C06_isap_init : forall iv K, ivariant_ok iv -> length K = i_klen iv ->
  isap_init_c Perm.perm iv K =
  {| pk_ke := Siv.isap_expand Perm.perm iv K 3; pk_ka := Siv.isap_expand Perm.perm iv K 2 |}.
Proof. intros iv K Hi. exact (isap_init_c_spec Perm.perm iv (ivariant_klen iv Hi) K). Qed.
Print Assumptions C06_isap_init.

Theorem C06_isap : forall iv pk N A P, ivariant_ok iv -> wf_pk pk -> length N = 16 -> bytes_ok N ->
  isap_encrypt_c Perm.perm iv pk N A P =
  (Siv.isap_encrypt Perm.perm iv (pk_ke pk) (pk_ka pk) N A P, length P + 16).
Proof. intros iv pk N A P Hi. exact (isap_encrypt_c_spec Perm.perm perm_len iv (ivariant_klen iv Hi) perm_ok pk N A P). Qed.
Print Assumptions C06_isap.

Theorem C06_isap_exact : forall iv ke ka N A C m, ivariant_ok iv -> length ke = 40 -> length ka = 40 -> length N = 16 ->
  (Siv.isap_decrypt Perm.perm iv ke ka N A C = Some m <->
   length C = length m + 16 /\ Siv.isap_encrypt Perm.perm iv ke ka N A m = C).
Proof. intros iv ke ka N A C m Hi. exact (isap_decrypt_exact Perm.perm perm_len iv (ivariant_klen iv Hi) ke ka N A C m). Qed.
Print Assumptions C06_isap_exact.

Theorem C06_isap_decrypt_model : forall iv pk N A C, ivariant_ok iv -> wf_pk pk -> length N = 16 -> bytes_ok N -> bytes_ok C ->
  isap_decrypt_c Perm.perm iv pk N A C =
  if length C <? 16 then DecShort
  else match Siv.isap_decrypt Perm.perm iv (pk_ke pk) (pk_ka pk) N A C with
       | Some m => DecDone 0 m
       | None => DecDone (-1) (zeros (length C - 16))
       end.
Proof. intros iv pk N A C Hi. exact (isap_decrypt_c_spec Perm.perm perm_len iv (ivariant_klen iv Hi) perm_ok pk N A C). Qed.
Print Assumptions C06_isap_decrypt_model.

(* a saved and reloaded key is the same key, and saving a loaded key gives the
   same 80 bytes; encrypt/decrypt take the key as a value and return none, so
   in the model the key cannot change - the harness checks that the C meets this
   (raw bytes of the key object compared after every packet) *)
Theorem C06_key_roundtrip : forall pk, wf_pk pk -> isap_load_c (isap_save_c pk) = pk.
Proof. intros pk [Le La]. exact (isap_load_save pk Le La). Qed.
Theorem C06_key_roundtrip2 : forall k, length k = 80 -> isap_save_c (isap_load_c k) = k.
Proof. exact isap_save_load. Qed.
Print Assumptions C06_key_roundtrip.
Print Assumptions C06_key_roundtrip2.

Example C06_nonvacuous :
  let K := map N.of_nat (seq 0 20) in let N := map N.of_nat (seq 16 16) in
  let pk := isap_init_c Perm.perm isap80pq K in
  wf_kn a80pq K N /\ wf_pk pk /\
  fst (siv_encrypt_c Perm.perm a80pq K N [1;2;3]%N (map N.of_nat (seq 0 19))) =
    Siv.siv_encrypt Perm.perm a80pq K N [1;2;3]%N (map N.of_nat (seq 0 19)) /\
  isap_decrypt_c Perm.perm isap80pq (isap_load_c (isap_save_c pk)) N [7]%N
     (fst (isap_encrypt_c Perm.perm isap80pq pk N [7]%N (map N.of_nat (seq 0 11)))) = DecDone 0 (map N.of_nat (seq 0 11)).
Proof. vm_compute. repeat split. Qed.
