(* C09 - results are identical for every build configuration of the library.
   What a theorem can carry here: (1) the permutation kernels of ALL translated backends compute one and
   the same function of the canonical byte view of the state, for all states and every first_round;
   (2) every pre-computed initial value (three encodings each) equals what the generic path computes;
   (3) the masked kernels / word toolkit / key functions for every share count compute the unmasked values
   (Properties_C10).  The mode-level fast-path macros and the share-count dispatch are tied by the
   differential run over backends x share triples x the acquire/release-checking build (lib/p_c09.py). *)
From Coq Require Import List Arith Bool Lia. Import ListNotations.
From AsconV Require Import Sym.Wexpr Sym.Pipe Sym.PermW Sym.Kernel Sym.KernelP Sym.Canon Obl.KernPerm
  Gen.Kern_c64 Gen.Kern_c32 Gen.Kern_c64dx Gen.Kern_x86_64 Spec.Perm Sym.ConstDefs Gen.Consts.

(* For every first_round k <= 12 there is a translated chain; on ANY memory image m (and any other entry
   inputs oo) the canonical bytes of the state after running it are rounds k..11, in the layout-free
   specification, of the canonical bytes of m.  The right-hand side does not mention the backend. *)
Definition kernel_canonical (L : klayout) (segs : list seg) (chains : list (nat * list nat)) : Prop :=
  forall k, k <= 12 -> exists idx, In (k, idx) chains /\
  forall m oo, widths_of m = mem_widths -> widths_of oo = entry_others (chain_of segs idx) ->
  pexec BoolAlg (view L) (run_chain (chain_of segs idx) (m ++ oo)) =
  pexec BoolAlg (chain_spec KL8 (seq k (12 - k))) (pexec BoolAlg (view L) m).

Theorem C09_kernel_x86_64_asm : kernel_canonical x86_64_layout x86_64_segs x86_64_chains.
Proof. exact (backend_canonical _ _ _ x86_64_ok). Qed.
Print Assumptions C09_kernel_x86_64_asm.
Theorem C09_kernel_c64 : kernel_canonical c64_layout c64_segs c64_chains.
Proof. exact (backend_canonical _ _ _ c64_ok). Qed.
Print Assumptions C09_kernel_c64.
Theorem C09_kernel_c32 : kernel_canonical c32_layout c32_segs c32_chains.
Proof. exact (backend_canonical _ _ _ c32_ok). Qed.
Print Assumptions C09_kernel_c32.
Theorem C09_kernel_c64_direct_xor : kernel_canonical c64dx_layout c64dx_segs c64dx_chains.
Proof. exact (backend_canonical _ _ _ c64dx_ok). Qed.
Print Assumptions C09_kernel_c64_direct_xor.

(* the layout-independence itself, for any layout and any list of rounds *)
Theorem C09_layout_independent L js m : widths_of m = mem_widths -> forallb (fun j => j <? 12) js = true ->
  pexec BoolAlg (view L) (pexec BoolAlg (chain_spec L js) m) = pexec BoolAlg (chain_spec KL8 js) (pexec BoolAlg (view L) m).
Proof. exact (canon_chain L js m). Qed.
Print Assumptions C09_layout_independent.

(* (T) the per-backend pre-computed initial values - 64-bit, bit-interleaved 32-bit and byte tables of every
   init function - agree with what the generic path computes; Gen/Consts.v is regenerated from /repo *)
Theorem C09_precomputed_ivs : forallb (check_entry Perm.perm) const_entries = true /\ length const_entries = 24.
Proof. vm_compute. split; reflexivity. Qed.
Print Assumptions C09_precomputed_ivs.

Example C09_layouts : c64_layout = KL64 /\ c32_layout = KL32 /\ x86_64_layout = KL64 /\ c64dx_layout = KL8.
Proof. vm_compute. repeat split. Qed.
