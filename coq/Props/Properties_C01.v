(* C01 - AEAD encryption computes the ASCON v1.2 function for every input.
   Only statements, closed by [exact]; proofs are in Proofs/AeadP.v. *)
From AsconV Require Import Model.Aeadm Proofs.AeadP Proofs.PermP.
Local Open Scope nat_scope.

Definition variant_ok (v : aead_variant) : Prop := v = a128 \/ v = a128a \/ v = a80pq.
Lemma variant_wf v : variant_ok v -> wf_variant v.
Proof. intros [H|[H|H]]; subst v; [apply wf_a128|apply wf_a128a|apply wf_a80pq]. Qed.

(* One-shot: for every key and nonce of the variant's sizes and every AD and
   plaintext of any length, the C-shaped routine returns the specification's
   ciphertext || tag and reports |P| + 16. *)
Theorem C01_oneshot : forall v K N A P, variant_ok v -> wf_kn v K N ->
  encrypt_c Perm.perm v K N A P = (Aead.encrypt Perm.perm v K N A P, length P + 16).
Proof. intros v K N A P Hv. exact (encrypt_c_spec Perm.perm perm_len v (variant_wf v Hv) K N A P). Qed.
Print Assumptions C01_oneshot.

(* Incremental: init, start, one encrypt_block call per chunk (any split of
   the plaintext, empty chunks included), finalize. *)
Theorem C01_incremental : forall v K N A chunks, variant_ok v -> wf_kn v K N ->
  inc_encrypt_run Perm.perm v K N A chunks = Aead.encrypt Perm.perm v K N A (concat chunks).
Proof. intros v K N A chunks Hv. exact (inc_encrypt_run_spec Perm.perm perm_len v (variant_wf v Hv) K N A chunks). Qed.
Print Assumptions C01_incremental.

(* The ciphertext is as long as the plaintext plus the tag. *)
Theorem C01_length : forall v K N A P, variant_ok v -> wf_kn v K N ->
  length (Aead.encrypt Perm.perm v K N A P) = length P + 16.
Proof.
  intros v K N A P Hv Hkn.
  pose proof (decrypt_encrypt Perm.perm perm_len v (variant_wf v Hv) K N A P Hkn) as D.
  apply (decrypt_exact Perm.perm perm_len v (variant_wf v Hv)) in D; [|exact Hkn]. exact (proj1 D).
Qed.
Print Assumptions C01_length.

(* non-vacuity: a 41-byte message, 19-byte AD, real key and nonce, split 3 ways *)
Example C01_nonvacuous :
  let K := map N.of_nat (seq 0 16) in let N := map N.of_nat (seq 16 16) in
  let A := map N.of_nat (seq 3 19) in let P := map N.of_nat (seq 100 41) in
  wf_kn a128a K N /\
  inc_encrypt_run Perm.perm a128a K N A [firstn 5 P; []; skipn 5 (firstn 30 P); skipn 30 P] =
  fst (encrypt_c Perm.perm a128a K N A P).
Proof. vm_compute. split; [split|]; reflexivity. Qed.
