(* C03 - hashing and XOF functions compute their specified digests. *)
From AsconV Require Import Model.Xofm Proofs.XofP Proofs.PermP Sym.ConstDefs Gen.Consts.
Local Open Scope nat_scope.

(* Any split of the message into absorb calls and of the output into squeeze
   calls, after init / init_fixed L / init_custom: the specification's
   XOF/XOFA output (v = vxof or vxofa; ASCON-HASH/HASHA are L = 32). *)
Theorem C03_xof : forall v chunks outs, xvariant_ok v ->
  xof_run Perm.perm v (xof_init Perm.perm v) chunks outs =
  Hash.xof Perm.perm v (concat chunks) (fold_right Nat.add 0 outs).
Proof.
  intros v chunks outs Hv.
  exact (xof_run_spec Perm.perm perm_len v Hv (iv_state Perm.perm v 0) chunks outs (iv_state_len Perm.perm perm_len v 0)).
Qed.
Print Assumptions C03_xof.

Theorem C03_fixed : forall v L chunks outs, xvariant_ok v ->
  xof_run Perm.perm v (xof_init_fixed Perm.perm v L) chunks outs =
  Hash.xof_fixed Perm.perm v L (concat chunks) (fold_right Nat.add 0 outs).
Proof.
  intros v L chunks outs Hv. rewrite (xof_init_fixed_spec Perm.perm v L).
  exact (xof_run_spec Perm.perm perm_len v Hv (iv_state Perm.perm v L) chunks outs (iv_state_len Perm.perm perm_len v L)).
Qed.
Print Assumptions C03_fixed.

(* declared length 0 or >= 2^29: plain XOF; declared length 32: the IV word is
   ASCON-HASH's / ASCON-HASHA's *)
Theorem C03_fixed_unlimited : forall v L msg n, (L = 0 \/ 536870912 <= L)%N ->
  Hash.xof_fixed Perm.perm v L msg n = Hash.xof Perm.perm v msg n.
Proof.
  intros v L msg n H. unfold Hash.xof, Hash.xof_fixed, iv_state, iv_word.
  destruct H as [->|H]; [reflexivity|].
  apply N.leb_le in H. rewrite H. change (0 * 8)%N with 0%N. now rewrite N.lor_0_r.
Qed.
Print Assumptions C03_fixed_unlimited.

Theorem C03_hash_iv : iv_word vxof 32 = 0x00400c0000000100%N /\ iv_word vxofa 32 = 0x00400c0400000100%N.
Proof. split; reflexivity. Qed.

Theorem C03_hash : forall v msg, xvariant_ok v ->
  hash_oneshot Perm.perm v msg = Hash.hash Perm.perm v msg.
Proof. intros v msg Hv. exact (hash_oneshot_spec Perm.perm perm_len v Hv msg). Qed.
Print Assumptions C03_hash.

(* pad() between absorb calls (ascon_xof_pad / ascon_xofa_pad, "absorbs enough zeroes to align the input to the next
   multiple of the block rate"): the digest is the specification's for the message with those zero bytes inserted *)
Theorem C03_pad : forall v pre post outs, xvariant_ok v ->
  let s1 := fold_left (xof_absorb Perm.perm v) pre (xof_init Perm.perm v) in
  xof_run Perm.perm v (xof_pad Perm.perm v s1) post outs =
  Hash.xof Perm.perm v (concat pre ++ zeros (pad_len v s1) ++ concat post) (fold_right Nat.add 0 outs).
Proof.
  intros v pre post outs Hv.
  exact (xof_run_pad_spec Perm.perm perm_len v Hv (iv_state Perm.perm v 0) pre post outs (iv_state_len Perm.perm perm_len v 0)).
Qed.
Print Assumptions C03_pad.
Example C03_pad_nonvacuous :
  pad_len vxofa (fold_left (xof_absorb Perm.perm vxofa) [[1%N; 2%N]; [3%N]] (xof_init Perm.perm vxofa)) = 5 /\
  pad_len vxof (fold_left (xof_absorb Perm.perm vxof) [[1%N; 2%N]; [3%N]; [4%N;5%N;6%N;7%N;8%N]] (xof_init Perm.perm vxof)) = 0.
Proof. split; vm_compute; reflexivity. Qed.

(* customised XOF: every name length (NULL, empty, <= 32 zero-padded, > 32
   hashed), every customisation string, every declared length *)
Theorem C03_custom : forall v name custom L chunks outs, xvariant_ok v ->
  xof_run Perm.perm v (xof_init_custom Perm.perm v name custom L) chunks outs =
  Hash.cxof Perm.perm v (match name with Some n => n | None => [] end) custom L (concat chunks) (fold_right Nat.add 0 outs).
Proof.
  intros v name custom L chunks outs Hv. rewrite (xof_init_custom_spec Perm.perm perm_len v Hv name custom L).
  exact (xof_run_spec Perm.perm perm_len v Hv _ chunks outs (cxof_state_len Perm.perm perm_len v Hv _ custom L)).
Qed.
Print Assumptions C03_hash_iv.
Print Assumptions C03_custom.

(* (T) every pre-computed initial value in the current C source - 64-bit,
   bit-interleaved 32-bit and byte tables of xof/xofa/hash/hasha init,
   init_fixed(32) and the KMAC/KMACA first block - equals the value the
   generic path computes.  Gen/Consts.v is regenerated from /repo each run. *)
Theorem C03_iv : forallb (check_entry Perm.perm) const_entries = true /\ length const_entries = 24.
Proof. vm_compute. split; reflexivity. Qed.
Print Assumptions C03_iv.

Example C03_nonvacuous :
  let msg := map N.of_nat (seq 0 21) in
  xof_run Perm.perm vxofa (xof_init_custom Perm.perm vxofa (Some (map N.of_nat (seq 65 40))) [1;2;3]%N 77)
          [firstn 3 msg; []; skipn 3 msg] [5; 0; 11; 8] =
  Hash.cxof Perm.perm vxofa (map N.of_nat (seq 65 40)) [1;2;3]%N 77 msg 24.
Proof. vm_compute. reflexivity. Qed.
