(* C11 - control flow and memory addresses never depend on secret data.
   Layer 2: the keyed mode-level routines.

   Model/Leak.v gives every mode-level routine R of the (differentially tested)
   models a copy R_L with the same recursion structure that also returns the
   trace: the list of branch / loop-test outcomes (EBr site taken), byte ranges
   touched in the state and the named buffers (EIdx buf off len), permutation
   calls with their first round (EPerm r) and helper calls with their size
   arguments (ECall site args) that the C code makes at the same program
   points.  Every theorem below has the same shape:

     R_L args = (R args, tr_R pub)
        the first component says R_L computes exactly the model R (so whatever
        ties R to the C ties R_L to it); the second that the trace IS the
        function tr_R of the public inputs - lengths, bookkeeping values
        (partial / posn / count / mode / counter), variant constants,
        iteration counts - and of nothing else;
     snd (R_L .. secrets1) = snd (R_L .. secrets2)
        for any two runs with the same public shape;
     where the routine updates an object: the public bookkeeping after the
        call is a function of the public bookkeeping before it and the lengths.

   perm is an arbitrary function; perm_len_ok perm (it maps 40 bytes to 40
   bytes) is assumed only where a value computed from secrets is fed back in
   as data and its LENGTH has to be known; Spec.Perm.perm satisfies it
   (PermP.perm_len, used in the examples). *)
From AsconV Require Import Model.Leak Proofs.LeakP Proofs.AeadP Proofs.XofP Proofs.PermP Spec.Perm.
From Coq Require Import ZArith.
Local Open Scope nat_scope.

(* ---- 1. the duplex routine: ascon_aead_encrypt_8/16, ascon_aead_decrypt_8/16,
   ascon_xof_absorb, ascon_prf_absorb (secret: the state, the data; public: the
   left-over position and the data length) ----------------------------------- *)
Theorem C11_modes_duplex : forall bf f fr rate partial st1 st2 d1 d2, length d1 = length d2 ->
  duplex_c_L bf f fr rate (st1, partial) d1 =
    (duplex_c bf f rate (st1, partial) d1, tr_duplex fr rate partial (length d1)) /\
  snd (duplex_c_L bf f fr rate (st1, partial) d1) = snd (duplex_c_L bf f fr rate (st2, partial) d2) /\
  snd (fst (duplex_c bf f rate (st1, partial) d1)) = pos_duplex rate partial (length d1) /\
  snd (fst (duplex_c bf f rate (st1, partial) d1)) = snd (fst (duplex_c bf f rate (st2, partial) d2)).
Proof. exact c11_duplex. Qed.
Print Assumptions C11_modes_duplex.

(* closed forms: the returned position is (partial + n) mod rate, the block loop
   over n bytes calls the permutation n / rate times *)
Theorem C11_modes_duplex_closed : forall fr rate partial n, 0 < rate -> partial < rate ->
  pos_duplex rate partial n = (partial + n) mod rate /\
  length (filter (fun e => match e with EPerm _ => true | _ => false end) (tr_full_loop fr rate n n)) = n / rate.
Proof. exact c11_duplex_closed. Qed.
Print Assumptions C11_modes_duplex_closed.

(* ---- 2. squeezing: the lazy loop of ascon_xof_squeeze / ascon_prf_squeeze and
   XOFA's eager loop (the duplex routine reading the state) -------------------- *)
Theorem C11_modes_squeeze : forall f fr rate count n st1 st2,
  lazy_squeeze_c_L f fr rate (st1, count) n =
    (lazy_squeeze_c f rate (st1, count) n, tr_lazy_squeeze fr rate count n) /\
  snd (lazy_squeeze_c_L f fr rate (st1, count) n) = snd (lazy_squeeze_c_L f fr rate (st2, count) n) /\
  snd (fst (lazy_squeeze_c f rate (st1, count) n)) = pos_lazy rate count n /\
  duplex_c_L bf_sq f fr rate (st1, count) (zeros n) =
    (duplex_c bf_sq f rate (st1, count) (zeros n), tr_duplex fr rate count n) /\
  snd (duplex_c_L bf_sq f fr rate (st1, count) (zeros n)) = snd (duplex_c_L bf_sq f fr rate (st2, count) (zeros n)).
Proof. exact c11_squeeze. Qed.
Print Assumptions C11_modes_squeeze.

(* ---- 3. one-shot AEAD.  Encryption: secrets K and P (N and A may differ too,
   only their lengths matter) ------------------------------------------------- *)
Theorem C11_modes_aead_encrypt : forall perm v K1 K2 N1 N2 A1 A2 P1 P2,
  length K1 = length K2 -> length N1 = length N2 -> length A1 = length A2 -> length P1 = length P2 ->
  encrypt_c_L perm v K1 N1 A1 P1 =
    (encrypt_c perm v K1 N1 A1 P1, tr_encrypt v (length K1) (length N1) (length A1) (length P1)) /\
  snd (encrypt_c_L perm v K1 N1 A1 P1) = snd (encrypt_c_L perm v K2 N2 A2 P2).
Proof. exact c11_aead_encrypt. Qed.
Print Assumptions C11_modes_aead_encrypt.

(* Decryption: secrets K, the recovered plaintext, the computed tag and the
   accept / reject result.  tr_decrypt takes lengths only: the trace does not
   even depend on whether the tag is accepted - check_tag's two loops run
   size and plaintext_len times and the C returns ~accum without testing it
   (Leak.check_tag_L has no event after the loops). *)
Theorem C11_modes_aead_decrypt : forall perm v K1 K2 N1 N2 A1 A2 C1 C2,
  perm_len_ok perm -> wf_variant v -> wf_kn v K1 N1 -> wf_kn v K2 N2 ->
  length A1 = length A2 -> length C1 = length C2 ->
  decrypt_c_L perm v K1 N1 A1 C1 =
    (decrypt_c perm v K1 N1 A1 C1, tr_decrypt v (length K1) (length N1) (length A1) (length C1)) /\
  snd (decrypt_c_L perm v K1 N1 A1 C1) = snd (decrypt_c_L perm v K2 N2 A2 C2).
Proof. exact c11_aead_decrypt. Qed.
Print Assumptions C11_modes_aead_decrypt.

(* ---- 4. the XOF / PRF object: state bytes and data secret; count, mode and
   the lengths public ---------------------------------------------------------- *)
Theorem C11_modes_xof_absorb : forall perm v s1 s2 d1 d2, pub_xof s1 = pub_xof s2 -> length d1 = length d2 ->
  xof_absorb_L perm v s1 d1 = (xof_absorb perm v s1 d1, tr_xof_absorb v (pub_xof s1) (length d1)) /\
  snd (xof_absorb_L perm v s1 d1) = snd (xof_absorb_L perm v s2 d2) /\
  pub_xof (xof_absorb perm v s1 d1) = pub_absorb v (pub_xof s1) (length d1) /\
  pub_xof (xof_absorb perm v s1 d1) = pub_xof (xof_absorb perm v s2 d2).
Proof. exact c11_xof_absorb. Qed.
Print Assumptions C11_modes_xof_absorb.

Theorem C11_modes_xof_squeeze : forall perm v s1 s2 n, pub_xof s1 = pub_xof s2 ->
  xof_squeeze_L perm v s1 n = (xof_squeeze perm v s1 n, tr_xof_squeeze v (pub_xof s1) n) /\
  snd (xof_squeeze_L perm v s1 n) = snd (xof_squeeze_L perm v s2 n) /\
  pub_xof (fst (xof_squeeze perm v s1 n)) = pub_squeeze v (pub_xof s1) n /\
  pub_xof (fst (xof_squeeze perm v s1 n)) = pub_xof (fst (xof_squeeze perm v s2 n)).
Proof. exact c11_xof_squeeze. Qed.
Print Assumptions C11_modes_xof_squeeze.

(* xof_pad, xof_absorb_custom, xof_init_custom (the customisation string is the
   password in PBKDF2: secret, its length public; the function name is public) *)
Theorem C11_modes_xof_pad_custom : forall perm v s1 s2 name c1 c2 outlen,
  pub_xof s1 = pub_xof s2 -> length c1 = length c2 ->
  xof_pad_L perm v s1 = (xof_pad perm v s1, tr_xof_pad v (pub_xof s1)) /\
  snd (xof_pad_L perm v s1) = snd (xof_pad_L perm v s2) /\
  pub_xof (xof_pad perm v s1) = (0, false) /\
  xof_absorb_custom_L perm v s1 c1 =
    (xof_absorb_custom perm v s1 c1, tr_absorb_custom v (pub_xof s1) (length c1)) /\
  xof_init_custom_L perm v name c1 outlen =
    (xof_init_custom perm v name c1 outlen,
     tr_init_custom v (length (match name with Some n => n | None => [] end)) (length c1) outlen) /\
  snd (xof_init_custom_L perm v name c1 outlen) = snd (xof_init_custom_L perm v name c2 outlen) /\
  pub_xof (xof_init_custom perm v name c1 outlen) = pub_absorb_custom (0, false) (length c1).
Proof. exact c11_xof_pad_custom. Qed.
Print Assumptions C11_modes_xof_pad_custom.

(* ascon_prf / ascon_prf_fixed / ascon_mac: secrets K and the message *)
Theorem C11_modes_prf : forall perm K1 K2 L m1 m2 n, length K1 = length K2 -> length m1 = length m2 ->
  prf_oneshot_L perm K1 L m1 n = (prf_oneshot perm K1 L m1 n, tr_prf_oneshot (length K1) L (length m1) n) /\
  snd (prf_oneshot_L perm K1 L m1 n) = snd (prf_oneshot_L perm K2 L m2 n).
Proof. exact c11_prf. Qed.
Print Assumptions C11_modes_prf.

(* ascon_mac_verify: the trace is the same whether the tag is accepted or not *)
Theorem C11_modes_mac_verify : forall perm tag1 tag2 K1 K2 m1 m2, perm_len_ok perm ->
  length tag1 = length tag2 -> length K1 = length K2 -> length m1 = length m2 ->
  mac_verify_c_L perm tag1 K1 m1 =
    (mac_verify_c perm tag1 K1 m1, tr_mac_verify (length tag1) (length K1) (length m1)) /\
  snd (mac_verify_c_L perm tag1 K1 m1) = snd (mac_verify_c_L perm tag2 K2 m2).
Proof. exact c11_mac_verify. Qed.
Print Assumptions C11_modes_mac_verify.

(* ---- 5. HMAC: secrets the key bytes and the message; public the key length
   and the chunk lengths.  xwf v h (the sponge has 40 bytes and count is below
   the rate) holds for every object made by hmac_init and kept by
   hmac_update, as the theorem itself says. ------------------------------------ *)
Theorem C11_modes_hmac : forall perm v k1 k2 cs1 cs2 h1 h2, perm_len_ok perm -> v = vxof \/ v = vxofa ->
  length k1 = length k2 -> map (@length N) cs1 = map (@length N) cs2 ->
  xwf v h1 -> xwf v h2 -> pub_xof h1 = pub_xof h2 ->
  (* the whole computation *)
  hmac_run_L perm v k1 cs1 = (hmac_run perm v k1 cs1, tr_hmac_run v (length k1) (map (@length N) cs1)) /\
  snd (hmac_run_L perm v k1 cs1) = snd (hmac_run_L perm v k2 cs2) /\
  (* the object-level calls: init, update (on any object), finalize (on any well-formed object) *)
  hmac_init_L perm v k1 = (hmac_init perm v k1, tr_hmac_init v (length k1)) /\
  pub_xof (hmac_init perm v k1) = pub_hmac_init v (length k1) /\ xwf v (hmac_init perm v k1) /\
  (forall d, hmac_update_L perm v h1 d = (hmac_update perm v h1 d, tr_xof_absorb v (pub_xof h1) (length d)) /\
             pub_xof (hmac_update perm v h1 d) = pub_absorb v (pub_xof h1) (length d) /\
             xwf v (hmac_update perm v h1 d)) /\
  hmac_finalize_L perm v h1 k1 = (hmac_finalize perm v h1 k1, tr_hmac_finalize v (pub_xof h1) (length k1)) /\
  snd (hmac_finalize_L perm v h1 k1) = snd (hmac_finalize_L perm v h2 k2).
Proof. exact c11_hmac. Qed.
Print Assumptions C11_modes_hmac.

(* ---- 6. HKDF: secrets prk, the previous block, the input keying material
   (salt and info may be public); public counter, posn, the two buffer lengths
   (pub_hkdf), |info|, outlen.  Composed all the way down through HMAC and the
   hash: no assumption about the per-block routine. ------------------------------ *)
Theorem C11_modes_hkdf : forall perm v s1 s2 i1 i2 outlen k1 k2 salt1 salt2,
  perm_len_ok perm -> v = vxof \/ v = vxofa ->
  pub_hkdf s1 = pub_hkdf s2 -> length i1 = length i2 -> length k1 = length k2 -> length salt1 = length salt2 ->
  (* expand on an object *)
  hkdf_expand_c_L perm v s1 i1 outlen =
    (hkdf_expand_c perm v s1 i1 outlen, tr_hkdf_expand v (pub_hkdf s1) (length i1) outlen) /\
  snd (hkdf_expand_c_L perm v s1 i1 outlen) = snd (hkdf_expand_c_L perm v s2 i2 outlen) /\
  pub_hkdf (fst (fst (hkdf_expand_c perm v s1 i1 outlen))) = pub_hkdf_expand (pub_hkdf s1) outlen /\
  (* extract, and the one-shot *)
  hkdf_extract_c_L perm v k1 salt1 =
    (hkdf_extract_c perm v k1 salt1, tr_hkdf_extract v (length k1) (length salt1)) /\
  pub_hkdf (hkdf_extract_c perm v k1 salt1) = (1, 32, 32, 32) /\
  hkdf_c_L perm v k1 salt1 i1 outlen =
    (hkdf_c perm v k1 salt1 i1 outlen, tr_hkdf v (length k1) (length salt1) (length i1) outlen) /\
  snd (hkdf_c_L perm v k1 salt1 i1 outlen) = snd (hkdf_c_L perm v k2 salt2 i2 outlen).
Proof. exact c11_hkdf. Qed.
Print Assumptions C11_modes_hkdf.

(* ---- 7. PBKDF2: secrets the password and T, U derived from it; public
   |password|, |salt|, count, outlen.  Full composition through
   xof_init_custom, the copied-state PRF, pb_loop, pb_f_c and pb_out. ------------ *)
Theorem C11_modes_pbkdf2 : forall perm pw1 pw2 salt1 salt2 count outlen, perm_len_ok perm ->
  length pw1 = length pw2 -> length salt1 = length salt2 ->
  pbkdf2_c_L perm pw1 salt1 count outlen =
    (pbkdf2_c perm pw1 salt1 count outlen, tr_pbkdf2 (length pw1) (length salt1) count outlen) /\
  snd (pbkdf2_c_L perm pw1 salt1 count outlen) = snd (pbkdf2_c_L perm pw2 salt2 count outlen).
Proof. exact c11_pbkdf2. Qed.
Print Assumptions C11_modes_pbkdf2.

(* ---- 8. the PRNG: secrets the sponge state, the seed bytes, the fed entropy;
   public count, mode, the byte counter (pub_prng), n, the lengths and the
   health flags of the system source (pub_sys) ------------------------------------ *)
Theorem C11_modes_prng : forall perm s1 s2 n sys1 sys2 d1 d2,
  pub_prng s1 = pub_prng s2 -> pub_sys sys1 = pub_sys sys2 -> length d1 = length d2 ->
  (* fetch *)
  prng_fetch_L perm s1 n sys1 = (prng_fetch perm s1 n sys1, tr_prng_fetch (pub_prng s1) n (pub_sys sys1)) /\
  snd (prng_fetch_L perm s1 n sys1) = snd (prng_fetch_L perm s2 n sys2) /\
  pub_prng (fst (fst (prng_fetch perm s1 n sys1))) = pub_prng (fst (fst (prng_fetch perm s2 n sys2))) /\
  (* reseed *)
  prng_reseed_L perm s1 sys1 =
    (prng_reseed perm s1 sys1, tr_reseed (pub_xof (r_xof s1)) (fst (fst (next_pub (pub_sys sys1))))) /\
  snd (prng_reseed_L perm s1 sys1) = snd (prng_reseed_L perm s2 sys2) /\
  pub_prng (fst (fst (prng_reseed perm s1 sys1))) = ((0, false), 0) /\
  (* feed *)
  prng_feed_L perm s1 d1 = (prng_feed perm s1 d1, tr_prng_feed (pub_xof (r_xof s1)) (length d1)) /\
  snd (prng_feed_L perm s1 d1) = snd (prng_feed_L perm s2 d2) /\
  pub_prng (prng_feed perm s1 d1) = ((0, false), r_counter s1) /\
  (* init *)
  prng_init_L perm sys1 = (prng_init perm sys1, tr_prng_init (fst (fst (next_pub (pub_sys sys1))))) /\
  snd (prng_init_L perm sys1) = snd (prng_init_L perm sys2) /\
  pub_prng (fst (fst (prng_init perm sys1))) = ((0, false), 0).
Proof. exact c11_prng. Qed.
Print Assumptions C11_modes_prng.

(* ---- 9. SIV, ISAP, KMAC / KDF initialisation, the incremental AEAD ----------- *)
Theorem C11_modes_siv : forall perm v K1 K2 N1 N2 A1 A2 P1 P2 C1 C2, perm_len_ok perm -> wf_variant v ->
  length K1 = length K2 -> length N1 = length N2 -> length A1 = length A2 ->
  length P1 = length P2 -> length C1 = length C2 ->
  siv_encrypt_c_L perm v K1 N1 A1 P1 =
    (siv_encrypt_c perm v K1 N1 A1 P1, tr_siv_encrypt v (length K1) (length N1) (length A1) (length P1)) /\
  snd (siv_encrypt_c_L perm v K1 N1 A1 P1) = snd (siv_encrypt_c_L perm v K2 N2 A2 P2) /\
  siv_decrypt_c_L perm v K1 N1 A1 C1 =
    (siv_decrypt_c perm v K1 N1 A1 C1, tr_siv_decrypt v (length K1) (length N1) (length A1) (length C1)) /\
  snd (siv_decrypt_c_L perm v K1 N1 A1 C1) = snd (siv_decrypt_c_L perm v K2 N2 A2 C2).
Proof. exact c11_siv. Qed.
Print Assumptions C11_modes_siv.

(* ISAP: the re-keying loop makes one pass per bit of the data; the bit absorbed
   is ((value << bit) & 0x80), computed without a test, so the trace of the loop
   is a function of the number of bits alone *)
Theorem C11_modes_isap : forall perm iv pk1 pk2 N1 N2 A1 A2 P1 P2 C1 C2 y1 y2,
  perm_len_ok perm -> i_klen iv <= 40 ->
  length (pk_ke pk1) = 40 -> length (pk_ka pk1) = 40 -> length (pk_ke pk2) = 40 -> length (pk_ka pk2) = 40 ->
  length N1 = length N2 -> length A1 = length A2 -> length P1 = length P2 -> length C1 = length C2 ->
  length y1 = length y2 ->
  (* re-keying: the absorbed bits are secret in the MAC *)
  isap_rekey_c_L perm iv (pk_ka pk1) y1 = (isap_rekey_c perm iv (pk_ka pk1) y1, tr_isap_rekey iv (length y1)) /\
  snd (isap_rekey_c_L perm iv (pk_ka pk1) y1) = snd (isap_rekey_c_L perm iv (pk_ka pk2) y2) /\
  isap_encrypt_c_L perm iv pk1 N1 A1 P1 =
    (isap_encrypt_c perm iv pk1 N1 A1 P1, tr_isap_encrypt iv (length N1) (length A1) (length P1)) /\
  snd (isap_encrypt_c_L perm iv pk1 N1 A1 P1) = snd (isap_encrypt_c_L perm iv pk2 N2 A2 P2) /\
  isap_decrypt_c_L perm iv pk1 N1 A1 C1 =
    (isap_decrypt_c perm iv pk1 N1 A1 C1, tr_isap_decrypt iv (length N1) (length A1) (length C1)) /\
  snd (isap_decrypt_c_L perm iv pk1 N1 A1 C1) = snd (isap_decrypt_c_L perm iv pk2 N2 A2 C2).
Proof. exact c11_isap. Qed.
Print Assumptions C11_modes_isap.

Theorem C11_modes_kmac_kdf_init : forall perm v k1 k2 c1 c2 outlen, length k1 = length k2 -> length c1 = length c2 ->
  kmac_init_L perm v k1 c1 outlen =
    (kmac_init perm v k1 c1 outlen, tr_kmac_init v (length k1) (length c1) outlen) /\
  snd (kmac_init_L perm v k1 c1 outlen) = snd (kmac_init_L perm v k2 c2 outlen) /\
  kdf_init_L perm v k1 c1 outlen =
    (kdf_init perm v k1 c1 outlen, tr_kdf_init v (length k1) (length c1) outlen) /\
  snd (kdf_init_L perm v k1 c1 outlen) = snd (kdf_init_L perm v k2 c2 outlen).
Proof. exact c11_kmac_kdf_init. Qed.
Print Assumptions C11_modes_kmac_kdf_init.

(* the incremental AEAD object: state, key and nonce bytes secret; posn and the
   buffer lengths (pub_inc) public *)
Theorem C11_modes_aead_inc : forall perm v s1 s2 A1 A2 d1 d2 tag1 tag2, perm_len_ok perm ->
  pub_inc s1 = pub_inc s2 -> length A1 = length A2 -> length d1 = length d2 -> length tag1 = length tag2 ->
  length (i_st s1) = 40 -> length (i_st s2) = 40 ->
  inc_start_L perm v s1 A1 =
    (inc_start perm v s1 A1, tr_inc_start v (length (i_key s1)) (length (i_nonce s1)) (length A1)) /\
  snd (inc_start_L perm v s1 A1) = snd (inc_start_L perm v s2 A2) /\
  inc_encrypt_block_L perm v s1 d1 =
    (inc_encrypt_block perm v s1 d1, tr_duplex (v_pb v) (v_rate v) (i_posn s1) (length d1)) /\
  snd (inc_encrypt_block_L perm v s1 d1) = snd (inc_encrypt_block_L perm v s2 d2) /\
  i_posn (fst (inc_encrypt_block perm v s1 d1)) = pos_duplex (v_rate v) (i_posn s1) (length d1) /\
  inc_decrypt_block_L perm v s1 d1 =
    (inc_decrypt_block perm v s1 d1, tr_duplex (v_pb v) (v_rate v) (i_posn s1) (length d1)) /\
  snd (inc_decrypt_block_L perm v s1 d1) = snd (inc_decrypt_block_L perm v s2 d2) /\
  i_posn (fst (inc_decrypt_block perm v s1 d1)) = pos_duplex (v_rate v) (i_posn s1) (length d1) /\
  inc_encrypt_finalize_L perm v s1 =
    (inc_encrypt_finalize perm v s1, tr_finalize v (i_posn s1) (length (i_key s1))) /\
  inc_decrypt_finalize_L perm v s1 tag1 =
    (inc_decrypt_finalize perm v s1 tag1,
     tr_finalize v (i_posn s1) (length (i_key s1)) ++ tr_check_tag 0 (Nat.min 16 (length tag1))) /\
  snd (inc_decrypt_finalize_L perm v s1 tag1) = snd (inc_decrypt_finalize_L perm v s2 tag2).
Proof. exact c11_aead_inc. Qed.
Print Assumptions C11_modes_aead_inc.

(* ---- 10. ascon_prf_short, ascon_random, ascon_random_save_seed / _load_seed:
   public are the lengths, the public part of the generator (pub_prng), of the
   system source (pub_sys) and of the storage callbacks' answers (pub_storage:
   region size, the counts read and write return - not the bytes read back) --- *)
Theorem C11_modes_rest : forall perm K1 K2 m1 m2 outlen n s1 s2 st1 st2 sys1 sys2,
  length K1 = length K2 -> length m1 = length m2 ->
  pub_prng s1 = pub_prng s2 -> pub_storage st1 = pub_storage st2 -> pub_sys sys1 = pub_sys sys2 ->
  prf_short_c_L perm K1 m1 outlen = (prf_short_c perm K1 m1 outlen, tr_prf_short (length K1) (length m1) outlen) /\
  snd (prf_short_c_L perm K1 m1 outlen) = snd (prf_short_c_L perm K2 m2 outlen) /\
  random_oneshot_L perm n sys1 = (random_oneshot perm n sys1, tr_random_oneshot n (pub_sys sys1)) /\
  snd (random_oneshot_L perm n sys1) = snd (random_oneshot_L perm n sys2) /\
  prng_save_seed_L perm s1 st1 sys1 =
    (prng_save_seed perm s1 st1 sys1, tr_save_seed (pub_prng s1) (pub_storage st1) (pub_sys sys1)) /\
  snd (prng_save_seed_L perm s1 st1 sys1) = snd (prng_save_seed_L perm s2 st2 sys2) /\
  prng_load_seed_L perm s1 st1 sys1 =
    (prng_load_seed perm s1 st1 sys1, tr_load_seed (pub_prng s1) (pub_storage st1) (pub_sys sys1)) /\
  snd (prng_load_seed_L perm s1 st1 sys1) = snd (prng_load_seed_L perm s2 st2 sys2).
Proof. exact c11_rest. Qed.
Print Assumptions C11_modes_rest.

(* ======================================================================== *)
(* Non-vacuity: the hypotheses are satisfiable, the traces are not empty,    *)
(* different secrets give the same trace, different public shapes do not.    *)
(* ======================================================================== *)
Definition exK1 : bytes := map N.of_nat (seq 1 16).
Definition exK2 : bytes := map N.of_nat (seq 101 16).
Definition exN : bytes := map N.of_nat (seq 50 16).
Definition exA : bytes := map N.of_nat (seq 7 5).
Definition exP1 : bytes := map N.of_nat (seq 20 11).
Definition exP2 : bytes := map N.of_nat (seq 80 11).

(* the hypotheses of the theorems hold for the real permutation and variants *)
Example C11_ex_hyps :
  perm_len_ok Perm.perm /\ wf_variant a128 /\ wf_variant a128a /\ wf_variant a80pq /\
  wf_kn a128 exK1 exN /\ wf_kn a128 exK2 exN /\
  xwf vxof (hmac_init Perm.perm vxof exK1) /\ i_klen isap128a <= 40 /\
  length (pk_ke (isap_init_c Perm.perm isap128a exK1)) = 40 /\
  length (pk_ka (isap_init_c Perm.perm isap128a exK1)) = 40.
Proof.
  split; [exact perm_len|]. split; [exact wf_a128|]. split; [exact wf_a128a|]. split; [exact wf_a80pq|].
  split; [split; reflexivity|]. split; [split; reflexivity|].
  split; [split; vm_compute; [reflexivity|lia]|]. split; [vm_compute; lia|].
  split; vm_compute; reflexivity.
Qed.

(* a concrete trace of the duplex routine: 20 bytes from position 3 at rate 8 -
   fill the block (5 bytes at offset 3), permute, one full block, permute, 7 left *)
Example C11_ex_duplex_trace :
  snd (duplex_c_L bf_enc (fun s => s) 6 8 (zeros 40, 3) (map N.of_nat (seq 0 20))) =
  [EBr s_partial true; EBr s_short false; EIdx b_state 3 5; EPerm 6;
   EBr s_loop true; EIdx b_state 0 8; EPerm 6; EBr s_loop false;
   EBr s_tail true; EIdx b_state 0 7].
Proof. vm_compute. reflexivity. Qed.

(* ASCON-128 with the real permutation: two different (key, plaintext) pairs
   give different ciphertexts and the same 25-event trace *)
Example C11_ex_encrypt_same :
  fst (encrypt_c_L Perm.perm a128 exK1 exN exA exP1) <> fst (encrypt_c_L Perm.perm a128 exK2 exN exA exP2) /\
  snd (encrypt_c_L Perm.perm a128 exK1 exN exA exP1) = snd (encrypt_c_L Perm.perm a128 exK2 exN exA exP2) /\
  length (snd (encrypt_c_L Perm.perm a128 exK1 exN exA exP1)) = 25.
Proof. split; [vm_compute; discriminate|]. split; vm_compute; reflexivity. Qed.

(* the trace is discriminating: one more plaintext byte (a public change), or
   dropping the associated data, changes it *)
Example C11_ex_encrypt_differs :
  snd (encrypt_c_L Perm.perm a128 exK1 exN exA exP1) <> snd (encrypt_c_L Perm.perm a128 exK1 exN exA (exP1 ++ [0%N])) /\
  snd (encrypt_c_L Perm.perm a128 exK1 exN exA exP1) <> snd (encrypt_c_L Perm.perm a128 exK1 exN [] exP1) /\
  snd (xof_absorb_L Perm.perm vxof {| x_st := zeros 40; x_count := 3; x_mode := false |} exP1) <>
  snd (xof_absorb_L Perm.perm vxof {| x_st := zeros 40; x_count := 4; x_mode := false |} exP1).
Proof. repeat split; vm_compute; discriminate. Qed.

(* decryption: an accepted and a rejected ciphertext (last tag byte flipped)
   have different results and the same trace *)
Example C11_ex_decrypt_accept_reject :
  let C := fst (encrypt_c Perm.perm a128 exK1 exN exA exP1) in
  let C' := firstn 26 C ++ [N.lxor (nth 26 C 0%N) 1] in
  fst (decrypt_c_L Perm.perm a128 exK1 exN exA C) = DecDone 0 exP1 /\
  fst (decrypt_c_L Perm.perm a128 exK1 exN exA C') = DecDone (-1) (zeros 11) /\
  snd (decrypt_c_L Perm.perm a128 exK1 exN exA C) = snd (decrypt_c_L Perm.perm a128 exK1 exN exA C') /\
  snd (decrypt_c_L Perm.perm a128 exK1 exN exA C) = snd (decrypt_c_L Perm.perm a128 exK2 exN exA C) /\
  length (snd (decrypt_c_L Perm.perm a128 exK1 exN exA C)) = 98.
Proof. vm_compute. repeat split. Qed.

(* the composed routines on the real permutation: different secrets, same
   (long) trace; and a public change is visible *)
Example C11_ex_composed :
  snd (hmac_run_L Perm.perm vxof exK1 [exP1; exA]) = snd (hmac_run_L Perm.perm vxof exK2 [exP2; exA]) /\
  length (snd (hmac_run_L Perm.perm vxof exK1 [exP1; exA])) > 100 /\
  snd (hkdf_c_L Perm.perm vxof exK1 exA exP1 40) = snd (hkdf_c_L Perm.perm vxof exK2 exA exP2 40) /\
  length (snd (hkdf_c_L Perm.perm vxof exK1 exA exP1 40)) > 400 /\
  snd (hkdf_c_L Perm.perm vxof exK1 exA exP1 40) <> snd (hkdf_c_L Perm.perm vxof exK1 exA exP1 20) /\
  snd (pbkdf2_c_L Perm.perm exK1 exA 3 40) = snd (pbkdf2_c_L Perm.perm exK2 exA 3 40) /\
  length (snd (pbkdf2_c_L Perm.perm exK1 exA 3 40)) > 200 /\
  snd (pbkdf2_c_L Perm.perm exK1 exA 3 40) <> snd (pbkdf2_c_L Perm.perm exK1 exA 4 40) /\
  snd (mac_verify_c_L Perm.perm exN exK1 exP1) = snd (mac_verify_c_L Perm.perm (mac_c Perm.perm exK1 exP1) exK1 exP1) /\
  mac_verify_c Perm.perm exN exK1 exP1 = (-1)%Z /\
  mac_verify_c Perm.perm (mac_c Perm.perm exK1 exP1) exK1 exP1 = 0%Z.
Proof.
  split; [vm_compute; reflexivity|]. split; [vm_compute; lia|].
  split; [vm_compute; reflexivity|]. split; [vm_compute; lia|].
  split; [intros H; apply (f_equal (@length ev)) in H; vm_compute in H; discriminate|].
  split; [vm_compute; reflexivity|]. split; [vm_compute; lia|].
  split; [intros H; apply (f_equal (@length ev)) in H; vm_compute in H; discriminate|].
  split; [vm_compute; reflexivity|]. split; vm_compute; reflexivity.
Qed.

(* the PRNG: two generators with different seeds and the same public state
   fetch with the same trace; at the reseed limit the trace shows the reseed *)
Example C11_ex_prng :
  let sysA := [(map N.of_nat (seq 0 32), true); (map N.of_nat (seq 5 32), false)] in
  let sysB := [(map N.of_nat (seq 100 32), true); (map N.of_nat (seq 9 32), false)] in
  let sA := fst (fst (prng_init Perm.perm sysA)) in
  let sB := fst (fst (prng_init Perm.perm sysB)) in
  x_st (r_xof sA) <> x_st (r_xof sB) /\ pub_prng sA = pub_prng sB /\ pub_sys sysA = pub_sys sysB /\
  snd (prng_fetch_L Perm.perm sA 21 (tl sysA)) = snd (prng_fetch_L Perm.perm sB 21 (tl sysB)) /\
  length (snd (prng_fetch_L Perm.perm sA 21 (tl sysA))) = 34 /\
  length (snd (prng_fetch_L Perm.perm {| r_xof := r_xof sA; r_counter := reseed_limit |} 21 (tl sysA))) = 66.
Proof. vm_compute. repeat split. discriminate. Qed.

(* SIV and ISAP on the real permutation *)
Example C11_ex_siv_isap :
  let pk1 := isap_init_c Perm.perm isap128a exK1 in
  let pk2 := isap_init_c Perm.perm isap128a exK2 in
  snd (siv_encrypt_c_L Perm.perm a128 exK1 exN exA exP1) = snd (siv_encrypt_c_L Perm.perm a128 exK2 exN exA exP2) /\
  length (snd (siv_encrypt_c_L Perm.perm a128 exK1 exN exA exP1)) > 30 /\
  snd (isap_encrypt_c_L Perm.perm isap128a pk1 exN exA exP1) = snd (isap_encrypt_c_L Perm.perm isap128a pk2 exN exA exP2) /\
  fst (isap_encrypt_c_L Perm.perm isap128a pk1 exN exA exP1) <> fst (isap_encrypt_c_L Perm.perm isap128a pk2 exN exA exP2) /\
  length (snd (isap_rekey_c_L Perm.perm isap128a (pk_ka pk1) exK1)) = 4 * 127 + 1 + 1 + 3.
Proof.
  split; [vm_compute; reflexivity|]. split; [vm_compute; lia|].
  split; [vm_compute; reflexivity|]. split; [vm_compute; discriminate|vm_compute; reflexivity].
Qed.

(* load_seed with different stored seeds and different generator states *)
Example C11_ex_load_seed :
  let sysA := [(map N.of_nat (seq 0 32), true); (map N.of_nat (seq 5 32), false)] in
  let sysB := [(map N.of_nat (seq 100 32), true); (map N.of_nat (seq 9 32), false)] in
  let sA := fst (fst (prng_init Perm.perm sysA)) in
  let sB := fst (fst (prng_init Perm.perm sysB)) in
  let stA := Some {| st_size := 64; st_read := (32%Z, map N.of_nat (seq 3 32)); st_write := 32%Z |} in
  let stB := Some {| st_size := 64; st_read := (32%Z, map N.of_nat (seq 77 32)); st_write := 32%Z |} in
  pub_storage stA = pub_storage stB /\
  snd (prng_load_seed_L Perm.perm sA stA (tl sysA)) = snd (prng_load_seed_L Perm.perm sB stB (tl sysB)) /\
  length (snd (prng_load_seed_L Perm.perm sA stA (tl sysA))) > 100.
Proof. split; [reflexivity|]. split; [vm_compute; reflexivity|vm_compute; lia]. Qed.

(* --- kernels: appended by the lead --- *)

(* ======================================================================== *)
(* Layer 1: kernels and the mode-level C functions themselves, from the     *)
(* regenerated table of the symbolic executor (tools/kern_ct.py).           *)
(* ======================================================================== *)
(* The executor (tools/symx.py, llvmx.py, symx_arith.py - Python, trusted) runs clang's LLVM IR of the
   CURRENT source with every data byte symbolic and only the public scalars concrete; it raises Stuck on any
   branch / select / switch condition, pointer offset, shift amount or copy length that is not a constant, so a
   run that completes has a leakage trace (jumps, (region, offset, size) of each access, callees) computed
   without looking at a data bit.  The stuck semantics is in the Python executor, not in Coq; what Coq
   re-checks on the regenerated table Gen/CtKernels.v is stated here in full:
     1. every run of every function completed (>= 1 instruction, non-empty trace; a stuck run is emitted with
        0 instructions) and the hash of its all-symbolic trace equals the hashes of the traces obtained with
        only part of the data symbolic and with concrete data;
     2. every hand-listed kernel (Obl/CtObl.ct_required) is present with exactly its list of public control
        tuples: ascon_aead_check_tag for plaintext_len 0..20 x size {16,0,1,8,32}; ascon_aead_increment_nonce;
        the six byte-range operations for all 861 (offset,size) with offset+size <= 40 on the 64-bit sliced,
        32-bit sliced and direct-xor state; every masked-word function of the x86-64 ASSEMBLY (the code the default
        build uses, executed through tools/asm_x86.py), C64 and C32 back ends (load/store_partial for size 0..7,
        replace 1..7, pad 0..7); ascon_permute (x86-64 assembly, c64, c32, direct-xor) and the masked permutations
        x2/x3/x4 (x86-64 assembly, c64, c32) for first_round 0..12;
     3. every keyed public function listed in Obl/CtObl.ct_required_modes (one-shot and incremental AEAD x3,
        SIV x3, ISAP x3 incl. the bit-absorbing re-keying loop, PRF/MAC/mac_verify/prf_short and the PRF
        object, HMAC/HMACA, HKDF(A) one-shot and expand, PBKDF2 and PBKDF2-HMAC, KMAC(A), KDF(A), the PRNG
        init/reseed/fetch/feed, the random-source mixer that produces the masking words) is present, in the default (x86-64), 32-bit sliced and direct-xor
        configurations (HMAC family: default and 32-bit), with all its shapes completed.  In these runs only
        ascon_permute is external (each call replaces the state by fresh symbolic bytes). *)
From Coq Require Import List NArith String Bool.
From AsconV Require Import Sym.CtTable Gen.CtKernels Obl.CtObl Obl.CtTie.
From AsconV Require Sym.Kernel Gen.Kern_x86_64.

Theorem C11_kernels :
  forallb ct_entry_ok ct_entries && forallb (req_met ct_entries) ct_required &&
  forallb (mode_present ct_entries) ct_required_modes = true.
Proof. exact ct_table_checked. Qed.
Print Assumptions C11_kernels.

(* Key life cycles (ISAP init / save_key / load_key / free, *_aead_init / _reinit with every combination of given, NULL and
   own-field pointers, prf / prf_fixed / hmac(a) / kmac(a) / kdf(a) *_reinit): the 76 (function, configuration) requirements of
   Obl/CtObl.ct_required_lifecycle - 385 control tuples, key / saved key image / nonce contents symbolic, lengths and pointer
   nullness concrete - are part of ct_required above and every one is met by the regenerated table with EXACTLY its tuple list. *)
Theorem C11_key_lifecycle_kernels :
  forallb (req_met ct_entries) ct_required_lifecycle = true /\
  List.length ct_required_lifecycle = 76%nat /\ ct_lifecycle_tuples = 385%nat /\
  incl ct_required_lifecycle ct_required /\
  req_has "ascon80pq_isap_aead_load_key" "c32" [] ct_required_lifecycle = true /\
  req_has "ascon128a_isap_aead_save_key" "directxor" [] ct_required_lifecycle = true /\
  req_has "ascon80pq_aead_reinit" "default" [2; 0]%N ct_required_lifecycle = true /\
  req_has "ascon_prf_fixed_reinit" "c32" [536870912]%N ct_required_lifecycle = true /\
  req_has "ascon_hmaca_reinit" "default" [65]%N ct_required_lifecycle = true /\
  req_has "ascon_kmac_reinit" "directxor" [33; 5; 32]%N ct_required_lifecycle = true /\
  req_has "ascon_kdfa_reinit" "default" [0; 0; 41]%N ct_required_lifecycle = true.
Proof. exact ct_lifecycle_checked. Qed.
Print Assumptions C11_key_lifecycle_kernels.

(* Layers 1 and 2 meet: for every mode-level function with a trace function in Model/Leak.v and every shape in
   the table, the first rounds of the permutation calls the executor saw in the C, in order, are the EPerm events
   of the model's predicted trace for the same public lengths (Obl/CtTie.predict maps function names and
   control tuples to tr_encrypt, tr_decrypt, tr_siv_*, tr_isap_*, tr_duplex, tr_inc_start, tr_finalize,
   tr_prf_oneshot, tr_mac_verify, tr_prf_short, tr_xof_absorb, tr_xof_squeeze, tr_hmac_run, tr_hkdf,
   tr_hkdf_expand, tr_pbkdf2, tr_prng_init / _fetch / _feed, tr_reseed). *)
Theorem C11_model_matches_C_perm_calls :
  forallb (fun e => negb (String.eqb (ce_group e) "mode") ||
                    forallb (fun r => match predict (ce_fn e) (r_ctl r) with
                                      | Some t => nlist_eqb (perms_of t) (r_perms r)
                                      | None => true end) (ce_runs e)) ct_entries = true.
Proof. exact tie_checked. Qed.
Print Assumptions C11_model_matches_C_perm_calls.

(* The x86-64 assembly permutation (the default back end) is executed by the same stuck semantics through
   tools/asm_x86.py (tools/kern_perm.py): a chain of straight-line segments exists for every first_round 0..12,
   i.e. no jump, address or shift count of ascon-asm-x86-64.S depended on the 320 symbolic state bits
   (that the chains compute the permutation is C08). *)
Theorem C11_kernel_perm_x86_64_asm :
  map fst Gen.Kern_x86_64.x86_64_chains = seq 0 13 /\
  forallb (fun kc => negb (match snd kc with [] => true | _ => false end)) Gen.Kern_x86_64.x86_64_chains = true.
Proof. split; vm_compute; reflexivity. Qed.
Print Assumptions C11_kernel_perm_x86_64_asm.

(* non-vacuity: the table is not empty and the tie really compares non-empty sequences; e.g. ASCON-128
   encryption of 19 bytes with 8 bytes of associated data makes the permutation calls 0,6,6,6,6,0 in the C,
   which is what the model predicts *)
Example C11_ex_table :
  (200 <=? List.length ct_entries)%nat = true /\ (15000 <=? ct_count_runs)%nat = true /\ (3000 <=? tie_runs)%nat = true /\
  (100 <=? List.length tie_predicted)%nat = true /\
  perms_of (tr_encrypt Spec.Aead.a128 16 16 8 19) = [0; 6; 6; 6; 6; 0]%N /\
  existsb (fun e => String.eqb (ce_fn e) "ascon128_aead_encrypt" &&
                    existsb (fun r => nlist_eqb (r_ctl r) [8; 19]%N && nlist_eqb (r_perms r) [0; 6; 6; 6; 6; 0]%N) (ce_runs e))
          ct_entries = true.
Proof. repeat split; vm_compute; reflexivity. Qed.
