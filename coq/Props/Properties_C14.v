(* C14 - session nonces advance by exactly one per packet, big-endian, with full carry. *)
From AsconV Require Import Model.Noncem Proofs.AeadP Proofs.NonceP Proofs.PermP Props.Properties_C01.
Local Open Scope nat_scope.

(* +1 as a 128-bit big-endian integer: carry through all 16 bytes, wrap at 2^128 *)
Theorem C14_incr : forall n, length n = 16 ->
  be_decode (increment_nonce n) = ((be_decode n + 1) mod 2 ^ 128)%N /\
  length (increment_nonce n) = 16 /\ bytes_ok (increment_nonce n).
Proof.
  intros n Hn. destruct (increment_nonce_spec n) as (A & B & C). rewrite Hn in A, B. split; [exact A|split; [exact B|exact C]].
Qed.
Print Assumptions C14_incr.

Theorem C14_set_counter : forall c, (c < 2 ^ 64)%N ->
  length (set_counter c) = 16 /\ be_decode (set_counter c) = c /\ firstn 8 (set_counter c) = zeros 8.
Proof. exact set_counter_spec. Qed.
Print Assumptions C14_set_counter.

Theorem C14_set_nonce : forall b,
  length (set_nonce b) = 16 /\
  (16 <= length b -> set_nonce b = firstn 16 b) /\
  (length b < 16 -> set_nonce b = zeros (16 - length b) ++ b /\ be_decode (set_nonce b) = be_decode b).
Proof. exact set_nonce_spec. Qed.
Print Assumptions C14_set_nonce.

(* every packet of an incremental session (any number of packets, any chunking
   of each) equals the one-shot encryption under the starting nonce + i *)
Theorem C14_session : forall v s packets, variant_ok v -> wf_kn v (i_key s) (i_nonce s) ->
  session_encrypt Perm.perm v s packets = session_spec Perm.perm v (i_key s) (i_nonce s) packets.
Proof. intros v s packets Hv. exact (session_encrypt_spec Perm.perm perm_len v (variant_wf v Hv) packets s). Qed.
Print Assumptions C14_session.

Theorem C14_session_packet_i : forall v K N packets i A chunks, nth_error packets i = Some (A, chunks) ->
  nth_error (session_spec Perm.perm v K N packets) i = Some (Aead.encrypt Perm.perm v K (nonce_add N i) A (concat chunks)).
Proof. intros v K N packets. exact (session_spec_nth Perm.perm v K N packets). Qed.
Print Assumptions C14_session_packet_i.

Example C14_nonvacuous :
  let n := repeat 255%N 16 in let m := [1; 2; 255; 255; 255]%N ++ repeat 255%N 11 in
  increment_nonce n = repeat 0%N 16 /\ increment_nonce m = [1; 3; 0; 0; 0]%N ++ repeat 0%N 11 /\
  set_nonce [1; 2; 3]%N = repeat 0%N 13 ++ [1; 2; 3]%N.
Proof. vm_compute. repeat split. Qed.

(* (T) the C helpers themselves: ascon_aead_increment_nonce and ascon_aead_set_counter of src/aead/ascon-aead-util.c are
   re-translated from /repo on every run (clang -O1 LLVM IR, all 16 nonce bytes and the 64-bit counter symbolic; the 16-bit carry
   arithmetic becomes an and/xor/shift network); for ALL nonces / counters the stored bytes equal the specification program
   (increment: ripple carry from the last byte through all sixteen; set_counter: eight zero bytes then the counter big-endian) *)
From Coq Require Import String.
From AsconV Require Import Sym.Wexpr Sym.Pipe Obl.FnObl Obl.MWordCover Gen.TagObl.
Theorem C14_helpers_translated : forall o, In o nonce_obls ->
  forall v : list (list bool), widths_of v = fo_widths o ->
  run BoolAlg (run BoolAlg v (fo_prog o)) (fo_post o) = run BoolAlg v (fo_spec o).
Proof. exact (fn_obl_sound_printed _ nonce_obls_ok). Qed.
Print Assumptions C14_helpers_translated.
(* the same with the specification side written by hand: the printed fo_post / fo_spec above are checked to be, syntactically, the
   identity and Obl/MWordSpec.incr128_spec (ripple carry from byte 15 through byte 0: per byte, bit k flips iff the carry-in and bits
   0..k-1 are set, carry-out iff the carry-in and all eight bits are set) / Obl/MWordSpec.setctr_spec (eight zero bytes, then the
   64-bit argument most significant byte first); the table contains both helpers (req_nonce), each under its C name. *)
Theorem C14_helpers_translated_std : table_correct nonce_obls req_nonce.
Proof. exact (table_sound _ _ nonce_obls_ok nonce_covers). Qed.
Print Assumptions C14_helpers_translated_std.
Theorem C14_helpers_spec_examples :
  run BoolAlg (bytes_in (repeat 255%N 16)) incr128_spec = bytes_in (repeat 0%N 16) /\
  run BoolAlg (bytes_in ([1; 2; 255; 255; 255] ++ repeat 255 11)%N) incr128_spec = bytes_in ([1; 3; 0; 0; 0] ++ repeat 0 11)%N /\
  run BoolAlg (bytes_in (repeat 0%N 15 ++ [254%N])) incr128_spec = bytes_in (repeat 0%N 15 ++ [255%N]) /\
  run BoolAlg (bytes_in (repeat 7%N 14 ++ [128; 255]%N)) incr128_spec = bytes_in (repeat 7%N 14 ++ [129; 0]%N).
Proof. exact incr128_spec_examples. Qed.
Print Assumptions C14_helpers_spec_examples.
Example C14_helpers_present : List.map fo_name nonce_obls = ["ascon_aead_increment_nonce"%string; "ascon_aead_set_counter"%string].
Proof. reflexivity. Qed.
