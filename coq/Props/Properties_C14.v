(* C14 - session nonces advance by exactly one per packet, big-endian, with full carry. *)
From AsconV Require Import Model.Noncem Proofs.AeadP Proofs.NonceP Proofs.IncDecP Proofs.PermP Props.Properties_C01.
From Coq Require Import ZArith.
Local Open Scope nat_scope.

(* +1 as a 128-bit big-endian integer: carry through all 16 bytes, wrap at 2^128 *)
Theorem C14_incr : forall n, length n = 16 ->
  be_decode (increment_nonce n) = ((be_decode n + 1) mod 2 ^ 128)%N /\
  length (increment_nonce n) = 16 /\ bytes_ok (increment_nonce n).
Proof.
  intros n Hn. destruct (increment_nonce_spec n) as (A & B & C). rewrite Hn in A, B. split; [exact A|split; [exact B|exact C]].
Qed.
Print Assumptions C14_incr.

Theorem C14_set_counter : forall c, (c < 2 ^ 64)%N ->
  length (set_counter c) = 16 /\ be_decode (set_counter c) = c /\ firstn 8 (set_counter c) = zeros 8.
Proof. exact set_counter_spec. Qed.
Print Assumptions C14_set_counter.

Theorem C14_set_nonce : forall b,
  length (set_nonce b) = 16 /\
  (16 <= length b -> set_nonce b = firstn 16 b) /\
  (length b < 16 -> set_nonce b = zeros (16 - length b) ++ b /\ be_decode (set_nonce b) = be_decode b).
Proof. exact set_nonce_spec. Qed.
Print Assumptions C14_set_nonce.

(* every packet of an incremental session (any number of packets, any chunking
   of each) equals the one-shot encryption under the starting nonce + i *)
Theorem C14_session : forall v s packets, variant_ok v -> wf_kn v (i_key s) (i_nonce s) ->
  session_encrypt Perm.perm v s packets = session_spec Perm.perm v (i_key s) (i_nonce s) packets.
Proof. intros v s packets Hv. exact (session_encrypt_spec Perm.perm perm_len v (variant_wf v Hv) packets s). Qed.
Print Assumptions C14_session.

Theorem C14_session_packet_i : forall v K N packets i A chunks, nth_error packets i = Some (A, chunks) ->
  nth_error (session_spec Perm.perm v K N packets) i = Some (Aead.encrypt Perm.perm v K (nonce_add N i) A (concat chunks)).
Proof. intros v K N packets. exact (session_spec_nth Perm.perm v K N packets). Qed.
Print Assumptions C14_session_packet_i.

(* Sessions mixing encryption and decryption (Proofs/IncDecP.v: packet, packet_run, session_run compose the model functions
   inc_start / inc_encrypt_block / inc_decrypt_block / inc_encrypt_finalize / inc_decrypt_finalize; nothing else).
   What the code does (src/aead/ascon-aead-inc-128.c, -128a.c, -80pq.c, read again for this statement): the ONLY write to
   state->nonce after init/reinit is the last statement of *_aead_start, "ascon_aead_increment_nonce(state->nonce)", executed
   unconditionally after the nonce has been copied into the ASCON state; *_encrypt_block, *_decrypt_block, *_encrypt_finalize and
   *_decrypt_finalize never touch the field.  So the increment happens when a packet STARTS, before it is known whether the packet
   will be encrypted or decrypted, and a decryption that fails leaves the nonce advanced like one that succeeds.  (The "no
   increment on failure" rule of the property text is about the C++ objects only: C17_packet.)

   A session: any object s holding key K and nonce N, any list of packets; a packet is PEnc A chunks (encrypt the chunks) or
   PDec A chunks tag (decrypt the chunks, finalize with tag - genuine or forged), any chunking incl. empty chunks.
   session_run returns the final object and, per packet, the nonce field read back after the packet and the packet's outputs. *)

(* the nonce part needs no hypothesis at all (any variant record, any key/nonce lengths, any tags): after packet i the field holds
   N + i + 1, i.e. increment_nonce applied i + 1 times *)
Theorem C14_session_nonces : forall v s packets i, i < length packets ->
  exists o, nth_error (snd (session_run Perm.perm v s packets)) i = Some (nonce_add (i_nonce s) (S i), o).
Proof. intros v s packets i. exact (session_run_nonces Perm.perm v packets s i). Qed.
Print Assumptions C14_session_nonces.

(* packet i is processed under N + i whatever the kinds and verdicts of packets 0..i-1: an encrypt packet yields the one-shot
   ciphertext || tag under N + i; a decrypt packet returns as many bytes per call as it was given, 0 and the plaintext m exactly
   when the specification decrypts body || tag under N + i to Some m, -1 otherwise, and that verdict is the one-shot decrypt_c's
   under N + i (packet_ok spells the three clauses out); and the field afterwards is N + i + 1 *)
Theorem C14_session_mixed : forall v s packets i p, variant_ok v ->
  wf_kn v (i_key s) (i_nonce s) -> bytes_ok (i_key s) -> Forall packet_wf packets ->
  nth_error packets i = Some p ->
  exists o, nth_error (snd (session_run Perm.perm v s packets)) i = Some (nonce_add (i_nonce s) (S i), o) /\
            packet_ok Perm.perm v (i_key s) (nonce_add (i_nonce s) i) p o.
Proof. intros v s packets i p Hv. exact (session_run_nth Perm.perm perm_len v (variant_wf v Hv) perm_ok packets s i p). Qed.
Print Assumptions C14_session_mixed.

(* the object after the whole session: key unchanged, nonce N + number of packets, one result per packet *)
Theorem C14_session_final : forall v s packets, variant_ok v ->
  wf_kn v (i_key s) (i_nonce s) -> bytes_ok (i_key s) -> Forall packet_wf packets ->
  i_key (fst (session_run Perm.perm v s packets)) = i_key s /\
  i_nonce (fst (session_run Perm.perm v s packets)) = nonce_add (i_nonce s) (length packets) /\
  length (snd (session_run Perm.perm v s packets)) = length packets.
Proof. intros v s packets Hv. exact (session_run_final Perm.perm perm_len v (variant_wf v Hv) perm_ok packets s). Qed.
Print Assumptions C14_session_final.

(* nonce_add n i, the i-fold increment, is N + i modulo 2^128 as a big-endian integer *)
Theorem C14_nonce_add : forall n i, length n = 16 -> bytes_ok n ->
  be_decode (nonce_add n i) = ((be_decode n + N.of_nat i) mod 2 ^ 128)%N /\ length (nonce_add n i) = 16.
Proof. intros n i Hn Hok. split; [exact (nonce_add_val n i Hn Hok)|]. rewrite nonce_add_length. exact Hn. Qed.
Print Assumptions C14_nonce_add.

(* a session never repeats a nonce before 2^128 packets: the i-th and j-th successors of one starting nonce differ *)
Theorem C14_nonces_distinct : forall n i j, length n = 16 -> bytes_ok n -> i < j ->
  (N.of_nat j - N.of_nat i < 2 ^ 128)%N -> nonce_add n i <> nonce_add n j.
Proof. exact nonce_add_distinct. Qed.
Print Assumptions C14_nonces_distinct.

Example C14_nonvacuous :
  let n := repeat 255%N 16 in let m := [1; 2; 255; 255; 255]%N ++ repeat 255%N 11 in
  increment_nonce n = repeat 0%N 16 /\ increment_nonce m = [1; 3; 0; 0; 0]%N ++ repeat 0%N 11 /\
  set_nonce [1; 2; 3]%N = repeat 0%N 13 ++ [1; 2; 3]%N.
Proof. vm_compute. repeat split. Qed.

(* a mixed session on one ASCON-128 object, nonce 00..00 ff ff fe (the start of packet 1 carries through three bytes into byte 12): encrypt, forged
   decrypt (one tag bit wrong), genuine decrypt of a model-made ciphertext under N+2, encrypt: verdicts 0 / -1 / 0 as they
   should be, nonce field N+1..N+4 after the packets, packet 3 = one-shot under N+3 *)
Example C14_mixed_nonvacuous :
  let K := map N.of_nat (seq 0 16) in let N0 := repeat 0%N 13 ++ [255; 255; 254]%N in
  let A := [7; 8; 9]%N in let P := map N.of_nat (seq 100 21) in
  let C2 := Aead.encrypt Perm.perm a128 K (nonce_add N0 2) A P in
  let C1 := Aead.encrypt Perm.perm a128 K (nonce_add N0 1) [] P in
  let packets := [PEnc A [firstn 3 P; skipn 3 P];
                  PDec [] [firstn 9 C1; []; skipn 9 (firstn 21 C1)] (xor_at (skipn 21 C1) 0 [128%N]);
                  PDec A [firstn 16 C2; skipn 16 (firstn 21 C2)] (skipn 21 C2);
                  PEnc [] [P]] in
  let s := inc_init a128 (Some N0) (Some K) in
  wf_kn a128 (i_key s) (i_nonce s) /\ bytes_ok (i_key s) /\ Forall packet_wf packets /\
  map fst (snd (session_run Perm.perm a128 s packets)) =
    [repeat 0%N 13 ++ [255; 255; 255]%N; repeat 0%N 12 ++ [1; 0; 0; 0]%N; repeat 0%N 12 ++ [1; 0; 0; 1]%N; repeat 0%N 12 ++ [1; 0; 0; 2]%N] /\
  map snd (snd (session_run Perm.perm a128 s packets)) =
    [OEnc (Aead.encrypt Perm.perm a128 K N0 A P);
     ODec (-1) [firstn 9 P; []; skipn 9 P];
     ODec 0 [firstn 16 P; skipn 16 P];
     OEnc (Aead.encrypt Perm.perm a128 K (nonce_add N0 3) [] P)].
Proof. vm_compute. repeat split; repeat constructor. Qed.

(* (T) the C helpers themselves: ascon_aead_increment_nonce and ascon_aead_set_counter of src/aead/ascon-aead-util.c are
   re-translated from /repo on every run (clang -O1 LLVM IR, all 16 nonce bytes and the 64-bit counter symbolic; the 16-bit carry
   arithmetic becomes an and/xor/shift network); for ALL nonces / counters the stored bytes equal the specification program
   (increment: ripple carry from the last byte through all sixteen; set_counter: eight zero bytes then the counter big-endian) *)
From Coq Require Import String.
From AsconV Require Import Sym.Wexpr Sym.Pipe Obl.FnObl Obl.MWordCover Gen.TagObl.
Theorem C14_helpers_translated : forall o, In o nonce_obls ->
  forall v : list (list bool), widths_of v = fo_widths o ->
  run BoolAlg (run BoolAlg v (fo_prog o)) (fo_post o) = run BoolAlg v (fo_spec o).
Proof. exact (fn_obl_sound_printed _ nonce_obls_ok). Qed.
Print Assumptions C14_helpers_translated.
(* the same with the specification side written by hand: the printed fo_post / fo_spec above are checked to be, syntactically, the
   identity and Obl/MWordSpec.incr128_spec (ripple carry from byte 15 through byte 0: per byte, bit k flips iff the carry-in and bits
   0..k-1 are set, carry-out iff the carry-in and all eight bits are set) / Obl/MWordSpec.setctr_spec (eight zero bytes, then the
   64-bit argument most significant byte first); the table contains both helpers (req_nonce), each under its C name. *)
Theorem C14_helpers_translated_std : table_correct nonce_obls req_nonce.
Proof. exact (table_sound _ _ nonce_obls_ok nonce_covers). Qed.
Print Assumptions C14_helpers_translated_std.
Theorem C14_helpers_spec_examples :
  run BoolAlg (bytes_in (repeat 255%N 16)) incr128_spec = bytes_in (repeat 0%N 16) /\
  run BoolAlg (bytes_in ([1; 2; 255; 255; 255] ++ repeat 255 11)%N) incr128_spec = bytes_in ([1; 3; 0; 0; 0] ++ repeat 0 11)%N /\
  run BoolAlg (bytes_in (repeat 0%N 15 ++ [254%N])) incr128_spec = bytes_in (repeat 0%N 15 ++ [255%N]) /\
  run BoolAlg (bytes_in (repeat 7%N 14 ++ [128; 255]%N)) incr128_spec = bytes_in (repeat 7%N 14 ++ [129; 0]%N).
Proof. exact incr128_spec_examples. Qed.
Print Assumptions C14_helpers_spec_examples.
Example C14_helpers_present : List.map fo_name nonce_obls = ["ascon_aead_increment_nonce"%string; "ascon_aead_set_counter"%string].
Proof. reflexivity. Qed.
