(* C19 - the command-line tools asconcrypt and asconsum.
   Statements only, closed by [exact]; proofs in Proofs/ClimP.v and Proofs/ClimSumP.v.

   The model (Model/Clim.v) is the I/O logic of the two programs over an
   abstract file system with a fault oracle.  The cryptography is a
   parameter: [K : crypto] bundles PBKDF2, ASCON-80pq-SIV and the incremental
   ASCON-80pq AEAD; [crypto_good K] is what is assumed about it -
     lengths; exactness of SIV and of the AEAD in the shape of C02_exact
       (dec k n ad c = Some m <-> length c = length m + 16 /\ enc k n ad m = c);
     the incremental interface equals the one-shot function for every split
       into blocks (the shape of C01_incremental, and its decryption twin).
   [Main_crypt K bufsiz cfg o enc src w files] is asconcrypt -e/-d with -p/-k
   on (input, output) pairs; cfg = shipped is the pinned tree, cfg = fixed the
   tree with fixes/C19-write-errors.patch.  [nofail o]: no call fails (short
   reads and writes are allowed).  [world0 fs]: fresh process on file system fs.

   [Main_args0 K bufsiz cfg o fx oc a t w] is main() of asconcrypt after getopt:
   a = the parsed options (direction or none, -p, -k, -o, INPUT names), t = the
   terminal (is it one; what getpass returns), oc k = the k-th close(2) of an output
   descriptor reports an error, fx = which of the two proposed patches are in (as_is: none;
   m_close: fixes/C19-close-errors.patch, m_pwlen: fixes/C19-typed-password-length.patch).  stdin/stdout ("-") are files
   with reserved names (main_args moves them in and out).

   Not modelled: getopt itself, "-" given more than once, directories, the 1 TiB
   limit, EINTR retries, close(2) results of read descriptors. *)
From AsconV Require Import Model.Clim Proofs.ClimP Proofs.ClimSumP Proofs.ClimArgsP.
Local Open Scope nat_scope.

(* Round trip, for every content, size, password (< 1024 bytes), random salt / key /
   nonce, BUFSIZ > 16, under any pattern of short reads and writes in both runs:
   both runs exit 0 with empty stderr, the encrypted file is the image
   header || SIV block || ciphertext || tag, decryption restores the content. *)
Theorem C19_roundtrip : forall (K : crypto) bufsiz cfg o1 o2 pw fs inf encf outf content salt kn2,
  crypto_good K -> 16 < bufsiz ->
  nofail o1 -> nofail o2 -> inf <> encf -> encf <> outf -> fs_get fs inf = Some content -> length pw < PWSIZ ->
  o_rand o1 0 16 = Some salt -> o_rand o1 1 36 = Some kn2 -> length salt = 16 -> length kn2 = 36 ->
  exists w1 w2,
    Main_crypt K bufsiz cfg o1 true (PwArg pw) (world0 fs) [(inf, encf)] = (w1, 0) /\
    fs_get (w_fs w1) encf = Some (Image K pw salt kn2 content) /\ w_err w1 = [] /\
    Main_crypt K bufsiz cfg o2 false (PwArg pw) (world0 (w_fs w1)) [(encf, outf)] = (w2, 0) /\
    fs_get (w_fs w2) outf = Some content /\ w_err w2 = [].
Proof. intros K bufsiz cfg o1 o2 pw fs inf encf outf content salt kn2 CR BS. exact (roundtrip K bufsiz cfg CR BS o1 o2 pw fs inf encf outf content salt kn2). Qed.

(* Exactness: a file that asconcrypt -d accepts (exit 0) is the image of exactly the
   plaintext it wrote, under the given password and the salt/key/nonce found in it.
   So a modified or truncated file, or a wrong password, is accepted only if it is
   itself a genuine encryption. *)
Theorem C19_exact : forall (K : crypto) bufsiz cfg o pw fs inf outf f w',
  crypto_good K -> 16 < bufsiz ->
  nofail o -> inf <> outf -> fs_get fs inf = Some f -> length pw < PWSIZ ->
  Main_crypt K bufsiz cfg o false (PwArg pw) (world0 fs) [(inf, outf)] = (w', 0) ->
  exists salt kn2 m, length salt = 16 /\ length kn2 = 36 /\ f = Image K pw salt kn2 m /\ fs_get (w_fs w') outf = Some m.
Proof. intros K bufsiz cfg o pw fs inf outf f w' CR BS. exact (accepted_exact K bufsiz cfg CR BS o pw fs inf outf f w'). Qed.

(* ... and everything else is rejected with status 1, one message, no output file. *)
Theorem C19_rejects : forall (K : crypto) bufsiz cfg o pw fs inf outf f w' ex,
  crypto_good K -> 16 < bufsiz ->
  nofail o -> inf <> outf -> fs_get fs inf = Some f -> length pw < PWSIZ ->
  (forall salt kn2 m, length salt = 16 -> length kn2 = 36 -> f <> Image K pw salt kn2 m) ->
  Main_crypt K bufsiz cfg o false (PwArg pw) (world0 fs) [(inf, outf)] = (w', ex) ->
  ex = 1 /\ fs_get (w_fs w') outf = None /\ length (w_err w') = 1.
Proof. intros K bufsiz cfg o pw fs inf outf f w' ex CR BS. exact (rejected K bufsiz cfg CR BS o pw fs inf outf f w' ex). Qed.

(* Clean failure: whatever fails (any oracle, any cryptography, shipped or fixed tree),
   a non-zero exit status means the output path is absent afterwards - or the file
   system was not touched at all (the run stopped before creating the output). *)
Theorem C19_fail_clean : forall (K : crypto) bufsiz cfg o enc pw w inf outf w' ex, length pw < PWSIZ ->
  Main_crypt K bufsiz cfg o enc (PwArg pw) w [(inf, outf)] = (w', ex) -> ex <> 0 ->
  fs_get (w_fs w') outf = None \/ w_fs w' = w_fs w.
Proof. exact fail_clean. Qed.

(* Faults, fixed tree: if the k0-th open, read, write or random request of the run
   fails, then the exit status is non-zero - or the run made at most k0 calls of that
   class, i.e. there was no k0-th call (calls are numbered from 0).  Any cryptography,
   any other behaviour of the oracle, encrypt or decrypt, -p or -k, any list of files. *)
Theorem C19_faults : forall (K : crypto) bufsiz o c0 k0 enc src fs files w' ex, c0 <> CGets -> fails_at o c0 k0 ->
  Main_crypt K bufsiz fixed o enc src (world0 fs) files = (w', ex) -> ex <> 0 \/ cget c0 (w_cnt w') <= k0.
Proof. exact faults_fixed. Qed.

(* Faults, pinned tree: the same holds for open, read and the random source only.
   MISSING (and false, see C19_faults_write_refuted): the write class. *)
Theorem C19_faults_shipped_partial : forall (K : crypto) bufsiz o c0 k0 enc src fs files w' ex,
  c0 = COpen \/ c0 = CRead \/ c0 = CRand -> fails_at o c0 k0 ->
  Main_crypt K bufsiz shipped o enc src (world0 fs) files = (w', ex) -> ex <> 0 \/ cget c0 (w_cnt w') <= k0.
Proof. exact faults_shipped. Qed.

(* The pinned tree violates the write clause: a write(2) that fails and is really
   issued (k < number of writes) leaves exit status 0 and an output file that does not decrypt. *)
Theorem C19_faults_write_refuted :
  exists (K : crypto) (bufsiz k : nat) (o : oracle) (pw : bytes) (fs : fsys) (inf encf outf : path) (w1 : world),
    crypto_good K /\ 16 < bufsiz /\ fails_at o CWrite k /\
    Main_crypt K bufsiz shipped o true (PwArg pw) (world0 fs) [(inf, encf)] = (w1, 0) /\
    k < cget CWrite (w_cnt w1) /\ fget CWrite (w_flg w1) = true /\
    fs_get (w_fs w1) encf <> None /\
    snd (Main_crypt K bufsiz shipped ok_oracle false (PwArg pw) (world0 (w_fs w1)) [(encf, outf)]) = 1.
Proof. exact write_fault_refuted. Qed.

(* asconcrypt -g KEYFILE *)
Theorem C19_generate_faults : forall o c0 k0 fs kf w' ex, c0 <> CGets -> fails_at o c0 k0 ->
  main_generate fixed o (world0 fs) kf = (w', ex) -> ex <> 0 \/ cget c0 (w_cnt w') <= k0.
Proof. exact generate_faults_fixed. Qed.
Theorem C19_generate_clean : forall o w kf w' ex,
  main_generate fixed o w kf = (w', ex) -> ex <> 0 -> fs_get (w_fs w') kf = None \/ w_fs w' = w_fs w.
Proof. intros o w kf w' ex. exact (generate_clean fixed o w kf w' ex eq_refl). Qed.
Theorem C19_generate_write_refuted :
  exists (o : oracle) (kf : path) (w1 : world),
    fails_at o CWrite 0 /\ main_generate shipped o (world0 []) kf = (w1, 0) /\ fs_get (w_fs w1) kf = Some [10%N].
Proof. exact generate_write_fault_refuted. Qed.

(* ---- main() of asconcrypt ---------------------------------------------------------------
   Invalid argument vectors - no INPUT, -p together with -k, -o with several inputs, names
   with and without ".ascon" when neither -e nor -d is given, no -p/-k and no terminal -
   end with status 1 and one message before any call is made: the world is unchanged but
   for the message. *)
Theorem C19_args_rejected : forall (K : crypto) bufsiz cfg o fx oc a t w, arg_error a t = true ->
  exists e, Main_args0 K bufsiz cfg o fx oc a t w = (add_err w e, 1).
Proof. exact args_rejected. Qed.

(* With -e or -d and -p, main() is Main_crypt (to which C19_roundtrip ... C19_faults apply) on the
   pairs (input, derived output): -o, else input ++ ".ascon" / input minus ".ascon" /
   input ++ ".decrypted", cut to BUFSIZ-1 bytes; "-" is stdin / stdout. *)
Theorem C19_args_explicit : forall (K : crypto) bufsiz cfg o fx oc a t w enc pw, m_close fx = false ->
  no_inputs a = false -> o_with_many a = false -> a_mode a = Some enc -> a_p a = Some pw -> a_k a = None ->
  Main_args0 K bufsiz cfg o fx oc a t w =
  Main_crypt K bufsiz cfg o enc (PwArg pw) w (map (fun i => (in_name i, out_name bufsiz enc (a_o a) i)) (a_in a)).
Proof. exact args_explicit. Qed.

(* Neither -e nor -d: all names end in ".ascon" = -d; none does = -e; one of each = rejected. *)
Theorem C19_args_detect_decrypt : forall (K : crypto) bufsiz cfg o fx oc a t w,
  a_mode a = None -> no_inputs a = false -> forallb is_encrypted_filename (a_in a) = true ->
  Main_args0 K bufsiz cfg o fx oc a t w = Main_args0 K bufsiz cfg o fx oc (with_mode a (Some false)) t w.
Proof. exact args_detect_decrypt. Qed.
Theorem C19_args_detect_encrypt : forall (K : crypto) bufsiz cfg o fx oc a t w,
  a_mode a = None -> no_inputs a = false -> forallb (fun p => negb (is_encrypted_filename p)) (a_in a) = true ->
  Main_args0 K bufsiz cfg o fx oc a t w = Main_args0 K bufsiz cfg o fx oc (with_mode a (Some true)) t w.
Proof. exact args_detect_encrypt. Qed.
Theorem C19_args_detect_mixture : forall a l1 l2 p q, a_mode a = None -> a_in a = p :: l1 ++ q :: l2 ->
  is_encrypted_filename p = negb (is_encrypted_filename q) -> snd (direction a) = true.
Proof. exact args_detect_mixture. Qed.

(* Typed passwords (readpass.c): read_password keeps the first PWSIZ-1 = 1023 bytes of what getpass
   returned, silently - a run depends on what was typed only through that prefix ... *)
Theorem C19_tty_truncation : forall (K : crypto) bufsiz cfg o fx oc a w p p', m_pwlen fx = false ->
  firstn (PWSIZ - 1) (cstr p) = firstn (PWSIZ - 1) (cstr p') ->
  Main_args0 K bufsiz cfg o fx oc a {| t_tty := true; t_pass := [Some p] |} w =
  Main_args0 K bufsiz cfg o fx oc a {| t_tty := true; t_pass := [Some p'] |} w.
Proof. exact tty_truncation. Qed.
(* ... so "rejects a wrong password" fails for typed passwords of 1024 bytes or more: two different
   ones that no run can tell apart (with -p, and in a key file, 1024 bytes are refused: EPwTooLong). *)
Theorem C19_tty_wrong_password_refuted :
  long_pw 97 <> long_pw 98 /\ length (long_pw 97) = PWSIZ /\
  firstn (PWSIZ - 1) (cstr (long_pw 97)) = firstn (PWSIZ - 1) (cstr (long_pw 98)).
Proof. exact tty_wrong_password_refuted. Qed.

(* With fixes/C19-typed-password-length.patch such a password ends the run before anything is touched. *)
Theorem C19_tty_long_rejected : forall (K : crypto) bufsiz cfg o fx oc a w p rest, m_pwlen fx = true ->
  a_p a = None -> a_k a = None -> PWSIZ <= length (cstr p) ->
  exists w', Main_args0 K bufsiz cfg o fx oc a {| t_tty := true; t_pass := Some p :: rest |} w = (w', 1) /\
             w_fs w' = w_fs w /\ w_cnt w' = w_cnt w.
Proof. exact tty_long_rejected. Qed.

(* close(2) of an output descriptor.  With the patch: if the k-th such close reports an error the
   status is non-zero - or fewer than k+1 outputs were closed; and (one pair) a non-zero status
   leaves no output, whatever failed. *)
Theorem C19_close_faults : forall (K : crypto) bufsiz cfg o oc enc pw fs files k w' ex kc,
  oc k = true -> Crypt_files_c K bufsiz cfg o true oc enc pw (world0 fs) files 0 0 = (w', ex, kc) -> ex <> 0 \/ kc <= k.
Proof. exact close_faults_fixed. Qed.
Theorem C19_close_fail_clean : forall (K : crypto) bufsiz cfg o cchk oc enc pw w inf outf w' ex kc,
  Crypt_files_c K bufsiz cfg o cchk oc enc pw w [(inf, outf)] 0 0 = (w', ex, kc) -> ex <> 0 ->
  fs_get (w_fs w') outf = None \/ w_fs w' = w_fs w.
Proof. exact close_fail_clean. Qed.
Theorem C19_generate_close_faults : forall cfg o oc w kf w' ex, oc 0 = true ->
  main_generate_c cfg o true oc w kf = (w', ex) -> ex <> 0.
Proof. exact generate_close_fixed. Qed.
(* The tree as it is ignores the result (fileops.c safe_file_close): same run as without the error,
   status 0, the output stays although the system reported that it may not have been written. *)
Theorem C19_close_ignored : forall (K : crypto) bufsiz cfg o oc enc pw files w ex kc,
  fst (Crypt_files_c K bufsiz cfg o false oc enc pw w files ex kc) = Crypt_files K bufsiz cfg o enc pw w files ex.
Proof. intros K bufsiz cfg o oc enc pw files. exact (cfc_nochk K bufsiz cfg o oc enc pw files). Qed.
Theorem C19_close_ignored_refuted :
  exists (K : crypto) (bufsiz : nat) (o : oracle) (oc : nat -> bool) (pw : bytes) (fs : fsys) (inf encf : path) (w1 : world) (kc : nat),
    crypto_good K /\ 16 < bufsiz /\ oc 0 = true /\
    Crypt_files_c K bufsiz fixed o false oc true pw (world0 fs) [(inf, encf)] 0 0 = (w1, 0, kc) /\ 0 < kc /\
    fs_get (w_fs w1) encf <> None /\ w_err w1 = [].
Proof. exact close_ignored_refuted. Qed.
Theorem C19_generate_close_ignored_refuted :
  exists (o : oracle) (oc : nat -> bool) (kf : path) (w1 : world),
    oc 0 = true /\ main_generate_c fixed o false oc (world0 []) kf = (w1, 0) /\ fs_get (w_fs w1) kf <> None.
Proof. exact generate_close_ignored_refuted. Qed.

(* ---- asconsum ---------------------------------------------------------------------
   The four digests are a parameter (state hst, h_init alg, h_upd, h_fin) specified against
   a one-shot function [digest alg]: hash_ok = the incremental interface equals digest on
   the concatenation for every split into blocks, 32 bytes out.  [allok o]: no call fails
   and no fread is short.  [main_sum ... alg check w files] is asconsum -h/-a/-x/-y [-c] files. *)

(* Hash mode prints, for every existing file, exactly  hex(digest alg content) "  " name "\n"
   and exits 0 (any sizes, any BUFSIZ > 0). *)
Theorem C19_sum : forall hst h_init h_upd h_fin digest bufsiz cfg o alg files fs er ou c fl,
  hash_ok hst h_init h_upd h_fin digest -> allok o -> 0 < bufsiz ->
  Forall (fun f => fs_get fs f <> None) files ->
  exists c', main_sum hst h_init h_upd h_fin bufsiz cfg o alg false (W fs er ou c fl) files =
    (W fs er (ou ++ flat_map (fun f => sum_line digest alg f (cont fs f)) files) c' fl, 0).
Proof. intros hst h_init h_upd h_fin digest bufsiz cfg o alg files fs er ou c fl HO AO BS.
       exact (main_sum_hash_nf hst h_init h_upd h_fin digest bufsiz cfg o HO AO BS alg files fs er ou c fl). Qed.

(* A missing file: message on stderr, nothing printed, failure. *)
Theorem C19_sum_missing : forall hst h_init h_upd h_fin bufsiz o alg fs er ou c fl name,
  allok o -> fs_get fs name = None ->
  exists c', hash_file hst h_init h_upd h_fin bufsiz o alg (W fs er ou c fl) name = (W fs (er ++ [EPerror]) ou c' fl, false).
Proof. intros hst h_init h_upd h_fin bufsiz o alg fs er ou c fl name AO.
       exact (hash_file_missing hst h_init h_upd h_fin bufsiz o AO alg fs er ou c fl name). Qed.

(* Check mode on a well-formed list (entries = (name, listed digest); names non-empty, not
   starting with a space, without NUL/LF/CR, at most 900 bytes): one report line per entry -
   "OK" iff the file can be read and its digest equals the listed one, "FAILED" if it differs,
   "FAILED open or read" if it cannot be opened - and success iff there is at least one entry
   and every verdict is OK. *)
Theorem C19_sum_check : forall hst h_init h_upd h_fin digest bufsiz cfg o alg fs er ou c fl listf entries,
  hash_ok hst h_init h_upd h_fin digest -> allok o -> 0 < bufsiz ->
  Forall good_entry entries -> fs_get fs listf = Some (flat_map entry_line entries) ->
  exists er' c', check_file hst h_init h_upd h_fin bufsiz cfg o alg (W fs er ou c fl) listf =
    (W fs er' (ou ++ report digest alg fs entries) c' fl,
     negb (match entries with [] => true | _ => false end) && forallb (fun e => verdict digest alg fs e =? 0) entries).
Proof. intros hst h_init h_upd h_fin digest bufsiz cfg o alg fs er ou c fl listf entries HO AO BS.
       exact (check_file_nf hst h_init h_upd h_fin digest bufsiz cfg o HO AO BS alg fs er ou c fl listf entries). Qed.

(* A list written by hash mode on file system fs, checked on fs': success exactly when every
   listed file still exists with an unchanged digest. *)
Theorem C19_sum_check_of_hash : forall hst h_init h_upd h_fin digest bufsiz cfg o alg fs fs' er ou c fl listf names,
  hash_ok hst h_init h_upd h_fin digest -> allok o -> 0 < bufsiz ->
  names <> [] -> Forall good_name names -> Forall (fun f => fs_get fs f <> None) names ->
  fs_get fs' listf = Some (flat_map (fun f => sum_line digest alg f (cont fs f)) names) ->
  exists er' c' out', check_file hst h_init h_upd h_fin bufsiz cfg o alg (W fs' er ou c fl) listf = (W fs' er' out' c' fl,
     forallb (fun f => match fs_get fs' f with Some c' => beqb (digest alg (cont fs f)) (digest alg c') | None => false end) names).
Proof. intros hst h_init h_upd h_fin digest bufsiz cfg o alg fs fs' er ou c fl listf names HO AO BS.
       exact (check_of_hash hst h_init h_upd h_fin digest bufsiz cfg o HO AO BS alg fs fs' er ou c fl listf names). Qed.

(* NOT covered by C19_sum_check: names starting with a space or containing LF/CR (hash mode
   prints lines that check mode cannot parse back), lines longer than 1023 bytes, "-".
   Read errors: in the pinned tree a failing fgets on the checksum list is taken for its end,
   so a modified file listed after that point goes unreported and the status is 0; the fixed
   tree (fixes/C19-asconsum-list-read-error.patch) reports it.  Shown on a concrete run; the
   general statement for the fixed tree is observed by the differential run for every k, not proved. *)
Theorem C19_sum_list_read_error_refuted :
  exists (o : oracle) (fs : fsys) (w1 : world),
    o_gets o 1 = true /\
    sx_main shipped o 2 true fs [sx_list] = (w1, 0) /\ 1 < cget CGets (w_cnt w1) /\ fget CGets (w_flg w1) = true /\
    snd (sx_main shipped ok_oracle 2 true fs [sx_list]) = 1 /\
    snd (sx_main fixed o 2 true fs [sx_list]) = 1.
Proof. exact list_read_error_refuted. Qed.

Print Assumptions C19_roundtrip.
Print Assumptions C19_exact.
Print Assumptions C19_rejects.
Print Assumptions C19_fail_clean.
Print Assumptions C19_faults.
Print Assumptions C19_faults_shipped_partial.
Print Assumptions C19_faults_write_refuted.
Print Assumptions C19_generate_faults.
Print Assumptions C19_generate_clean.
Print Assumptions C19_generate_write_refuted.
Print Assumptions C19_sum.
Print Assumptions C19_sum_missing.
Print Assumptions C19_sum_check.
Print Assumptions C19_sum_check_of_hash.
Print Assumptions C19_sum_list_read_error_refuted.
Print Assumptions C19_args_rejected.
Print Assumptions C19_args_explicit.
Print Assumptions C19_args_detect_decrypt.
Print Assumptions C19_args_detect_encrypt.
Print Assumptions C19_args_detect_mixture.
Print Assumptions C19_tty_truncation.
Print Assumptions C19_tty_wrong_password_refuted.
Print Assumptions C19_tty_long_rejected.
Print Assumptions C19_close_faults.
Print Assumptions C19_close_fail_clean.
Print Assumptions C19_generate_close_faults.
Print Assumptions C19_close_ignored.
Print Assumptions C19_close_ignored_refuted.
Print Assumptions C19_generate_close_ignored_refuted.

(* Non-vacuity: the hypotheses on the cryptography are satisfiable (a toy instance:
   identity encryption with a 16-byte checksum), and on it the model, run with
   BUFSIZ = 24 on a 61-byte file under short reads and writes, round-trips and
   rejects a flipped payload / tag / salt byte, truncations, an extension and a
   wrong password with the documented message and no output file. *)
Example C19_nonvacuous :
  crypto_good toyK /\ nofail short_oracle /\ nofail ok_oracle /\
  snd ex_encrypted = 0 /\ length ex_image = 96 + 61 /\
  (let r := ex_decrypt short_oracle ex_pw ex_image in snd r = 0 /\ fs_get (w_fs (fst r)) ex_out = Some ex_content) /\
  (let r := ex_decrypt ok_oracle ex_pw (xor_at ex_image 100 [1%N]) in
   snd r = 1 /\ fs_get (w_fs (fst r)) ex_out = None /\ w_err (fst r) = [ECorrupt]) /\
  (let r := ex_decrypt ok_oracle ex_pw (xor_at ex_image 156 [128%N]) in
   snd r = 1 /\ fs_get (w_fs (fst r)) ex_out = None /\ w_err (fst r) = [ECorrupt]) /\
  (let r := ex_decrypt ok_oracle ex_pw (xor_at ex_image 20 [4%N]) in
   snd r = 1 /\ fs_get (w_fs (fst r)) ex_out = None /\ w_err (fst r) = [EBadPassword]) /\
  (let r := ex_decrypt ok_oracle ex_pw (firstn 156 ex_image) in
   snd r = 1 /\ fs_get (w_fs (fst r)) ex_out = None /\ w_err (fst r) = [ECorrupt]) /\
  (let r := ex_decrypt ok_oracle ex_pw (firstn 90 ex_image) in
   snd r = 1 /\ fs_get (w_fs (fst r)) ex_out = None /\ w_err (fst r) = [ETruncated]) /\
  (let r := ex_decrypt ok_oracle ex_pw (firstn 79 ex_image) in
   snd r = 1 /\ fs_get (w_fs (fst r)) ex_out = None /\ w_err (fst r) = [EBadFormat]) /\
  (let r := ex_decrypt ok_oracle ex_pw (ex_image ++ [0%N]) in
   snd r = 1 /\ fs_get (w_fs (fst r)) ex_out = None /\ w_err (fst r) = [ECorrupt]) /\
  (let r := ex_decrypt ok_oracle (ex_pw ++ [33%N]) ex_image in
   snd r = 1 /\ fs_get (w_fs (fst r)) ex_out = None /\ w_err (fst r) = [EBadPassword]).
Proof. exact nonvacuous_runs. Qed.

(* main() on the toy instance: direction from the names, the rejected argument vectors, typed
   passwords (twice to encrypt, once to decrypt, a typo, no answer), stdin to stdout in both
   directions, and a failing close of the output with the patch *)
Example C19_args_nonvacuous :
  snd xa_encrypted = 0 /\ length xa_image = 96 + 61 /\ w_err (fst xa_encrypted) = [] /\
  (let r := xa_run as_is never (xa None (Some ex_pw) None None [xa_encname]) no_tty [] [(xa_encname, xa_image)] in
   snd r = 0 /\ fs_get (w_fs (fst r)) xa_name = Some ex_content) /\
  (let r := xa_run as_is never (xa None (Some ex_pw) None None [xa_name; xa_encname]) no_tty [] xa_fs in
   snd r = 1 /\ w_err (fst r) = [EDirection] /\ w_fs (fst r) = xa_fs) /\
  (let r := xa_run as_is never (xa (Some true) (Some ex_pw) (Some ex_in) None [xa_name]) no_tty [] xa_fs in
   snd r = 1 /\ w_err (fst r) = [EBothPK] /\ w_fs (fst r) = xa_fs) /\
  (let r := xa_run as_is never (xa (Some true) (Some ex_pw) None (Some ex_out) [xa_name; xa_name]) no_tty [] xa_fs in
   snd r = 1 /\ w_err (fst r) = [EOneInput] /\ w_fs (fst r) = xa_fs) /\
  (let r := xa_run as_is never (xa (Some true) (Some ex_pw) None None []) no_tty [] xa_fs in
   snd r = 1 /\ w_err (fst r) = [EUsage] /\ w_fs (fst r) = xa_fs) /\
  (let r := xa_run as_is never (xa (Some true) None None None [xa_name]) no_tty [] xa_fs in
   snd r = 1 /\ w_err (fst r) = [ENoTerminal] /\ w_fs (fst r) = xa_fs) /\
  (let r := xa_run as_is never (xa None None None None [xa_name]) (typed [Some ex_pw; Some ex_pw]) [] xa_fs in
   snd r = 0 /\ fs_get (w_fs (fst r)) xa_encname = Some xa_image) /\
  (let r := xa_run as_is never (xa None None None None [xa_encname]) (typed [Some ex_pw]) [] [(xa_encname, xa_image)] in
   snd r = 0 /\ fs_get (w_fs (fst r)) xa_name = Some ex_content) /\
  (let r := xa_run as_is never (xa None None None None [xa_name]) (typed [Some ex_pw; Some (ex_pw ++ [33%N])]) [] xa_fs in
   snd r = 1 /\ w_err (fst r) = [EPwMismatch] /\ w_fs (fst r) = xa_fs) /\
  (let r := xa_run as_is never (xa (Some false) None None None [xa_encname]) (typed [None]) [] [(xa_encname, xa_image)] in
   snd r = 1 /\ w_err (fst r) = [EUsage]) /\
  (let r := xa_run as_is never (xa (Some true) (Some ex_pw) None None [dash]) no_tty ex_content [] in
   snd r = 0 /\ w_out (fst r) = xa_image /\ w_fs (fst r) = []) /\
  (let r := xa_run as_is never (xa (Some false) (Some ex_pw) None None [dash]) no_tty xa_image [] in
   snd r = 0 /\ w_out (fst r) = ex_content /\ w_fs (fst r) = []) /\
  (let r := xa_run as_is never (xa (Some false) (Some ex_pw) None (Some dash) [xa_encname]) no_tty [] [(xa_encname, xa_image)] in
   snd r = 0 /\ w_out (fst r) = ex_content) /\
  (let r := xa_run patched first_close (xa (Some true) (Some ex_pw) None None [xa_name]) no_tty [] xa_fs in
   snd r = 1 /\ fs_get (w_fs (fst r)) xa_encname = None /\ w_err (fst r) = [EPerror]).
Proof. exact args_nonvacuous_runs. Qed.

(* the same for asconsum: a toy digest satisfies hash_ok; hash mode then check mode on two
   files: all OK; one file modified; one missing; other algorithm; malformed line; empty list *)
Example C19_sum_nonvacuous :
  hash_ok toyh_st toyh_init toyh_upd toyh_fin toyh_digest /\ allok ok_oracle /\
  sx_listing 2 = sum_line toyh_digest 2 sx_a sx_ca ++ sum_line toyh_digest 2 sx_b sx_cb /\
  (let r := sx_main shipped ok_oracle 2 true ((sx_list, sx_listing 2) :: sx_fs0) [sx_list] in
   snd r = 0 /\ w_out (fst r) = sx_a ++ [58;32]%N ++ OKtxt ++ sx_b ++ [58;32]%N ++ OKtxt /\ w_err (fst r) = []) /\
  (let r := sx_main shipped ok_oracle 2 true [(sx_list, sx_listing 2); (sx_a, sx_ca); (sx_b, [1;2;4]%N)] [sx_list] in
   snd r = 1 /\ w_out (fst r) = sx_a ++ [58;32]%N ++ OKtxt ++ sx_b ++ [58;32]%N ++ FAILEDtxt /\ w_err (fst r) = [EWarnMismatch 1]) /\
  (let r := sx_main shipped ok_oracle 2 true [(sx_list, sx_listing 2); (sx_b, sx_cb)] [sx_list] in
   snd r = 1 /\ w_err (fst r) = [EPerror; EWarnRead 1]) /\
  (let r := sx_main shipped ok_oracle 3 true ((sx_list, sx_listing 2) :: sx_fs0) [sx_list] in
   snd r = 1 /\ w_err (fst r) = [EWarnMismatch 2]) /\
  (let r := sx_main shipped ok_oracle 2 true ((sx_list, skipn 1 (sx_listing 2)) :: sx_fs0) [sx_list] in
   snd r = 1 /\ w_err (fst r) = [EWarnFormat 1]) /\
  (let r := sx_main shipped ok_oracle 2 true ((sx_list, []) :: sx_fs0) [sx_list] in
   snd r = 1 /\ w_err (fst r) = [ENoLines]).
Proof. exact sum_nonvacuous_runs. Qed.
