(* C05 - key derivation functions follow RFC 5869 / RFC 8018 / cXOF definitions. *)
From AsconV Require Import Model.Macm Proofs.AeadP Proofs.XofP Proofs.MacP Proofs.HkdfP Proofs.PermP.
From Coq Require Import ZArith.
Local Open Scope nat_scope.

(* HKDF: every request sequence after extract is served from the RFC 5869
   stream; beyond 255 blocks the unserved part is zero-filled, result -1 *)
Theorem C05_hkdf_stream : forall v key salt info reqs, v = vxof \/ v = vxofa ->
  expand_all Perm.perm v (hkdf_extract_c Perm.perm v key salt) info reqs =
  serve (Mac.hkdf_okm (Hash.hash Perm.perm v) (Mac.hkdf_extract (Hash.hash Perm.perm v) salt key) info) reqs.
Proof. intros v key salt info reqs Hx. exact (hkdf_stream Perm.perm perm_len v Hx key salt info reqs). Qed.
Print Assumptions C05_hkdf_stream.

Theorem C05_hkdf_oneshot : forall v key salt info n, v = vxof \/ v = vxofa ->
  hkdf_c Perm.perm v key salt info n =
  if 255 * 32 <? n then None
  else Some (firstn n (Mac.hkdf_okm (Hash.hash Perm.perm v) (Mac.hkdf_extract (Hash.hash Perm.perm v) salt key) info)).
Proof. intros v key salt info n Hx. exact (hkdf_oneshot Perm.perm perm_len v Hx key salt info n). Qed.
Print Assumptions C05_hkdf_oneshot.

(* PBKDF2: the C iteration (count 0 and 1 alike, big-endian block index from
   1, last block truncated) is RFC 8018's, for any PRF whose chunked
   evaluation equals its evaluation on the concatenation ... *)
Theorem C05_pbkdf2_generic : forall prf1 prfc, (forall cs, prfc cs = prf1 (concat cs)) -> (forall x, length (prf1 x) = 32) ->
  forall salt count outlen, (N.of_nat (1 + outlen / 32) < 4294967296)%N ->
  pb_out prfc outlen salt count 1 outlen = Mac.pb_dk prf1 salt count outlen.
Proof.
  intros prf1 prfc Hc Hl salt count outlen Hb.
  exact (pb_out_spec prf1 prfc Hc Hl outlen salt count 1 outlen (le_n _) Hb).
Qed.
Print Assumptions C05_pbkdf2_generic.

(* ... instantiated with the HMAC flavour *)
Theorem C05_pbkdf2_hmac : forall password salt count outlen, (N.of_nat (1 + outlen / 32) < 4294967296)%N ->
  pbkdf2_hmac_c Perm.perm password salt count outlen =
  Mac.pb_dk (Mac.hmac (Hash.hash Perm.perm vxof) password) salt count outlen.
Proof.
  intros password salt count outlen Hb. unfold pbkdf2_hmac_c.
  apply C05_pbkdf2_generic; [|intros x; apply (hmac_len Perm.perm perm_len vxof (or_introl eq_refl))|exact Hb].
  intros cs. exact (hmac_run_spec Perm.perm perm_len vxof (or_introl eq_refl) password cs).
Qed.
Print Assumptions C05_pbkdf2_hmac.

(* ... and with the documented PRF(P, X) = ASCON-cXOF(X, 256, "PBKDF2", P) *)
Theorem C05_pbkdf2 : forall password salt count outlen, (N.of_nat (1 + outlen / 32) < 4294967296)%N ->
  pbkdf2_c Perm.perm password salt count outlen =
  Mac.pb_dk (Mac.pbkdf2_prf Perm.perm password) salt count outlen.
Proof.
  intros password salt count outlen Hb. unfold pbkdf2_c.
  apply C05_pbkdf2_generic; [| |exact Hb].
  - intros cs. rewrite (xof_init_custom_spec Perm.perm perm_len vxof (or_introl eq_refl) (Some name_pbkdf2) password 32).
    pose proof (xof_run_spec Perm.perm perm_len vxof (or_introl eq_refl) _ cs [32]
                  (cxof_state_len Perm.perm perm_len vxof (or_introl eq_refl) name_pbkdf2 password 32)) as R.
    unfold xof_run in R. cbn [fold_left fold_right] in R.
    destruct (xof_squeeze Perm.perm vxof (fold_left (xof_absorb Perm.perm vxof) cs (mk (cxof_state Perm.perm vxof name_pbkdf2 password 32))) 32) as [s' o].
    cbn [snd app] in *. exact R.
  - intros x. unfold Mac.pbkdf2_prf, Hash.cxof.
    apply (spec_squeeze_len Perm.perm perm_len vxof (or_introl eq_refl)).
    apply (absorb_msg_len Perm.perm perm_len vxof (or_introl eq_refl)).
    apply (cxof_state_len Perm.perm perm_len vxof (or_introl eq_refl)).
Qed.
Print Assumptions C05_pbkdf2.

(* KDF / KDFA = cXOF "KDF" over the key *)
Theorem C05_kdf : forall v key custom L outs, v = vxof \/ v = vxofa ->
  xof_run Perm.perm v (kdf_init Perm.perm v key custom L) [] outs =
  Mac.kdf Perm.perm v key custom L (fold_right Nat.add 0 outs).
Proof.
  intros v key custom L outs Hx. rewrite (kdf_init_spec Perm.perm perm_len v Hx key custom L).
  exact (kdf_run_spec Perm.perm perm_len v Hx key custom L outs).
Qed.
Print Assumptions C05_kdf.

(* non-vacuity: a real session (the spec side is quadratic to evaluate in full, so
   only its first blocks are evaluated here) *)
Example C05_nonvacuous :
  let key := map N.of_nat (seq 0 20) in
  let H := Hash.hash Perm.perm vxof in
  let prk := Mac.hkdf_extract H [1;2;3]%N key in
  map fst (expand_all Perm.perm vxof (hkdf_extract_c Perm.perm vxof key [1;2;3]%N) [9%N] [5; 0; 40]) =
    (let okm := flat_map (Mac.hkdf_T H prk [9%N]) (seq 1 2) in [firstn 5 okm; []; firstn 40 (skipn 5 okm)]) /\
  pbkdf2_c Perm.perm [112;119]%N [115]%N 3 40 = Mac.pb_dk (Mac.pbkdf2_prf Perm.perm [112;119]%N) [115]%N 3 40.
Proof. vm_compute. split; reflexivity. Qed.
