(* C08 - permutation and state primitives act as specified on every host backend.
   The kernels are re-translated from /repo on every run (Gen/Kern_*.v, Gen/Ops_*.v);
   these theorems are about that translated code, for all 2^320 states. *)
From Coq Require Import List Arith Bool Lia. Import ListNotations.
From AsconV Require Import Sym.Wexpr Sym.Pipe Sym.PermW Sym.Kernel Sym.KernelP Obl.KernPerm
  Gen.Kern_c64 Gen.Kern_c32 Gen.Kern_c64dx Gen.Kern_x86_64 Spec.Perm.

(* For every first_round k = 0..12 (12 = no rounds) the translated ascon_permute of the backend, as a
   chain of straight-line segments cut at the loop head, maps ANY 40 memory bytes m to
   enc (round_11 (.. (round_k (dec m)))) under the backend's state layout, whatever the other entry inputs oo
   (for the assembly: the register contents on entry) are. *)
Definition perm_correct (L : klayout) (segs : list seg) (chains : list (nat * list nat)) : Prop :=
  forall k, k <= 12 -> exists idx, In (k, idx) chains /\
  forall m oo, widths_of m = mem_widths -> widths_of oo = entry_others (chain_of segs idx) ->
  run_chain (chain_of segs idx) (m ++ oo) = pexec BoolAlg (chain_spec L (seq k (12 - k))) m.

Theorem C08_perm_c64 : perm_correct c64_layout c64_segs c64_chains.
Proof. exact (backend_sound _ _ _ c64_ok). Qed.
Print Assumptions C08_perm_c64.
Theorem C08_perm_c32 : perm_correct c32_layout c32_segs c32_chains.
Proof. exact (backend_sound _ _ _ c32_ok). Qed.
Print Assumptions C08_perm_c32.
Theorem C08_perm_c64_direct_xor : perm_correct c64dx_layout c64dx_segs c64dx_chains.
Proof. exact (backend_sound _ _ _ c64dx_ok). Qed.
Print Assumptions C08_perm_c64_direct_xor.

(* the checked-in x86-64 assembly (the default host backend): prologue with jump-table dispatch, the
   unrolled rounds cut at their labels, epilogue *)
Theorem C08_perm_x86_64_asm : perm_correct x86_64_layout x86_64_segs x86_64_chains.
Proof. exact (backend_sound _ _ _ x86_64_ok). Qed.
Print Assumptions C08_perm_x86_64_asm.

(* The same kernels against Spec.Perm.perm - the N-level permutation on the 40 canonical big-endian bytes over
   which every mode-level theorem (C01..C07) is stated.  `view L` maps the backend's memory image to the
   canonical bytes (Sym/Canon.v), `bits 8` is the bit list of a byte; the bridge (Sym/Bridge.bridge_perm:
   the word-level round specification = Spec.Perm.round for all words, by bit-level lemmas about N) is proved
   once.  For every first_round k <= 12 and ANY memory image m that presents the byte string s:
   the image after the translated kernel presents perm k s. *)
From AsconV Require Import Sym.Canon Sym.Bridge Obl.KernPermBridge.
Definition perm_is_spec (L : klayout) (segs : list seg) (chains : list (nat * list nat)) : Prop :=
  forall k, k <= 12 -> exists idx, In (k, idx) chains /\
  forall m oo s, widths_of m = mem_widths -> widths_of oo = entry_others (chain_of segs idx) ->
    length s = 40 -> Forall (fun b => (b < 256)%N) s -> pexec BoolAlg (view L) m = map (bits 8) s ->
    pexec BoolAlg (view L) (run_chain (chain_of segs idx) (m ++ oo)) = map (bits 8) (Spec.Perm.perm k s).
Theorem C08_spec_x86_64_asm : perm_is_spec x86_64_layout x86_64_segs x86_64_chains.
Proof. exact (backend_perm _ _ _ x86_64_ok). Qed.
Print Assumptions C08_spec_x86_64_asm.
Theorem C08_spec_c64 : perm_is_spec c64_layout c64_segs c64_chains.
Proof. exact (backend_perm _ _ _ c64_ok). Qed.
Print Assumptions C08_spec_c64.
Theorem C08_spec_c32 : perm_is_spec c32_layout c32_segs c32_chains.
Proof. exact (backend_perm _ _ _ c32_ok). Qed.
Print Assumptions C08_spec_c32.
Theorem C08_spec_c64_direct_xor : perm_is_spec c64dx_layout c64dx_segs c64dx_chains.
Proof. exact (backend_perm _ _ _ c64dx_ok). Qed.
Print Assumptions C08_spec_c64_direct_xor.

(* the word-level specification used above agrees with Spec.Perm.perm (the N-level permutation the
   mode-level theorems are stated over) on the library's test vectors: 12 and 8 rounds *)
Definition bits8 (b : N) : list bool := map (N.testbit b) (map N.of_nat (seq 0 8)).
Definition byte_of_bits (l : list bool) : N := fold_right (fun (b : bool) acc => (if b then 1 else 0) + 2 * acc)%N 0%N l.
Definition spec_bytes (k : nat) (s : list N) : list N :=
  map byte_of_bits (pexec BoolAlg (chain_spec KL8 (seq k (12 - k))) (map bits8 s)).
Example C08_spec_vectors :
  spec_bytes 0 test_in = perm 0 test_in /\ spec_bytes 4 test_in = perm 4 test_in /\ spec_bytes 12 test_in = test_in /\
  spec_bytes 0 test_out8 = perm 0 test_out8 /\ spec_bytes 7 test_out12 = perm 7 test_out12.
Proof. vm_compute. repeat split. Qed.

(* Spec.Perm.perm - the function the kernels are proved to compute - is a bijection of the valid 40-byte states for every starting
   round: Proofs/PermInvP.v gives an explicit inverse (inverse linear layer as XORs of rotations, inverse substitution layer in
   algebraic normal form; the four layer identities are decided by the reflective engine in Sym/PermInv.v) *)
From AsconV Require Import Proofs.AeadP Proofs.PermInvP.
Theorem C08_spec_perm_bijective : forall first s, length s = 40 -> bytes_ok s ->
  perm_inv first (perm first s) = s /\ perm first (perm_inv first s) = s /\ length (perm_inv first s) = 40 /\ bytes_ok (perm_inv first s).
Proof.
  intros first s L B.
  exact (conj (perm_inv_perm first s L B) (conj (perm_perm_inv first s L B) (conj (perm_inv_len first s) (perm_inv_ok first s)))).
Qed.
Print Assumptions C08_spec_perm_bijective.
Theorem C08_spec_perm_injective : forall first s1 s2, length s1 = 40 -> bytes_ok s1 -> length s2 = 40 -> bytes_ok s2 ->
  perm first s1 = perm first s2 -> s1 = s2.
Proof. exact perm_injective. Qed.
Print Assumptions C08_spec_perm_injective.
Example C08_perm_inv_vectors : perm_inv 0 test_out12 = test_in /\ perm_inv 4 test_out8 = test_in.
Proof. exact perm_inv_vector. Qed.
