(* C08, second clause - the byte-granular state primitives act on exactly the addressed bytes of the canonical
   big-endian state, on every host backend.

   tools/kern_byteops.py re-translates on every run, from /repo's current source, the functions
       ascon_add_bytes, ascon_overwrite_bytes, ascon_overwrite_with_zeroes, ascon_extract_bytes,
       ascon_extract_and_add_bytes, ascon_extract_and_overwrite_bytes
   of the C file that the backend's definitions select (clang -O1 LLVM IR), once for each of the 861 pairs
   (offset, size) with offset + size <= 40 (size 0 included), the 40 bytes of the memory image of the state and all
   user buffers (exactly `size` bytes each) symbolic; extract_and_add / extract_and_overwrite also with input and
   output the same buffer.  Only the programs are generated (Gen/ByteOps_*_p*.v); the specification is
   Obl/ByteOps.v and is stated on the canonical view `view L` (Sym/Canon.v) of the memory image under the SAME
   layout L for which the permutation of that backend is proved (Properties_C08.v: c64_layout etc.).

   Unfolded, `byteops_correct L tables` says: for every operation op and all off, size with off + size <= 40 there is a
   translated call c in the table of op with bc_off c = off, bc_size c = size, and for ALL v (40 image bytes followed
   by nbuf op * size buffer bytes; every byte any 8 bits), with
        out  = run v (bc_prog c)                      the translated call
        V    = view L (first 40 of v)                 the canonical state before
        data = the size bytes after the first 40      the data / input buffer
   we have
        view L (first 40 of out) = bo_state  op off size V data      the canonical state after
        rest of out              = bo_output op off size V data      the output buffer after (none for add/overwrite/zero)
   where (seg = bytes off .. off+size-1 of V, splice X = V with those bytes replaced by X)
        add                      state: splice (seg xor data)      output: -
        overwrite                state: splice data                output: -
        zero                     state: splice (size zero bytes)   output: -
        extract                  state: V                          output: seg
        extract_and_add          state: V                          output: seg xor data
        extract_and_overwrite    state: splice data                output: seg xor data
   (permutation.h: "has the effect of calling ascon_extract_and_add_bytes() and then ascon_overwrite_bytes(), but it
   also works for the case where input and output are the same buffer"). *)
From Coq Require Import List Arith NArith Bool Lia. Import ListNotations.
From AsconV Require Import Sym.Wexpr Sym.Pipe Sym.Kernel Sym.Canon Obl.ByteOps Obl.ByteOpsAll
  Gen.Kern_c64 Gen.Kern_c32 Gen.Kern_c64dx Gen.Kern_x86_64.

(* the default x86-64 build: the permutation is the assembly file, the byte operations are src/core/ascon-sliced64.c *)
Theorem C08_ops_x86_64 : byteops_correct x86_64_layout byteops_x86_64.
Proof. exact (byteops_sound _ _ byteops_x86_64_ok). Qed.
Print Assumptions C08_ops_x86_64.

(* -DASCON_FORCE_C64: src/core/ascon-sliced64.c *)
Theorem C08_ops_c64 : byteops_correct c64_layout byteops_c64.
Proof. exact (byteops_sound _ _ byteops_c64_ok). Qed.
Print Assumptions C08_ops_c64.

(* -DASCON_FORCE_C32: src/core/ascon-sliced32.c (bit-interleaved 32-bit halves) *)
Theorem C08_ops_c32 : byteops_correct c32_layout byteops_c32.
Proof. exact (byteops_sound _ _ byteops_c32_ok). Qed.
Print Assumptions C08_ops_c32.

(* -DASCON_FORCE_DIRECT_XOR: src/core/ascon-direct-xor.c *)
Theorem C08_ops_c64_direct_xor : byteops_correct c64dx_layout byteops_directxor.
Proof. exact (byteops_sound _ _ byteops_directxor_ok). Qed.
Print Assumptions C08_ops_c64_direct_xor.

(* -DASCON_FORCE_GENERIC selects the same representation, file and permutation kernel as direct-xor *)
Theorem C08_ops_generic : byteops_correct c64dx_layout byteops_generic.
Proof. exact (byteops_sound _ _ byteops_generic_ok). Qed.
Print Assumptions C08_ops_generic.

(* every table has exactly the 861 pairs, per backend and operation *)
Theorem C08_ops_tables_complete :
  forall op, length (byteops_x86_64 op) = 861 /\ length (byteops_c64 op) = 861 /\ length (byteops_c32 op) = 861 /\
             length (byteops_directxor op) = 861 /\ length (byteops_generic op) = 861.
Proof.
  exact (fun op => conj (byteops_count _ _ byteops_x86_64_ok op) (conj (byteops_count _ _ byteops_c64_ok op)
        (conj (byteops_count _ _ byteops_c32_ok op) (conj (byteops_count _ _ byteops_directxor_ok op) (byteops_count _ _ byteops_generic_ok op))))).
Qed.
Print Assumptions C08_ops_tables_complete.

(* the specification is the list function one expects, on a concrete instance: state bytes 0..39, data 0xF0.., offset 3, size 4 *)
Definition bits8 (b : N) : list bool := map (N.testbit b) (map N.of_nat (seq 0 8)).
Definition byte_of_bits (l : list bool) : N := fold_right (fun (b : bool) acc => (if b then 1 else 0) + 2 * acc)%N 0%N l.
Example C08_ops_spec_instance :
  let V := map (fun i => bits8 (N.of_nat i)) (seq 0 40) in
  let d := map bits8 [0xF0; 0xF1; 0xF2; 0xF3]%N in
  length all_pairs = 861 /\
  map byte_of_bits (bo_state BAdd 3 4 V d) = map N.of_nat [0;1;2] ++ [0xF3; 0xF5; 0xF7; 0xF5]%N ++ map N.of_nat (seq 7 33) /\
  map byte_of_bits (bo_state BExtractOverwrite 3 4 V d) = map N.of_nat [0;1;2] ++ [0xF0; 0xF1; 0xF2; 0xF3]%N ++ map N.of_nat (seq 7 33) /\
  map byte_of_bits (bo_output BExtractOverwrite 3 4 V d) = [0xF3; 0xF5; 0xF7; 0xF5]%N /\
  map byte_of_bits (bo_state BZero 38 2 V d) = map N.of_nat (seq 0 38) ++ [0; 0]%N /\
  map byte_of_bits (bo_output BExtract 36 4 V d) = [36; 37; 38; 39]%N /\
  (* and the translated c32 call for (3, 4) really is in the table, with a non-trivial program *)
  match find (fun c => (bc_off c =? 3) && (bc_size c =? 4)) (byteops_c32 BAdd) with
  | Some c => 10 <=? length (p_body (bc_prog c)) | None => false end = true /\
  (* the canonical view differs between the layouts: image byte 0 is canonical byte 7 under KL64 *)
  nth 7 (map byte_of_bits (pexec BoolAlg (view KL64) V)) 99%N = 0%N /\ nth 0 (map byte_of_bits (pexec BoolAlg (view KL8) V)) 99%N = 0%N.
Proof.
  vm_compute. repeat split.
Qed.
