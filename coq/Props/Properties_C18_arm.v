(* C18 - assembly backends, sub-check 2 (permutation semantics) for the ARM, i386 and m68k files.
   The .S text of /repo's working tree is re-translated on every run (Gen/Kern_<name>.v); these theorems are about
   that translated code, for all 2^320 states and every first_round 0..12.  The per-ISA lowering tables of the
   translators are trusted (i386 is cross-checked by native execution; the others against clang's assembler and
   compiler output only, see tools/xcheck_asm.py). *)
From Coq Require Import List Arith NArith Bool Lia. Import ListNotations.
From AsconV Require Import Sym.Wexpr Sym.Pipe Sym.PermW Sym.Kernel Sym.KernelP Obl.KernPerm Obl.KernPermARM
  Gen.Kern_armv8a Gen.Kern_armv7m Gen.Kern_armv6 Gen.Kern_armv6m Gen.Kern_i386 Gen.Kern_m68k Gen.Kern_m68kcf.

(* coverage of the checked-in files (read by lib/p_c18.py).  `perm` = the theorem below; `abi` = the callee-saved /
   stack-pointer / frame facts established by the same symbolic runs in tools/asm_base.py (build/kern/<name>.json);
   a violated fact removes the chain of that first_round, so the theorem below no longer checks, and prints a
   `MISSING kern_perm <name>: first_round=k: ABI: ...` line. *)
(* covers: src/core/ascon-asm-armv8a-64.S perm abi *)
(* covers: src/core/ascon-asm-armv7m.S perm abi *)
(* covers: src/core/ascon-asm-armv6.S perm abi *)
(* covers: src/core/ascon-asm-armv6m.S perm abi *)
(* covers: src/core/ascon-asm-i386.S perm abi *)
(* covers: src/core/ascon-asm-m68k.S perm abi *)

(* same statement as Properties_C08.perm_correct: for every first_round k there is a translated chain of segments, and
   running it on ANY 40 state bytes m (whatever the other entry inputs oo - the registers and the caller's stack
   contents on entry - are) yields enc (round_11 (.. (round_k (dec m)))) under the file's state layout *)
Definition perm_correct (L : klayout) (segs : list seg) (chains : list (nat * list nat)) : Prop :=
  forall k, k <= 12 -> exists idx, In (k, idx) chains /\
  forall m oo, widths_of m = mem_widths -> widths_of oo = entry_others (chain_of segs idx) ->
  run_chain (chain_of segs idx) (m ++ oo) = pexec BoolAlg (chain_spec L (seq k (12 - k))) m.

(* ascon-asm-armv8a-64.S (AArch64, sliced64 little-endian) *)
Theorem C18_perm_armv8a_64 : perm_correct armv8a_layout armv8a_segs armv8a_chains.
Proof. exact (backend_sound _ _ _ armv8a_ok). Qed.
Print Assumptions C18_perm_armv8a_64.
(* ascon-asm-armv7m.S (Thumb-2, sliced32) *)
Theorem C18_perm_armv7m : perm_correct armv7m_layout armv7m_segs armv7m_chains.
Proof. exact (backend_sound _ _ _ armv7m_ok). Qed.
Print Assumptions C18_perm_armv7m.
(* ascon-asm-armv6.S (A32, sliced32) *)
Theorem C18_perm_armv6 : perm_correct armv6_layout armv6_segs armv6_chains.
Proof. exact (backend_sound _ _ _ armv6_ok). Qed.
Print Assumptions C18_perm_armv6.
(* ascon-asm-armv6m.S (16-bit Thumb, sliced32; jump-table dispatch) *)
Theorem C18_perm_armv6m : perm_correct armv6m_layout armv6m_segs armv6m_chains.
Proof. exact (backend_sound _ _ _ armv6m_ok). Qed.
Print Assumptions C18_perm_armv6m.
(* ascon-asm-i386.S (AT&T, cdecl, sliced32; odd halves live in the frame) *)
Theorem C18_perm_i386 : perm_correct i386_layout i386_segs i386_chains.
Proof. exact (backend_sound _ _ _ i386_ok). Qed.
Print Assumptions C18_perm_i386.
(* ascon-asm-m68k.S without __mcoldfire__ (big-endian sliced32 = KL32BE) *)
Theorem C18_perm_m68k : perm_correct m68k_layout m68k_segs m68k_chains.
Proof. exact (backend_sound _ _ _ m68k_ok). Qed.
Print Assumptions C18_perm_m68k.
(* ascon-asm-m68k.S with __mcoldfire__ (rotates expanded to shifts) *)
Theorem C18_perm_m68k_coldfire : perm_correct m68kcf_layout m68kcf_segs m68kcf_chains.
Proof. exact (backend_sound _ _ _ m68kcf_ok). Qed.
Print Assumptions C18_perm_m68k_coldfire.

(* non-vacuity: the layouts are the documented ones, every backend has a chain for each of the 13 first_round values,
   and the big-endian sliced32 specification (KL32BE) is the little-endian one with the bytes of every 32-bit word
   reversed - on a state with 40 distinct bytes, 12 rounds *)
Definition bits8 (b : N) : list bool := map (N.testbit b) (map N.of_nat (seq 0 8)).
Definition byte_of_bits (l : list bool) : N := fold_right (fun (b : bool) acc => (if b then 1 else 0) + 2 * acc)%N 0%N l.
Definition spec_bytes (L : klayout) (k : nat) (s : list N) : list N :=
  map byte_of_bits (pexec BoolAlg (chain_spec L (seq k (12 - k))) (map bits8 s)).
Fixpoint rev4 (l : list N) : list N := match l with a :: b :: c :: d :: r => d :: c :: b :: a :: rev4 r | _ => l end.
Definition sample : list N := map N.of_nat (seq 1 40).
Example C18_arm_nonvacuous :
  (armv8a_layout, armv7m_layout, armv6_layout, armv6m_layout, i386_layout, m68k_layout, m68kcf_layout) = (KL64, KL32, KL32, KL32, KL32, KL32BE, KL32BE) /\
  map (fun c => length c) [armv8a_chains; armv7m_chains; armv6_chains; armv6m_chains; i386_chains; m68k_chains; m68kcf_chains] = repeat 13 7 /\
  spec_bytes KL32BE 0 (rev4 sample) = rev4 (spec_bytes KL32 0 sample) /\ spec_bytes KL32 0 sample <> sample.
Proof. vm_compute. repeat split. discriminate. Qed.
