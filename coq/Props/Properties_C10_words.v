(* C10 - masked-word toolkit, second part (tools/kern_mword2.py; Gen/MW2_*.v are re-translated from /repo on every run):
   (a) the whole toolkit of the 32-bit masked backend (ascon-masked-word-c32.c), the masked keys (KEY_SHARES 2,3,4)
       and the masked states built over it;
   (b) for the three toolkits (64-bit C, 32-bit C, x86-64 assembly) the operations Properties_C10.v does not
       cover: zero, load_partial (size 0..7), load_32, store_partial (size 0..7), replace (size 0..7), pad (offset 0..7),
       separator;
   (c) the conversions between the unmasked state and masked states (ascon_xN_copy_from_x1 / copy_to_x1) over the C64
       and the C32 toolkits together with the unmasked backend of the same build (ascon-sliced64.c / ascon-sliced32.c).
   All statements are for ALL share bytes (including the surplus shares of the 4-share container), ALL data bytes and
   ALL random words; the integer arguments size/offset are enumerated over their documented range.

   Only the programs (fo_prog) and the descriptors come from the translator; observation and specification are
   Obl/MWordSpec.std_post / std_spec of the descriptor (hand-written; the copies printed as fo_post / fo_spec are checked to be
   syntactically those), and the tables must contain the hand-written lists req_toolkit / req_keys / req_states / req_ops / req_x1.
   Value functions (Obl/MWordSpec.mval64, mval32):
     c64, x86-64 : logical share j = rotl_{11j} S[j],                                         value = XOR of logical shares
     c32         : logical share j = WInterleave (rotl_{5j} W[2j]) (rotl_{5j} W[2j+1]),       value = XOR of logical shares
   Fresh randomness: one unit per fresh share = one 64-bit word or two consecutive 32-bit words; where an obligation
   says "logical share j = J(unit)", J is a fixed bijection (identity, byte swap, rotation by 8*size, the pair as
   even/odd planes or as high/low halves, possibly rotated by 5j) named in build/kern/mword2.json. *)
From Coq Require Import List Arith Bool NArith Lia. Import ListNotations.
From AsconV Require Import Sym.Wexpr Sym.Pipe Obl.FnObl Obl.FnOblParts Obl.MWordCover Gen.MW2_index Gen.MW2_c32_ops2 Gen.MW2_c32_mark.

(* Obl/FnObl.table_correct tab reqs (see Properties_C10.v): every obligation of the table meets the hand-written specification
   of its descriptor for ALL inputs, and every requirement of the hand-written list has an obligation in the table. *)

(* 32-bit toolkit, n = 2,3,4.  load: value = the 8 data bytes (big endian), logical share j >= 1 = its own fresh unit,
   surplus shares 0.  store: the bytes of the value.  randomize (distinct and in place): value kept, logical share
   j >= 1 moved by its own fresh unit, share 0 by the XOR of the units, surplus shares untouched.  xor: value = XOR of
   the values.  xN_from_xM (distinct and in place): value kept, surplus shares of the result 0. *)
Theorem C10_word_toolkit_c32 : table_correct (concat mw2_c32_toolkit_parts) (req_toolkit B32 4 true).
Proof. exact (table_sound_parts _ _ mw2_c32_toolkit_ok mw2_c32_toolkit_covers). Qed.
Print Assumptions C10_word_toolkit_c32.

(* masked keys over the 32-bit toolkit, KEY_SHARES = 2,3,4: ascon_masked_key_{128,160}_init gives words whose values are
   the key words, every share j >= 1 its own fresh unit, surplus shares 0; _extract returns the bytes of the values;
   _randomize_with_trng keeps every value and moves every share of every word by its own fresh unit.
   Masked states over the 32-bit toolkit: ascon_xN_randomize (same statement per word), ascon_xN_copy_from_xM (distinct
   and in place) keeps the five values. *)
Theorem C10_masked_keys_states_c32 : table_correct (concat mw2_c32_keys_states_parts) (req_keys B32 ++ req_states B32 4).
Proof. exact (table_sound_parts _ _ mw2_c32_keys_states_ok mw2_c32_keys_states_covers). Qed.
Print Assumptions C10_masked_keys_states_c32.

(* the remaining word operations, n = 2,3,4:
     zero            : value 0, logical share j >= 1 = its own fresh unit, surplus shares 0
     load_partial s  : s = 0..7 : value = the s data bytes in the top s bytes, the rest 0 (the data buffer has exactly s
                       bytes); logical share j >= 1 = J(its own fresh unit); surplus shares 0
     load_32         : value = be32(data1) * 2^32 + be32(data2); shares as for load
     store_partial s : s = 0..7 : the s bytes written are the top s bytes of the value (the buffer has exactly s bytes)
     replace s       : s = 0..7 : value = top s bytes of the value of src, low 8-s bytes of the value of dest; surplus untouched
     pad o           : o = 0..7 : for n = 2,3,4 alike: value xor 0x80 at byte o from the top; bytes of the other shares untouched
     separator       : value xor 1
   (size/offset 8 is outside the documented range: a shift by the full width in the C files) *)
Theorem C10_word_ops_c64 : table_correct (concat mw2_c64_ops_parts) (req_ops B64 4).
Proof. exact (table_sound_parts _ _ mw2_c64_ops_ok mw2_c64_ops_covers). Qed.
Print Assumptions C10_word_ops_c64.
Theorem C10_word_ops_c32 : table_correct (concat mw2_c32_ops_parts) (req_ops B32 4).
Proof. exact (table_sound_parts _ _ mw2_c32_ops_ok mw2_c32_ops_covers). Qed.
Print Assumptions C10_word_ops_c32.
Theorem C10_word_ops_x86_64_asm : table_correct (concat mw2_x86_ops_parts) (req_ops B64 4).
Proof. exact (table_sound_parts _ _ mw2_x86_ops_ok mw2_x86_ops_covers). Qed.
Print Assumptions C10_word_ops_x86_64_asm.

(* ascon_xN_copy_from_x1: the five values are the five words of the unmasked state (in the layout of the unmasked backend of
   the same build: uint64_t S[5] / uint32_t W[10] even-odd), every share j >= 1 of every word its own fresh unit;
   ascon_xN_copy_to_x1: the unmasked state afterwards holds the five values *)
Theorem C10_state_x1 : table_correct (concat mw2_x1_parts) (req_x1 B32 false 4 ++ req_x1 B64 false 4).
Proof. exact (table_sound_parts _ _ mw2_x1_ok mw2_x1_covers). Qed.
Print Assumptions C10_state_x1.

Example C10_words_coverage :
  List.length (concat mw2_c32_toolkit_parts) = 27 /\ List.length (concat mw2_c32_keys_states_parts) = 36 /\
  List.length (concat mw2_c64_ops_parts) = 87 /\ List.length (concat mw2_c32_ops_parts) = 87 /\ List.length (concat mw2_x86_ops_parts) = 87 /\
  List.length (concat mw2_x1_parts) = 12.
Proof. vm_compute. repeat split. Qed.

(* non-vacuity: the translated 32-bit ascon_masked_word_x2_load_partial with size 3 on data 11 22 33, an arbitrary old word
   and the random word 0x0123456789abcdef gives a word whose value is 0x1122330000000000; the translated 32-bit
   ascon_masked_word_pad with offset 2 on the all-zero word gives value 0x0000800000000000 *)
Example C10_words_nonvacuous :
  nth 0 (run BoolAlg (run BoolAlg (map (const_bits BoolAlg 8) (repeat 165 32 ++ [17; 34; 51])%N ++ [const_bits BoolAlg 64 81985529216486895%N])
                                  (fo_prog c32_ops2_x2_load_partial_3)) (fo_post c32_ops2_x2_load_partial_3)) [] =
  const_bits BoolAlg 64 1234605322945953792%N /\
  nth 0 (run BoolAlg (run BoolAlg (map (const_bits BoolAlg 8) (repeat 0 32)%N) (fo_prog c32_mark_pad_2)) (fo_post c32_mark_pad_2)) [] =
  const_bits BoolAlg 64 140737488355328%N.
Proof. vm_compute. split; reflexivity. Qed.
