(* C10 - every container size, part 3: the 32-bit C masked permutation kernels (src/masking/ascon-x{2,3,4}-c32.c,
   -DASCON_FORCE_C32 -DASCON_MASKED_MAX_SHARES=k).  Statement and reading of memory: see Properties_C10_maxshares.v and
   Obl/KernMaskedDefs.masked_perm_std / Obl/MWordSpec.state_val B32. *)
From Coq Require Import List Arith Bool NArith Lia String. Import ListNotations.
From AsconV Require Import Sym.Wexpr Sym.Pipe Sym.Kernel Sym.KernelP Sym.VKernel Obl.KernMaskedDefs Obl.FnObl Obl.FnOblParts
  Gen.Masked_mx2_c32_max2 Gen.MaskedObl_mx2_c32_max2
  Gen.Masked_mx2_c32_max3 Gen.MaskedObl_mx2_c32_max3
  Gen.Masked_mx3_c32_max3 Gen.MaskedObl_mx3_c32_max3
  Gen.Masked_mx2_c32 Gen.MaskedObl_mx2_c32
  Gen.Masked_mx3_c32 Gen.MaskedObl_mx3_c32
  Gen.Masked_mx4_c32 Gen.MaskedObl_mx4_c32.

Theorem C10_perm_x2_c32_max2 : masked_perm_std B32 2 2 mx2_c32_max2_ifaces mx2_c32_max2_entry mx2_c32_max2_exit mx2_c32_max2_segs mx2_c32_max2_chains.
Proof. exact (vbackend_sound_std _ _ _ _ _ _ _ _ mx2_c32_max2_ok mx2_c32_max2_std_ok). Qed.
Print Assumptions C10_perm_x2_c32_max2.
Theorem C10_perm_x2_c32_max3 : masked_perm_std B32 2 3 mx2_c32_max3_ifaces mx2_c32_max3_entry mx2_c32_max3_exit mx2_c32_max3_segs mx2_c32_max3_chains.
Proof. exact (vbackend_sound_std _ _ _ _ _ _ _ _ mx2_c32_max3_ok mx2_c32_max3_std_ok). Qed.
Print Assumptions C10_perm_x2_c32_max3.
Theorem C10_perm_x2_c32_max4 : masked_perm_std B32 2 4 mx2_c32_ifaces mx2_c32_entry mx2_c32_exit mx2_c32_segs mx2_c32_chains.
Proof. exact (vbackend_sound_std _ _ _ _ _ _ _ _ mx2_c32_ok mx2_c32_std_ok). Qed.
Print Assumptions C10_perm_x2_c32_max4.
Theorem C10_perm_x3_c32_max3 : masked_perm_std B32 3 3 mx3_c32_max3_ifaces mx3_c32_max3_entry mx3_c32_max3_exit mx3_c32_max3_segs mx3_c32_max3_chains.
Proof. exact (vbackend_sound_std _ _ _ _ _ _ _ _ mx3_c32_max3_ok mx3_c32_max3_std_ok). Qed.
Print Assumptions C10_perm_x3_c32_max3.
Theorem C10_perm_x3_c32_max4 : masked_perm_std B32 3 4 mx3_c32_ifaces mx3_c32_entry mx3_c32_exit mx3_c32_segs mx3_c32_chains.
Proof. exact (vbackend_sound_std _ _ _ _ _ _ _ _ mx3_c32_ok mx3_c32_std_ok). Qed.
Print Assumptions C10_perm_x3_c32_max4.
Theorem C10_perm_x4_c32_max4 : masked_perm_std B32 4 4 mx4_c32_ifaces mx4_c32_entry mx4_c32_exit mx4_c32_segs mx4_c32_chains.
Proof. exact (vbackend_sound_std _ _ _ _ _ _ _ _ mx4_c32_ok mx4_c32_std_ok). Qed.
Print Assumptions C10_perm_x4_c32_max4.

(* non-vacuity of the 32-bit reading: in the 24-byte layout, bit 0 of the byte at offset 24 + 8 + 4 (word 1, share 1, odd half)
   is bit 5 of the odd half un-rotated, i.e. bit 11 of the 64-bit value of word 1 *)
Example C10_maxshares_c32_reads_stride :
  run BoolAlg (map (fun i => [Nat.eqb i 36; false; false; false; false; false; false; false]) (seq 0 128)) (state_val B32 2 3) =
  map (fun w => map (fun b => andb (Nat.eqb w 1) (Nat.eqb b 11)) (seq 0 64)) (seq 0 5).
Proof. vm_compute. reflexivity. Qed.
