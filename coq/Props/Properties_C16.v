(* C16 - re-entrancy: operations on distinct objects and concurrent read-only
   use of shared constant objects give, under every interleaving, the
   sequential results, without data races; no hidden mutable global state.

   Part 1 (model): the footprint theorem, for any number of threads and every
   interleaving.  Proofs are in Proofs/ConcP.v; only statements here.
   Part 2 (tie, T): static facts about the repository's CURRENT tree, checked
   by computation on Gen/Globals.v, which tools/globals.py regenerates on every
   run from clang's AST of every translation unit of the library (with the
   build's own flags), from the sections of the built libascon_static.a and
   from the public headers, in six build configurations.

   Not proved (runtime clause, PARTIAL): that the C functions, as compiled,
   touch only the objects they are passed - the static facts below exclude
   hidden shared storage and const-dropping pointer conversions; an actual
   race remains a runtime event observed only by the sampled ThreadSanitizer
   runs of lib/p_c16.py. *)
From Coq Require Import List String NArith Bool Arith.
From AsconV Require Import Model.Conc Proofs.ConcP Gen.Globals.
Import ListNotations.
Local Open Scope nat_scope.

(* ------------------------------------------------------------------------ *)
(* Part 1: the model *)

(* If every step of thread i reads only W_i u R_i and writes only W_i
   (pool_ok), and W_i is disjoint from W_j u R_j for i <> j (fps_ok), then for
   EVERY interleaving tr of the pool, from every initial heap h0: the final
   heap on W_i (and on R_i) and the values read by each step of thread i are
   those of running thread i alone from h0. *)
Theorem C16_interleave : forall fps ps tr h0,
  pool_ok fps ps -> fps_ok fps (List.length ps) -> interleaving ps tr ->
  forall i, i < List.length ps ->
    (forall l, In l (fp_w (fpget fps i)) -> run_trace tr h0 l = run (get ps i) h0 l) /\
    (forall l, In l (fp_r (fpget fps i)) -> run_trace tr h0 l = run (get ps i) h0 l) /\
    obs_trace i tr h0 = obs_run (get ps i) h0.
Proof. exact interleave_main. Qed.
Print Assumptions C16_interleave.

(* The plain sequential execution (thread 0, then thread 1, ...) is one of the
   interleavings and computes the sequential composition of the threads ... *)
Theorem C16_sequential_is_interleaving : forall ps h0,
  interleaving ps (seq_trace ps) /\ (forall l, run_trace (seq_trace ps) h0 l = run_seq ps h0 l).
Proof. intros ps h0. split; [exact (seq_interleaving ps) | intro l; unfold seq_trace; rewrite run_seq_trace; reflexivity]. Qed.
Print Assumptions C16_sequential_is_interleaving.

(* ... and every interleaving gives every thread the sequential results. *)
Theorem C16_sequential : forall fps ps tr h0,
  pool_ok fps ps -> fps_ok fps (List.length ps) -> interleaving ps tr ->
  forall i, i < List.length ps ->
    agree (foot (fpget fps i)) (run_trace tr h0) (run_seq ps h0) /\
    obs_trace i tr h0 = obs_trace i (seq_trace ps) h0.
Proof. exact interleave_sequential. Qed.
Print Assumptions C16_sequential.

(* Data-race freedom in the model: no pool reachable by executing a prefix of
   any interleaving has two different threads whose next steps conflict (one
   writes a location the other reads or writes). *)
Theorem C16_race_free : forall fps ps0,
  pool_ok fps ps0 -> fps_ok fps (List.length ps0) ->
  ~ (exists ps i j s t ri rj, reach ps0 ps /\ i <> j /\
       get ps i = s :: ri /\ get ps j = t :: rj /\ conflict s t).
Proof. exact race_free. Qed.
Print Assumptions C16_race_free.

(* Locations outside every write footprint keep their initial value (shared
   constant objects are not modified). *)
Theorem C16_frame : forall fps ps tr, interleaving ps tr -> pool_ok fps ps ->
  forall h l, (forall i, i < List.length ps -> ~ In l (fp_w (fpget fps i))) -> run_trace tr h l = h l.
Proof. exact interleave_frame. Qed.
Print Assumptions C16_frame.

(* ---- non-vacuity: 3 threads, shared read-only locations 0..2, own objects
   10i+10 and 10i+11, a non-trivial interleaving, evaluated ---- *)
Local Open Scope N_scope.
Definition ex_thread (i : N) : prog :=
  let a := 10 * i + 10 in let b := 10 * i + 11 in
  [ step_of [0; 1] [a] (fun v _ => nth 0%nat v 0 + 2 * nth 1%nat v 0 + i);
    step_of [a; 2] [b] (fun v _ => nth 0%nat v 0 * nth 1%nat v 0 + 1);
    step_of [a; b; 1] [a; b] (fun v l => if l =? a then N.lxor (nth 0%nat v 0) (nth 1%nat v 0)
                                         else nth 1%nat v 0 + nth 2%nat v 0) ].
Definition ex_pool : pool := [ex_thread 0; ex_thread 1; ex_thread 2].
Definition ex_fps : list footprint :=
  [mk_fp [10; 11] [0; 1; 2]; mk_fp [20; 21] [0; 1; 2]; mk_fp [30; 31] [0; 1; 2]].
Definition ex_heap : heap := fun l => if l <? 3 then 100 + 7 * l else 0.
Definition ex_sched : list nat := [2; 0; 1; 1; 2; 0; 1; 0; 2]%nat.
Definition ex_locs : list loc := [0; 1; 2; 10; 11; 20; 21; 30; 31].

Lemma ex_pool_wf : forall i, Forall step_wf (get ex_pool i).
Proof.
  intro i. do 3 (destruct i as [|i]; [repeat constructor; apply step_of_wf|]).
  unfold get. destruct i; constructor.
Qed.

Example C16_nonvacuous :
  pool_ok ex_fps ex_pool /\ fps_ok ex_fps (List.length ex_pool) /\
  exists tr, trace_of ex_pool ex_sched = Some tr /\ interleaving ex_pool tr /\
    map fst tr = ex_sched /\
    (* the interleaved run ... *)
    map (run_trace tr ex_heap) ex_locs = [100; 107; 114; 35567; 35904; 36220; 36018; 36229; 36132] /\
    (* ... equals the three solo runs on their own objects *)
    map (run (ex_thread 0) ex_heap) [10; 11] = [35567; 35904] /\
    map (run (ex_thread 1) ex_heap) [20; 21] = [36220; 36018] /\
    map (run (ex_thread 2) ex_heap) [30; 31] = [36229; 36132] /\
    (* and thread 1 read, in its three steps, what it reads alone *)
    obs_trace 1 tr ex_heap = [[100; 107]; [315; 114]; [315; 35911; 107]] /\
    obs_run (ex_thread 1) ex_heap = [[100; 107]; [315; 114]; [315; 35911; 107]].
Proof.
  split; [apply pool_inb_ok; [vm_compute; reflexivity | exact ex_pool_wf]|].
  split; [apply fps_okb_ok; vm_compute; reflexivity|].
  destruct (trace_of ex_pool ex_sched) as [tr|] eqn:T; [|vm_compute in T; discriminate].
  exists tr. split; [reflexivity|]. split; [exact (trace_of_sound _ _ _ T)|].
  vm_compute in T. inversion T; subst tr. vm_compute. repeat split; reflexivity.
Qed.

(* the hypothesis is needed: two threads that use one shared scratch location
   (a function-`static` buffer) get schedule-dependent results *)
Definition scratch_thread (own : N) (x : N) : prog :=
  [ step_of [] [99] (fun _ _ => x); step_of [99] [own] (fun v _ => nth 0%nat v 0) ].
Example C16_shared_scratch_breaks :
  let ps := [scratch_thread 10 5; scratch_thread 20 6] in
  exists tr1 tr2, interleaving ps tr1 /\ interleaving ps tr2 /\
    run_trace tr1 (fun _ => 0) 10 = 5 /\ run_trace tr2 (fun _ => 0) 10 = 6 /\
    (exists ps' s t ri rj, reach ps ps' /\ get ps' 0%nat = s :: ri /\ get ps' 1%nat = t :: rj /\ conflict s t).
Proof.
  cbv zeta.
  destruct (trace_of [scratch_thread 10 5; scratch_thread 20 6] [0; 0; 1; 1]%nat) as [tr1|] eqn:T1; [|vm_compute in T1; discriminate].
  destruct (trace_of [scratch_thread 10 5; scratch_thread 20 6] [0; 1; 0; 1]%nat) as [tr2|] eqn:T2; [|vm_compute in T2; discriminate].
  exists tr1, tr2.
  split; [exact (trace_of_sound _ _ _ T1)|]. split; [exact (trace_of_sound _ _ _ T2)|].
  vm_compute in T1. inversion T1; subst tr1. vm_compute in T2. inversion T2; subst tr2.
  split; [vm_compute; reflexivity|]. split; [vm_compute; reflexivity|].
  eexists _, _, _, _, _. split; [apply reach_refl|]. split; [reflexivity|]. split; [reflexivity|].
  exists 99. left. split; [left; reflexivity | right; left; reflexivity].
Qed.
Local Close Scope N_scope.

(* ------------------------------------------------------------------------ *)
(* Part 2: static facts about the current tree (Gen/Globals.v) *)
Local Open Scope string_scope.

Definition production : list scan := [default_cfg; c64_cfg; c32_cfg; directxor_cfg; generic_cfg].
Definition isnil {A} (l : list A) : bool := match l with [] => true | _ => false end.

(* every configuration configured, built, and every C/C++ TU of the library
   was parsed; the library has C/C++ and assembly TUs in each *)
Theorem C16_scan_complete :
  map sc_cfg all_scans = ["default"; "c64"; "c32"; "directxor"; "generic"; "checkar"; "trngnone"] /\
  forallb sc_ok all_scans = true /\
  forallb (fun c => Nat.leb 60 (sc_tus c) && Nat.leb 1 (sc_asm_tus c) && Nat.leb 400 (List.length (sc_params c)))
          (production ++ [checkar_cfg]) = true.
Proof. vm_compute. repeat split; reflexivity. Qed.
Print Assumptions C16_scan_complete.

(* the configuration under test keeps no writable static storage: no
   non-const, non-thread-local object with static storage duration in any TU
   (AST), and no writable section of non-zero size in any member of
   libascon_static.a other than relocation-only ones (objects) *)
Theorem C16_no_globals : writable_globals default_cfg = [].
Proof. vm_compute. reflexivity. Qed.
Print Assumptions C16_no_globals.

(* the same in the four other permutation back ends; and none of the six
   builds has thread-local state either *)
Theorem C16_no_globals_backends :
  forallb (fun c => isnil (writable_globals c)) production = true /\
  forallb (fun c => isnil (thread_local_state c)) (production ++ [checkar_cfg]) = true.
Proof. vm_compute. split; reflexivity. Qed.
Print Assumptions C16_no_globals_backends.

(* accounted exception 1: the diagnostic CHECK_ACQUIRE_RELEASE build has exactly
   one shared mutable object, the balance flag `acquired` of
   ascon-direct-xor.c (so THAT build is single-threaded by construction; it is
   not a production configuration) *)
Theorem C16_checkar_globals :
  writable_globals checkar_cfg = ["acquired@core/ascon-direct-xor.c"; "ascon-direct-xor.c.o:.bss"].
Proof. vm_compute. reflexivity. Qed.
Print Assumptions C16_checkar_globals.

(* accounted exception 2: the portable TRNG back end that is not selected on
   this host (ascon-trng-none.c, selection forced for the scan) keeps its
   `global_prng` in thread-local storage: no shared writable object *)
Theorem C16_trngnone_thread_local :
  writable_globals trngnone_cfg = [] /\
  thread_local_state trngnone_cfg =
    ["global_prng@random/ascon-trng-none.c"; "global_prng_initialized@random/ascon-trng-none.c";
     "trngnone-ascon-trng-none.c.o:.tbss"].
Proof. vm_compute. split; reflexivity. Qed.
Print Assumptions C16_trngnone_thread_local.

(* whatever the preprocessor hides on this host: every non-const `static`
   object declaration anywhere under src/ is one of the two above or the
   one-time initialisation flag of the Arduino Due TRNG driver (bare-metal,
   not compilable here; an idempotent peripheral enable) *)
Theorem C16_text_statics_accounted :
  map (fun t => (ts_name t, ts_file t)) (filter (fun t => negb (ts_const t)) text_statics) =
    [("acquired", "core/ascon-direct-xor.c"); ("due_init_done", "random/ascon-trng-due.c");
     ("global_prng", "random/ascon-trng-none.c"); ("global_prng_initialized", "random/ascon-trng-none.c")].
Proof. vm_compute. reflexivity. Qed.
Print Assumptions C16_text_statics_accounted.

(* no library function converts a pointer-to-const into a pointer-to-non-const
   (explicit cast or implicit conversion, comparisons aside): what is passed
   through a const-qualified parameter cannot be written without a diagnostic *)
Theorem C16_no_const_dropping_conversions : forallb (fun c => isnil (sc_const_drops c)) all_scans = true.
Proof. vm_compute. reflexivity. Qed.
Print Assumptions C16_no_const_dropping_conversions.

(* shared key objects: a parameter of pre-computed-ISAP-key or masked-key type
   is const-qualified unless the function is one of the object's own
   life-cycle operations; and the per-packet operations take it const *)
Definition key_types : list string :=
  ["ascon128_isap_aead_key_t"; "ascon128a_isap_aead_key_t"; "ascon80pq_isap_aead_key_t";
   "ascon_masked_key_128_t"; "ascon_masked_key_160_t"].
Definition key_owner_suffixes : list string := ["_init"; "_free"; "_load_key"; "_save_key"; "_randomize"].
Definition key_param_ok (p : sparam) : bool :=
  negb (strmem (sp_pointee p) key_types) || sp_const p || existsb (fun s => suffixb s (sp_fn p)) key_owner_suffixes.
Definition const_at (ps : list sparam) (e : string * nat) : bool :=
  existsb (fun p => String.eqb (sp_fn p) (fst e) && Nat.eqb (sp_idx p) (snd e) && sp_const p) ps.
Definition key_readers : list (string * nat) :=
  [("ascon128_isap_aead_encrypt", 7); ("ascon128_isap_aead_decrypt", 7);
   ("ascon128a_isap_aead_encrypt", 7); ("ascon128a_isap_aead_decrypt", 7);
   ("ascon80pq_isap_aead_encrypt", 7); ("ascon80pq_isap_aead_decrypt", 7);
   ("ascon128_masked_aead_encrypt", 7); ("ascon128_masked_aead_decrypt", 7);
   ("ascon128a_masked_aead_encrypt", 7); ("ascon128a_masked_aead_decrypt", 7);
   ("ascon80pq_masked_aead_encrypt", 7); ("ascon80pq_masked_aead_decrypt", 7);
   ("ascon_masked_key_128_extract", 0); ("ascon_masked_key_160_extract", 0)]%nat.

Theorem C16_shared_keys_const :
  forallb (fun c => forallb key_param_ok (sc_params c) && forallb (const_at (sc_params c)) key_readers)
          (production ++ [checkar_cfg]) = true.
Proof. vm_compute. reflexivity. Qed.
Print Assumptions C16_shared_keys_const.

(* shared constant inputs: every (function, parameter index) through which the
   multi-threaded workload (harness/x_threads.cpp) passes a shared object is a
   pointer to const in the public headers *)
Definition shared_uses : list (string * nat) :=
  [("ascon_overwrite_bytes", 1); ("ascon_add_bytes", 1); ("ascon_extract_and_add_bytes", 1); 
   ("ascon_extract_and_overwrite_bytes", 1); ("ascon_copy", 1); ("ascon_hash", 1); 
   ("ascon_hash_update", 1); ("ascon_hash_copy", 1); ("ascon_hasha", 1); ("ascon_hasha_update", 1); 
   ("ascon_hasha_copy", 1); ("ascon_xof", 1); ("ascon_xof_absorb", 1); ("ascon_xof_init_custom", 1); 
   ("ascon_xof_init_custom", 2); ("ascon_xof_reinit_custom", 1); ("ascon_xof_reinit_custom", 2); 
   ("ascon_xof_copy", 1); ("ascon_xofa", 1); ("ascon_xofa_absorb", 1); ("ascon_xofa_init_custom", 1); 
   ("ascon_xofa_init_custom", 2); ("ascon_xofa_reinit_custom", 1); ("ascon_xofa_reinit_custom", 2); 
   ("ascon_xofa_copy", 1); ("ascon128_aead_encrypt", 2); ("ascon128_aead_encrypt", 4); 
   ("ascon128_aead_encrypt", 6); ("ascon128_aead_encrypt", 7); ("ascon128_aead_decrypt", 2); 
   ("ascon128_aead_decrypt", 4); ("ascon128_aead_decrypt", 6); ("ascon128_aead_decrypt", 7); 
   ("ascon128_aead_init", 1); ("ascon128_aead_init", 2); ("ascon128_aead_reinit", 1); 
   ("ascon128_aead_reinit", 2); ("ascon128_aead_start", 1); ("ascon128_aead_encrypt_block", 1); 
   ("ascon128_aead_decrypt_block", 1); ("ascon128_aead_decrypt_finalize", 1); 
   ("ascon128_siv_encrypt", 2); ("ascon128_siv_encrypt", 4); ("ascon128_siv_encrypt", 6); 
   ("ascon128_siv_encrypt", 7); ("ascon128_siv_decrypt", 2); ("ascon128_siv_decrypt", 4); 
   ("ascon128_siv_decrypt", 6); ("ascon128_siv_decrypt", 7); ("ascon128_isap_aead_encrypt", 2); 
   ("ascon128_isap_aead_encrypt", 4); ("ascon128_isap_aead_encrypt", 6); 
   ("ascon128_isap_aead_encrypt", 7); ("ascon128_isap_aead_decrypt", 2); 
   ("ascon128_isap_aead_decrypt", 4); ("ascon128_isap_aead_decrypt", 6); 
   ("ascon128_isap_aead_decrypt", 7); ("ascon128_isap_aead_init", 1); 
   ("ascon128_isap_aead_load_key", 1); ("ascon128_masked_aead_encrypt", 2); 
   ("ascon128_masked_aead_encrypt", 4); ("ascon128_masked_aead_encrypt", 6); 
   ("ascon128_masked_aead_encrypt", 7); ("ascon128_masked_aead_decrypt", 2); 
   ("ascon128_masked_aead_decrypt", 4); ("ascon128_masked_aead_decrypt", 6); 
   ("ascon128_masked_aead_decrypt", 7); ("ascon128a_aead_encrypt", 2); ("ascon128a_aead_encrypt", 4); 
   ("ascon128a_aead_encrypt", 6); ("ascon128a_aead_encrypt", 7); ("ascon128a_aead_decrypt", 2); 
   ("ascon128a_aead_decrypt", 4); ("ascon128a_aead_decrypt", 6); ("ascon128a_aead_decrypt", 7); 
   ("ascon128a_aead_init", 1); ("ascon128a_aead_init", 2); ("ascon128a_aead_reinit", 1); 
   ("ascon128a_aead_reinit", 2); ("ascon128a_aead_start", 1); ("ascon128a_aead_encrypt_block", 1); 
   ("ascon128a_aead_decrypt_block", 1); ("ascon128a_aead_decrypt_finalize", 1); 
   ("ascon128a_siv_encrypt", 2); ("ascon128a_siv_encrypt", 4); ("ascon128a_siv_encrypt", 6); 
   ("ascon128a_siv_encrypt", 7); ("ascon128a_siv_decrypt", 2); ("ascon128a_siv_decrypt", 4); 
   ("ascon128a_siv_decrypt", 6); ("ascon128a_siv_decrypt", 7); ("ascon128a_isap_aead_encrypt", 2); 
   ("ascon128a_isap_aead_encrypt", 4); ("ascon128a_isap_aead_encrypt", 6); 
   ("ascon128a_isap_aead_encrypt", 7); ("ascon128a_isap_aead_decrypt", 2); 
   ("ascon128a_isap_aead_decrypt", 4); ("ascon128a_isap_aead_decrypt", 6); 
   ("ascon128a_isap_aead_decrypt", 7); ("ascon128a_isap_aead_init", 1); 
   ("ascon128a_isap_aead_load_key", 1); ("ascon128a_masked_aead_encrypt", 2); 
   ("ascon128a_masked_aead_encrypt", 4); ("ascon128a_masked_aead_encrypt", 6); 
   ("ascon128a_masked_aead_encrypt", 7); ("ascon128a_masked_aead_decrypt", 2); 
   ("ascon128a_masked_aead_decrypt", 4); ("ascon128a_masked_aead_decrypt", 6); 
   ("ascon128a_masked_aead_decrypt", 7); ("ascon80pq_aead_encrypt", 2); ("ascon80pq_aead_encrypt", 4); 
   ("ascon80pq_aead_encrypt", 6); ("ascon80pq_aead_encrypt", 7); ("ascon80pq_aead_decrypt", 2); 
   ("ascon80pq_aead_decrypt", 4); ("ascon80pq_aead_decrypt", 6); ("ascon80pq_aead_decrypt", 7); 
   ("ascon80pq_aead_init", 1); ("ascon80pq_aead_init", 2); ("ascon80pq_aead_reinit", 1); 
   ("ascon80pq_aead_reinit", 2); ("ascon80pq_aead_start", 1); ("ascon80pq_aead_encrypt_block", 1); 
   ("ascon80pq_aead_decrypt_block", 1); ("ascon80pq_aead_decrypt_finalize", 1); 
   ("ascon80pq_siv_encrypt", 2); ("ascon80pq_siv_encrypt", 4); ("ascon80pq_siv_encrypt", 6); 
   ("ascon80pq_siv_encrypt", 7); ("ascon80pq_siv_decrypt", 2); ("ascon80pq_siv_decrypt", 4); 
   ("ascon80pq_siv_decrypt", 6); ("ascon80pq_siv_decrypt", 7); ("ascon80pq_isap_aead_encrypt", 2); 
   ("ascon80pq_isap_aead_encrypt", 4); ("ascon80pq_isap_aead_encrypt", 6); 
   ("ascon80pq_isap_aead_encrypt", 7); ("ascon80pq_isap_aead_decrypt", 2); 
   ("ascon80pq_isap_aead_decrypt", 4); ("ascon80pq_isap_aead_decrypt", 6); 
   ("ascon80pq_isap_aead_decrypt", 7); ("ascon80pq_isap_aead_init", 1); 
   ("ascon80pq_isap_aead_load_key", 1); ("ascon80pq_masked_aead_encrypt", 2); 
   ("ascon80pq_masked_aead_encrypt", 4); ("ascon80pq_masked_aead_encrypt", 6); 
   ("ascon80pq_masked_aead_encrypt", 7); ("ascon80pq_masked_aead_decrypt", 2); 
   ("ascon80pq_masked_aead_decrypt", 4); ("ascon80pq_masked_aead_decrypt", 6); 
   ("ascon80pq_masked_aead_decrypt", 7); ("ascon_masked_key_128_extract", 0); 
   ("ascon_masked_key_128_init", 1); ("ascon_masked_key_160_extract", 0); 
   ("ascon_masked_key_160_init", 1); ("ascon_prf", 2); ("ascon_prf", 4); ("ascon_prf_fixed", 2); 
   ("ascon_prf_fixed", 4); ("ascon_prf_short", 2); ("ascon_prf_short", 4); ("ascon_mac", 1); 
   ("ascon_mac", 3); ("ascon_mac_verify", 0); ("ascon_mac_verify", 1); ("ascon_mac_verify", 3); 
   ("ascon_prf_init", 1); ("ascon_prf_absorb", 1); ("ascon_prf_fixed_reinit", 1); ("ascon_hmac", 1); 
   ("ascon_hmac", 3); ("ascon_hmac_init", 1); ("ascon_hmac_reinit", 1); ("ascon_hmac_update", 1); 
   ("ascon_hmac_finalize", 1); ("ascon_hmaca", 1); ("ascon_hmaca", 3); ("ascon_hmaca_init", 1); 
   ("ascon_hmaca_reinit", 1); ("ascon_hmaca_update", 1); ("ascon_hmaca_finalize", 1); ("ascon_kmac", 0); 
   ("ascon_kmac", 2); ("ascon_kmac", 4); ("ascon_kmac_init", 1); ("ascon_kmac_init", 3); 
   ("ascon_kmac_reinit", 1); ("ascon_kmac_reinit", 3); ("ascon_kmac_absorb", 1); ("ascon_kmaca", 0); 
   ("ascon_kmaca", 2); ("ascon_kmaca", 4); ("ascon_kmaca_init", 1); ("ascon_kmaca_init", 3); 
   ("ascon_kmaca_reinit", 1); ("ascon_kmaca_reinit", 3); ("ascon_kmaca_absorb", 1); ("ascon_hkdf", 2); 
   ("ascon_hkdf", 4); ("ascon_hkdf", 6); ("ascon_hkdf_extract", 1); ("ascon_hkdf_extract", 3); 
   ("ascon_hkdf_expand", 1); ("ascon_hkdfa", 2); ("ascon_hkdfa", 4); ("ascon_hkdfa", 6); 
   ("ascon_hkdfa_extract", 1); ("ascon_hkdfa_extract", 3); ("ascon_hkdfa_expand", 1); ("ascon_kdf", 2); 
   ("ascon_kdf", 4); ("ascon_kdf_init", 1); ("ascon_kdf_init", 3); ("ascon_kdf_reinit", 1); 
   ("ascon_kdf_reinit", 3); ("ascon_kdfa", 2); ("ascon_kdfa", 4); ("ascon_kdfa_init", 1); 
   ("ascon_kdfa_init", 3); ("ascon_kdfa_reinit", 1); ("ascon_kdfa_reinit", 3); ("ascon_pbkdf2", 2); 
   ("ascon_pbkdf2", 4); ("ascon_pbkdf2_hmac", 2); ("ascon_pbkdf2_hmac", 4); ("ascon_random_feed", 1); 
   ("ascon_bytes_to_hex", 2); ("ascon_bytes_from_hex", 2)]%nat.

Theorem C16_shared_inputs_const :
  forallb (fun c => forallb (const_at (sc_params c)) shared_uses) (production ++ [checkar_cfg]) = true.
Proof. vm_compute. reflexivity. Qed.
Print Assumptions C16_shared_inputs_const.
