(* C10 / C18 - every container size, part 2: the x86-64 assembly masked permutation kernels
   (src/masking/ascon-x{2,3,4}-asm-x86-64.S preprocessed with -DASCON_MASKED_MAX_SHARES=k: the `#if >= 4`, `#elif >= 3`,
   `#elif >= 2` bodies are three different instruction streams).  Statement and reading of memory: see
   Properties_C10_maxshares.v and Obl/KernMaskedDefs.masked_perm_std / Obl/MWordSpec.state_val. *)
From Coq Require Import List Arith Bool NArith Lia String. Import ListNotations.
From AsconV Require Import Sym.Wexpr Sym.Pipe Sym.Kernel Sym.KernelP Sym.VKernel Obl.KernMaskedDefs Obl.FnObl Obl.FnOblParts
  Gen.Masked_mx2_x86_max2 Gen.MaskedObl_mx2_x86_max2
  Gen.Masked_mx2_x86_max3 Gen.MaskedObl_mx2_x86_max3
  Gen.Masked_mx3_x86_max3 Gen.MaskedObl_mx3_x86_max3
  Gen.Masked_mx2_x86 Gen.MaskedObl_mx2_x86
  Gen.Masked_mx3_x86 Gen.MaskedObl_mx3_x86
  Gen.Masked_mx4_x86 Gen.MaskedObl_mx4_x86.

Theorem C10_perm_x2_x86_64_asm_max2 : masked_perm_std B64 2 2 mx2_x86_max2_ifaces mx2_x86_max2_entry mx2_x86_max2_exit mx2_x86_max2_segs mx2_x86_max2_chains.
Proof. exact (vbackend_sound_std _ _ _ _ _ _ _ _ mx2_x86_max2_ok mx2_x86_max2_std_ok). Qed.
Print Assumptions C10_perm_x2_x86_64_asm_max2.
Theorem C10_perm_x2_x86_64_asm_max3 : masked_perm_std B64 2 3 mx2_x86_max3_ifaces mx2_x86_max3_entry mx2_x86_max3_exit mx2_x86_max3_segs mx2_x86_max3_chains.
Proof. exact (vbackend_sound_std _ _ _ _ _ _ _ _ mx2_x86_max3_ok mx2_x86_max3_std_ok). Qed.
Print Assumptions C10_perm_x2_x86_64_asm_max3.
Theorem C10_perm_x2_x86_64_asm_max4 : masked_perm_std B64 2 4 mx2_x86_ifaces mx2_x86_entry mx2_x86_exit mx2_x86_segs mx2_x86_chains.
Proof. exact (vbackend_sound_std _ _ _ _ _ _ _ _ mx2_x86_ok mx2_x86_std_ok). Qed.
Print Assumptions C10_perm_x2_x86_64_asm_max4.
Theorem C10_perm_x3_x86_64_asm_max3 : masked_perm_std B64 3 3 mx3_x86_max3_ifaces mx3_x86_max3_entry mx3_x86_max3_exit mx3_x86_max3_segs mx3_x86_max3_chains.
Proof. exact (vbackend_sound_std _ _ _ _ _ _ _ _ mx3_x86_max3_ok mx3_x86_max3_std_ok). Qed.
Print Assumptions C10_perm_x3_x86_64_asm_max3.
Theorem C10_perm_x3_x86_64_asm_max4 : masked_perm_std B64 3 4 mx3_x86_ifaces mx3_x86_entry mx3_x86_exit mx3_x86_segs mx3_x86_chains.
Proof. exact (vbackend_sound_std _ _ _ _ _ _ _ _ mx3_x86_ok mx3_x86_std_ok). Qed.
Print Assumptions C10_perm_x3_x86_64_asm_max4.
Theorem C10_perm_x4_x86_64_asm_max4 : masked_perm_std B64 4 4 mx4_x86_ifaces mx4_x86_entry mx4_x86_exit mx4_x86_segs mx4_x86_chains.
Proof. exact (vbackend_sound_std _ _ _ _ _ _ _ _ mx4_x86_ok mx4_x86_std_ok). Qed.
Print Assumptions C10_perm_x4_x86_64_asm_max4.

(* non-vacuity: the translated x86-64 ascon_x2_permute of the MAX_SHARES = 3 body run on a concrete input of the entry
   interface (memory with only bit 0 of the byte at offset 32 set - word 1, share 1 in the 24-byte layout - and zero
   registers): the hand-written reading gives bit 11 of word 1; with first_round 12 (no rounds) the value afterwards is
   the same; with first_round 11 it is the last round of that value, which differs *)
Definition ex_w : list nat := vi_w (vif mx2_x86_max3_ifaces mx2_x86_max3_entry).
Definition ex_v : list (list bool) := map (fun iw => Nat.eqb (fst iw) 32 :: repeat false (snd iw - 1)) (combine (seq 0 (List.length ex_w)) ex_w).
Definition ex_chain (k : nat) : list vseg := vchain_of mx2_x86_max3_segs (snd (nth k mx2_x86_max3_chains (0, []))).
Definition ex_val : list (list bool) := map (fun w => map (fun b => andb (Nat.eqb w 1) (Nat.eqb b 11)) (seq 0 64)) (seq 0 5).
Example C10_maxshares_nonvacuous :
  widths_of ex_v = ex_w /\ run BoolAlg ex_v (state_val B64 2 3) = ex_val /\
  run BoolAlg (vrun_chain (ex_chain 12) ex_v) (state_val B64 2 3) = ex_val /\
  run BoolAlg (vrun_chain (ex_chain 11) ex_v) (state_val B64 2 3) = pexec BoolAlg (rounds_pipe KL64 [11]) ex_val /\
  pexec BoolAlg (rounds_pipe KL64 [11]) ex_val <> ex_val.
Proof. repeat split; try (vm_compute; reflexivity). vm_compute. discriminate. Qed.
