(* C15 - the PRNG is deterministic in its entropy, forward secure, reseeds and reports status. *)
From AsconV Require Import Model.Prngm Proofs.PrngP Proofs.PermP.
From Coq Require Import ZArith.
Local Open Scope nat_scope.

(* Determinism: the model is a total function of (operation, state, system answers,
   fed bytes, storage answers) - there is no other input. *)

(* Forward security (structural): after init, fetch, feed and reseed the sponge state is
   rekey x for some x, and every re-keyed state is perm 0 (zero_rate t): it has just been
   through zero-the-rate-then-permute (4 times), is block aligned and in absorb mode *)
Theorem C15_forward_shape : forall x,
  x_st (rekey Perm.perm x) = rekey_st Perm.perm (x_st (xof_pad Perm.perm vxof x)) /\
  x_count (rekey Perm.perm x) = 0 /\ x_mode (rekey Perm.perm x) = false /\
  exists t, x_st (rekey Perm.perm x) = Perm.perm 0 (zero_rate t).
Proof. exact (rekey_shape Perm.perm). Qed.
Print Assumptions C15_forward_shape.

Theorem C15_forward : forall s sys n d,
  (exists x, r_xof (fst (fst (prng_init Perm.perm sys))) = rekey Perm.perm x) /\
  (exists x, r_xof (fst (fst (prng_fetch Perm.perm s n sys))) = rekey Perm.perm x) /\
  (exists x, r_xof (prng_feed Perm.perm s d) = rekey Perm.perm x) /\
  (exists x, r_xof (fst (fst (prng_reseed Perm.perm s sys))) = rekey Perm.perm x).
Proof.
  intros s sys n d. split; [apply init_rekeyed|split; [apply fetch_rekeyed|split; [apply feed_rekeyed|apply reseed_rekeyed]]].
Qed.
Print Assumptions C15_forward.

(* BY CONSTRUCTION: this restates the bodies of Prngm.prng_feed / prng_reseed / prng_init (proof: unfolding).  It records
   the shape in which the model was written from ascon-prng.c - the fed / system bytes are absorbed into the sponge (all of
   them: xof_absorb, characterised by C03/C07) and the re-key follows before the operation returns, hence before any later
   output.  It is not an independent fact about the model, and "every such byte influences all later output" is not proved
   (it is a cryptographic property of the permutation).  That the C has this shape is shown by the differential run (full
   state compared after every operation). *)
Theorem C15_mixed_by_construction : forall s d seed ok sys,
  r_xof (prng_feed Perm.perm s d) = rekey Perm.perm (xof_pad Perm.perm vxof (xof_absorb Perm.perm vxof (r_xof s) d)) /\
  prng_reseed Perm.perm s ((seed, ok) :: sys) =
    ({| r_xof := rekey Perm.perm (xof_absorb Perm.perm vxof (r_xof s) seed); r_counter := 0 |}, ok, sys) /\
  prng_init Perm.perm ((seed, ok) :: sys) =
    ({| r_xof := rekey Perm.perm (xof_absorb Perm.perm vxof (xof_init_custom Perm.perm vxof (Some name_prng) [] 0) seed); r_counter := 0 |}, ok, sys).
Proof. intros. repeat split. Qed.
Print Assumptions C15_mixed_by_construction.

(* reseeding: a fetch entered with counter >= 16384 consumes a system answer first; the counter
   equals the number of bytes produced since the last (re)seed until it saturates; counter < 32768 *)
Theorem C15_reseed_step : forall s n a sys,
  (reseed_limit <= r_counter s -> snd (prng_fetch Perm.perm s n (a :: sys)) = sys) /\
  (r_counter s < reseed_limit -> snd (prng_fetch Perm.perm s n (a :: sys)) = a :: sys).
Proof.
  intros s n a sys. split; intros H.
  - exact (proj1 (fetch_reseeds Perm.perm s n a sys H)).
  - exact (proj1 (fetch_no_reseed Perm.perm s n (a :: sys) H)).
Qed.
Print Assumptions C15_reseed_step.

(* Histories: every operation of random.h on one generator object - init (also a second time),
   fetch, feed, reseed, save_seed and load_seed with any storage descriptor (NULL, any region /
   page / erase-block size, address, partial-write flag, any callback results), the one-shot
   ascon_random in between - in any order and number, with any script of system answers.
   hstep applies the operation (papply) and advances the ghost count, which is defined from the
   operations alone (ghost: bytes produced since the generator last drew from the system source
   if it draws whenever 16384 or more have been produced; a save that goes ahead produces 32
   bytes, a load that goes ahead reseeds and produces 32).  Inv c p: the counter field equals
   the ghost count while below 16384, is at least 16384 exactly when the ghost count is, and
   stays below 32768. *)
Theorem C15_reseed_history : forall ops sys,
  let '(s0, _, sys0) := prng_init Perm.perm sys in
  let c_p := fold_left (hstep Perm.perm) ops ((s0, sys0), 0) in
  Inv (r_counter (fst (fst c_p))) (snd c_p).
Proof. exact (init_history_inv Perm.perm). Qed.
Print Assumptions C15_reseed_history.

(* ... hence fresh system entropy before more output once the budget is used up, across save /
   load: in the state reached by any history, with p bytes produced since the last reseed, a
   fetch of any size - and the fetch inside a save_seed that goes ahead - consumes the next
   system answer first iff p >= 16384, and consumes none otherwise; a load_seed that goes ahead
   consumes exactly one *)
Theorem C15_reseed_due : forall ops sys n g a rest,
  let '(s0, _, sys0) := prng_init Perm.perm sys in
  let c_p := fold_left (hstep Perm.perm) ops ((s0, sys0), 0) in
  let s := fst (fst c_p) in
  let p := snd c_p in
  snd (prng_fetch Perm.perm s n (a :: rest)) = (if reseed_limit <=? p then rest else a :: rest) /\
  (usable (Some g) = true ->
   snd (prng_save_seed_g Perm.perm s (Some g) (a :: rest)) = (if reseed_limit <=? p then rest else a :: rest) /\
   snd (prng_load_seed_g Perm.perm s (Some g) (a :: rest)) = rest).
Proof. exact (init_history_due Perm.perm). Qed.
Print Assumptions C15_reseed_due.

(* Forward security over the same histories: the object is in a re-keyed state after every
   operation of every history - in particular right after save_seed has handed 32 output bytes
   to the storage callback, and after load_seed has written the replacement seed (the saved
   bytes cannot be recomputed from the state that is left). *)
Theorem C15_forward_history : forall ops sys,
  let '(s0, _, sys0) := prng_init Perm.perm sys in
  exists x, r_xof (fst (fold_left (papply Perm.perm) ops (s0, sys0))) = rekey Perm.perm x.
Proof. exact (init_history_rekeyed Perm.perm). Qed.
Print Assumptions C15_forward_history.

Theorem C15_forward_storage : forall s g sys,
  (usable g = true ->
   (exists x, r_xof (fst (fst (fst (prng_save_seed_g Perm.perm s g sys)))) = rekey Perm.perm x) /\
   (exists x, r_xof (fst (fst (fst (prng_load_seed_g Perm.perm s g sys)))) = rekey Perm.perm x)) /\
  (usable g = false ->
   prng_save_seed_g Perm.perm s g sys = (s, (-1)%Z, [], sys) /\
   prng_load_seed_g Perm.perm s g sys = (s, (-1)%Z, [], sys)).
Proof.
  exact (fun s g sys => conj (fun U => conj (save_rekeyed Perm.perm s g sys U) (load_rekeyed Perm.perm s g sys U))
                             (fun U => conj (save_g_unusable Perm.perm s g sys U) (load_g_unusable Perm.perm s g sys U))).
Qed.
Print Assumptions C15_forward_storage.

(* status results exactly as ascon/random.h documents them; for save / load with the full
   storage descriptor g: the result depends on the region size and the callback's count only *)
Theorem C15_status : forall s n seed ok sys st g,
  snd (fst (prng_init Perm.perm ((seed, ok) :: sys))) = ok /\
  snd (fst (prng_reseed Perm.perm s ((seed, ok) :: sys))) = ok /\
  snd (fst (random_oneshot Perm.perm n ((seed, ok) :: sys))) = (if ok then 1 else 0)%Z /\
  result4 (prng_save_seed Perm.perm s st sys) =
    match st with None => (-1)%Z | Some st => if st_size st <? 32 then (-1)%Z else if (st_write st =? 32)%Z then 0%Z else (-1)%Z end /\
  result4 (prng_load_seed Perm.perm s st sys) =
    match st with None => (-1)%Z | Some st => if st_size st <? 32 then (-1)%Z else if (fst (st_read st) =? 32)%Z then 0%Z else (-1)%Z end /\
  result4 (prng_save_seed_g Perm.perm s g sys) =
    match g with None => (-1)%Z | Some g => if st_size (nv_cb g) <? 32 then (-1)%Z else if (st_write (nv_cb g) =? 32)%Z then 0%Z else (-1)%Z end /\
  result4 (prng_load_seed_g Perm.perm s g sys) =
    match g with None => (-1)%Z | Some g => if st_size (nv_cb g) <? 32 then (-1)%Z else if (fst (st_read (nv_cb g)) =? 32)%Z then 0%Z else (-1)%Z end.
Proof.
  exact (fun s n seed ok sys st g =>
    conj (status_init Perm.perm seed ok sys) (conj (status_reseed Perm.perm s seed ok sys) (conj (status_oneshot Perm.perm n seed ok sys)
    (conj (status_save Perm.perm s st sys) (conj (status_load Perm.perm s st sys)
    (conj (status_save_g Perm.perm s g sys) (status_load_g Perm.perm s g sys))))))).
Qed.
Print Assumptions C15_status.

(* the storage callbacks: which are called, in which order, with which arguments.  save_seed:
   one write, offset 0, 32 bytes = the output of a 32-byte fetch, erase requested iff
   erase_size <> 0.  load_seed: one read of 32 bytes at offset 0, then one such write of the
   bytes fetched after (feed if 32 were read, and) reseed - whatever the read returned.
   No call when the descriptor is NULL or smaller than 32 bytes.  Page size, address and the
   partial-write flag influence nothing. *)
Theorem C15_storage_calls : forall s g sys,
  calls4 (prng_save_seed_g Perm.perm s g sys) =
    match g with
    | None => []
    | Some g => if st_size (nv_cb g) <? 32 then []
                else [CbWrite 0 32 (snd (fst (prng_fetch Perm.perm s 32 sys))) (negb (nv_erase g =? 0))]
    end /\
  calls4 (prng_load_seed_g Perm.perm s g sys) =
    match g with
    | None => []
    | Some g => if st_size (nv_cb g) <? 32 then []
                else [CbRead 0 32;
                      CbWrite 0 32 (snd (fst (prng_fetch Perm.perm (fst (load_mid Perm.perm s g sys)) 32 (snd (load_mid Perm.perm s g sys)))))
                              (negb (nv_erase g =? 0))]
    end.
Proof. exact (fun s g sys => conj (calls_save_g Perm.perm s g sys) (calls_load_g Perm.perm s g sys)). Qed.
Print Assumptions C15_storage_calls.

(* in every history every callback call is at offset 0 with byte count 32, a write carries
   exactly 32 bytes and the erase request (erase_size <> 0): inside every region that passes
   the size check, page aligned for every page size *)
Theorem C15_storage_calls_in_history : forall ops sys g sys',
  let '(s0, _, sys0) := prng_init Perm.perm sys in
  let s := fst (fold_left (papply Perm.perm) ops (s0, sys0)) in
  Forall (call_ok g) (calls4 (prng_save_seed_g Perm.perm s (Some g) sys')) /\
  Forall (call_ok g) (calls4 (prng_load_seed_g Perm.perm s (Some g) sys')).
Proof. exact (init_history_calls_ok Perm.perm perm_len). Qed.
Print Assumptions C15_storage_calls_in_history.

(* forgetting geometry and arguments gives the save / load of Model/Prngm.v that C11's
   leakage model (Model/Leak.v) is written over: state, status, written bytes, script agree *)
Theorem C15_storage_refines : forall s g sys,
  prng_save_seed Perm.perm s (forget g) sys =
    (let '(s1, r, cs, sys1) := prng_save_seed_g Perm.perm s g sys in (s1, r, written cs, sys1)) /\
  prng_load_seed Perm.perm s (forget g) sys =
    (let '(s1, r, cs, sys1) := prng_load_seed_g Perm.perm s g sys in (s1, r, written cs, sys1)).
Proof. exact (fun s g sys => conj (save_g_refines Perm.perm s g sys) (load_g_refines Perm.perm s g sys)). Qed.
Print Assumptions C15_storage_refines.

Example C15_nonvacuous :
  let sys := [(map N.of_nat (seq 0 32), true); (map N.of_nat (seq 5 32), false)] in
  let '(s0, ok, sys0) := prng_init Perm.perm sys in
  ok = true /\ firstn 8 (zero_rate (x_st (r_xof s0))) = zeros 8 /\
  r_counter (fst (fst (prng_fetch Perm.perm s0 40 sys0))) = 40.
Proof. vm_compute. repeat split. Qed.

(* a history with save and load over a flash-like descriptor (64-byte pages, 4096-byte erase
   blocks, non-zero address, no partial writes): calls and arguments, statuses, counter *)
Example C15_nonvacuous_storage :
  let sys := [(map N.of_nat (seq 0 32), true); (map N.of_nat (seq 5 32), true)] in
  let g rr wr := Some {| nv_page := 64; nv_erase := 4096; nv_addr := 256; nv_partial := false;
                         nv_cb := {| st_size := 64; st_read := (rr, map N.of_nat (seq 9 32)); st_write := wr |} |} in
  let '(s0, _, sys0) := prng_init Perm.perm sys in
  let '(s1, r1, c1, sys1) := prng_save_seed_g Perm.perm s0 (g 32%Z 31%Z) sys0 in
  let '(s2, r2, c2, sys2) := prng_load_seed_g Perm.perm s1 (g 32%Z 32%Z) sys1 in
  usable (g 0%Z 0%Z) = true /\ r1 = (-1)%Z /\ r2 = 0%Z /\ r_counter s1 = 32 /\ r_counter s2 = 32 /\ sys1 = sys0 /\ sys2 = [] /\
  match c1, c2 with
  | [CbWrite 0 32 d1 true], [CbRead 0 32; CbWrite 0 32 d2 true] => length d1 = 32 /\ length d2 = 32 /\ d1 <> d2
  | _, _ => False
  end.
Proof. vm_compute. repeat split. intro H. discriminate H. Qed.

(* Forward security of one re-key step as a fact about functions (Proofs/PrngFwdP.v, using that the permutation is a bijection):
   zero-the-rate-then-permute forgets the 8 rate bytes of the state before it - two states that differ only there become equal -
   and forgets nothing else - the 32 capacity bytes are determined by, and computable from, the state after it.  So what protects
   earlier output is exactly that the rate is gone, and no entropy of the capacity is lost by re-keying.  (That the missing rate
   cannot be guessed is cryptographic and not a theorem here.) *)
From AsconV Require Import Proofs.AeadP Proofs.PermInvP Proofs.PrngFwdP.
Theorem C15_rekey_erases_rate : forall s s', length s = 40 -> length s' = 40 -> skipn 8 s = skipn 8 s' ->
  rekey_st Perm.perm s = rekey_st Perm.perm s'.
Proof. exact rekey_erases_rate. Qed.
Print Assumptions C15_rekey_erases_rate.
Theorem C15_rekey_step_keeps_capacity : forall s s', length s = 40 -> bytes_ok s -> length s' = 40 -> bytes_ok s' ->
  Perm.perm 0 (zero_rate s) = Perm.perm 0 (zero_rate s') -> skipn 8 s = skipn 8 s'.
Proof. exact rekey_step_keeps_capacity. Qed.
Print Assumptions C15_rekey_step_keeps_capacity.
Theorem C15_rekey_step_capacity_recovered : forall s, length s = 40 -> bytes_ok s ->
  skipn 8 (perm_inv 0 (Perm.perm 0 (zero_rate s))) = skipn 8 s.
Proof. exact rekey_step_capacity_recovered. Qed.
Print Assumptions C15_rekey_step_capacity_recovered.

(* The TRNG mixer behind the masking randomness (Model/Mixerm.v, tied to ascon-trng-mixer.c by exact-word comparison in three state
   layouts): every byte of the 32-byte system answer is in the generator's first state (init is injective in the seed); a 64-bit
   draw always reads a fresh block (it refills unless nothing was handed out since the last permutation) and a 32-bit draw reads the
   next unread half or refills; a reseed forgets the previous rate. *)
From AsconV Require Import Model.Mixerm Proofs.MixerP.
Theorem C15_mixer_init_injective : forall s1 s2, length s1 = 32 -> bytes_ok s1 -> length s2 = 32 -> bytes_ok s2 ->
  mix_init Perm.perm s1 = mix_init Perm.perm s2 -> s1 = s2.
Proof. exact mix_init_injective. Qed.
Print Assumptions C15_mixer_init_injective.
Theorem C15_mixer_draws_fresh : forall k s, m_posn s <= 8 ->
  (m_posn (fst (mix_gen64 Perm.perm k s)) = 8 /\ (m_posn s = 0 -> m_st (fst (mix_gen64 Perm.perm k s)) = m_st s) /\
   (0 < m_posn s -> m_st (fst (mix_gen64 Perm.perm k s)) = Perm.perm 6 (m_st s))) /\
  ((m_posn s <= 4 -> m_st (fst (mix_gen32 Perm.perm k s)) = m_st s /\ m_posn (fst (mix_gen32 Perm.perm k s)) = m_posn s + 4) /\
   (4 < m_posn s -> m_st (fst (mix_gen32 Perm.perm k s)) = Perm.perm 6 (m_st s) /\ m_posn (fst (mix_gen32 Perm.perm k s)) = 4)).
Proof. intros k s H. exact (conj (mix_gen64_fresh Perm.perm k s H) (mix_gen32_fresh Perm.perm k s H)). Qed.
Print Assumptions C15_mixer_draws_fresh.
Theorem C15_mixer_reseed_erases_rate : forall s s' seed, length (m_st s) = 40 -> length (m_st s') = 40 ->
  skipn 8 (m_st s) = skipn 8 (m_st s') -> mix_reseed Perm.perm s seed = mix_reseed Perm.perm s' seed.
Proof. exact (mix_reseed_erases_rate Perm.perm). Qed.
Print Assumptions C15_mixer_reseed_erases_rate.
