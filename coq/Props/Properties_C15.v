(* C15 - the PRNG is deterministic in its entropy, forward secure, reseeds and reports status. *)
From AsconV Require Import Model.Prngm Proofs.PrngP Proofs.PermP.
From Coq Require Import ZArith.
Local Open Scope nat_scope.

(* Determinism: the model is a total function of (operation, state, system answers,
   fed bytes, storage answers) - there is no other input. *)

(* Forward security (structural): after init, fetch, feed and reseed the sponge state is
   rekey x for some x, and every re-keyed state is perm 0 (zero_rate t): it has just been
   through zero-the-rate-then-permute (4 times), is block aligned and in absorb mode *)
Theorem C15_forward_shape : forall x,
  x_st (rekey Perm.perm x) = rekey_st Perm.perm (x_st (xof_pad Perm.perm vxof x)) /\
  x_count (rekey Perm.perm x) = 0 /\ x_mode (rekey Perm.perm x) = false /\
  exists t, x_st (rekey Perm.perm x) = Perm.perm 0 (zero_rate t).
Proof. exact (rekey_shape Perm.perm). Qed.
Print Assumptions C15_forward_shape.

Theorem C15_forward : forall s sys n d,
  (exists x, r_xof (fst (fst (prng_init Perm.perm sys))) = rekey Perm.perm x) /\
  (exists x, r_xof (fst (fst (prng_fetch Perm.perm s n sys))) = rekey Perm.perm x) /\
  (exists x, r_xof (prng_feed Perm.perm s d) = rekey Perm.perm x) /\
  (exists x, r_xof (fst (fst (prng_reseed Perm.perm s sys))) = rekey Perm.perm x).
Proof.
  intros s sys n d. split; [apply init_rekeyed|split; [apply fetch_rekeyed|split; [apply feed_rekeyed|apply reseed_rekeyed]]].
Qed.
Print Assumptions C15_forward.

(* BY CONSTRUCTION: this restates the bodies of Prngm.prng_feed / prng_reseed / prng_init (proof: unfolding).  It records
   the shape in which the model was written from ascon-prng.c - the fed / system bytes are absorbed into the sponge (all of
   them: xof_absorb, characterised by C03/C07) and the re-key follows before the operation returns, hence before any later
   output.  It is not an independent fact about the model, and "every such byte influences all later output" is not proved
   (it is a cryptographic property of the permutation).  That the C has this shape is shown by the differential run (full
   state compared after every operation). *)
Theorem C15_mixed_by_construction : forall s d seed ok sys,
  r_xof (prng_feed Perm.perm s d) = rekey Perm.perm (xof_pad Perm.perm vxof (xof_absorb Perm.perm vxof (r_xof s) d)) /\
  prng_reseed Perm.perm s ((seed, ok) :: sys) =
    ({| r_xof := rekey Perm.perm (xof_absorb Perm.perm vxof (r_xof s) seed); r_counter := 0 |}, ok, sys) /\
  prng_init Perm.perm ((seed, ok) :: sys) =
    ({| r_xof := rekey Perm.perm (xof_absorb Perm.perm vxof (xof_init_custom Perm.perm vxof (Some name_prng) [] 0) seed); r_counter := 0 |}, ok, sys).
Proof. intros. repeat split. Qed.
Print Assumptions C15_mixed_by_construction.

(* reseeding: a fetch entered with counter >= 16384 consumes a system answer first; the counter
   equals the number of bytes produced since the last (re)seed until it saturates; counter < 32768 *)
Theorem C15_reseed_step : forall s n a sys,
  (reseed_limit <= r_counter s -> snd (prng_fetch Perm.perm s n (a :: sys)) = sys) /\
  (r_counter s < reseed_limit -> snd (prng_fetch Perm.perm s n (a :: sys)) = a :: sys).
Proof.
  intros s n a sys. split; intros H.
  - exact (proj1 (fetch_reseeds Perm.perm s n a sys H)).
  - exact (proj1 (fetch_no_reseed Perm.perm s n (a :: sys) H)).
Qed.
Print Assumptions C15_reseed_step.

Theorem C15_reseed_history : forall ops sys,
  let '(s0, _, sys0) := prng_init Perm.perm sys in
  let c_p := fold_left (fun '(st, p) o => (papply Perm.perm st o, ghost (r_counter (fst st)) p o)) ops ((s0, sys0), 0) in
  Inv (r_counter (fst (fst c_p))) (snd c_p).
Proof.
  intros ops sys. pose proof (init_inv Perm.perm sys) as I.
  destruct (prng_init Perm.perm sys) as [[s0 ok] sys0]. cbn [fst] in I.
  exact (history_inv Perm.perm ops s0 sys0 0 I).
Qed.
Print Assumptions C15_reseed_history.

(* status results exactly as ascon/random.h documents them *)
Theorem C15_status : forall s n seed ok sys st,
  snd (fst (prng_init Perm.perm ((seed, ok) :: sys))) = ok /\
  snd (fst (prng_reseed Perm.perm s ((seed, ok) :: sys))) = ok /\
  snd (fst (random_oneshot Perm.perm n ((seed, ok) :: sys))) = (if ok then 1 else 0)%Z /\
  result4 (prng_save_seed Perm.perm s st sys) =
    match st with None => (-1)%Z | Some st => if st_size st <? 32 then (-1)%Z else if (st_write st =? 32)%Z then 0%Z else (-1)%Z end /\
  result4 (prng_load_seed Perm.perm s st sys) =
    match st with None => (-1)%Z | Some st => if st_size st <? 32 then (-1)%Z else if (fst (st_read st) =? 32)%Z then 0%Z else (-1)%Z end.
Proof.
  intros. split; [reflexivity|split; [reflexivity|split; [reflexivity|split; [apply status_save|apply status_load]]]].
Qed.
Print Assumptions C15_status.

Example C15_nonvacuous :
  let sys := [(map N.of_nat (seq 0 32), true); (map N.of_nat (seq 5 32), false)] in
  let '(s0, ok, sys0) := prng_init Perm.perm sys in
  ok = true /\ firstn 8 (zero_rate (x_st (r_xof s0))) = zeros 8 /\
  r_counter (fst (fst (prng_fetch Perm.perm s0 40 sys0))) = 40.
Proof. vm_compute. repeat split. Qed.
