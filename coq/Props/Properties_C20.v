(* C20 - hex codec; the ASCON_NO_STL byte_array.
   Only statements, closed by [exact]; proofs are in Proofs/HexP.v and
   Proofs/ByteArrayP.v.  THIS VERSION DESCRIBES /repo AFTER
   fixes/C20-subscript-detach.patch BUT WITHOUT
   fixes/C20-bytearray-unshare-leaked.patch: Model/C20Config.v has
   fix_ba_index = true, fix_ba_leak = false (the three older flags true).
   Element references held across operator[] / pop_back are proved for the
   selected model; a data() pointer held across a copy of the array is
   REFUTED for it (..._refuted) and proved for the model of the code after
   the second patch (..._fixed).  When /repo has both patches:
   fix_ba_leak := true and Props/Properties_C20.v.fixed. *)
From AsconV Require Import Spec.Hex Model.Hexm Model.ByteArraym Proofs.HexP Proofs.ByteArrayP.
From AsconV Require Sym.MiniC Gen.HexAst Obl.HexOblDefs Obl.HexObl.
From Coq Require Import ZArith.
Local Open Scope nat_scope.

(* ======================= hex codec (ascon-hex.c) ========================= *)

(* Encoding then decoding gives back the bytes, for either case of letters:
   at the level of the specification ... *)
Theorem C20_roundtrip_spec : forall upper b, all_bytes b = true -> decode (encode upper b) = Some b.
Proof. exact decode_encode. Qed.
Print Assumptions C20_roundtrip_spec.

(* ... and for the two C functions composed: ascon_bytes_to_hex into a buffer of
   coutlen >= 2n+1 characters returns 2n, writes a NUL after the digits, and
   ascon_bytes_from_hex on those 2n characters with room for boutlen >= n bytes
   returns n and stores exactly the original bytes (nothing else changes). *)
Theorem C20_roundtrip : forall cmem coutlen bmem boutlen upper b,
  all_bytes b = true -> 2 * length b + 1 <= coutlen -> coutlen <= length cmem ->
  length b <= boutlen -> boutlen <= length bmem ->
  let '(r, cmem') := to_hex cmem coutlen b upper in
  r = Z.of_nat (2 * length b) /\
  nth (2 * length b) cmem' 1%N = 0%N /\
  from_hex bmem boutlen (firstn (Z.to_nat r) cmem') = (Z.of_nat (length b), b ++ skipn (length b) bmem).
Proof. exact roundtrip_c. Qed.
Print Assumptions C20_roundtrip.

(* The encoder: exact size test, value, terminator; -1 and out[0] = 0 otherwise; nothing at or beyond outlen is written. *)
Theorem C20_encoder : forall mem outlen b upper,
  (all_bytes b = true -> 2 * length b + 1 <= outlen ->
     to_hex mem outlen b upper = (Z.of_nat (2 * length b), write_list mem 0 (encode upper b ++ [0%N]))) /\
  (outlen < 2 * length b + 1 ->
     to_hex mem outlen b upper = ((-1)%Z, if 0 <? outlen then upd mem 0 0%N else mem)) /\
  (forall i x, outlen <= i -> nth i (snd (to_hex mem outlen b upper)) x = nth i mem x) /\
  length (snd (to_hex mem outlen b upper)) = length mem.
Proof.
  intros mem outlen b upper. split; [exact (to_hex_ok mem outlen b upper)|]. split; [exact (to_hex_short mem outlen b upper)|].
  split; [exact (to_hex_bound mem outlen b upper)|exact (to_hex_length mem outlen b upper)].
Qed.
Print Assumptions C20_encoder.

(* The decoder returns n >= 0 exactly when the input consists of hexadecimal
   digits and the six white-space characters only, has 2n digits, and n <= outlen *)
Theorem C20_accepts : forall mem outlen s n,
  fst (from_hex mem outlen s) = Z.of_nat n <->
  (Forall (fun c => is_hexdigit c = true \/ is_ws c = true) s /\ length (digits s) = 2 * n /\ n <= outlen).
Proof. exact from_hex_accepts. Qed.
Print Assumptions C20_accepts.

(* ... and -1 in every other case (any other character, an odd digit count, insufficient space); there is no third outcome *)
Theorem C20_rejects : forall mem outlen s,
  (fst (from_hex mem outlen s) = (-1)%Z <-> ~ exists n, accepted s outlen n) /\
  (fst (from_hex mem outlen s) = (-1)%Z \/ exists n, fst (from_hex mem outlen s) = Z.of_nat n).
Proof. intros mem outlen s. split; [exact (from_hex_rejects mem outlen s)|exact (from_hex_total mem outlen s)]. Qed.
Print Assumptions C20_rejects.

(* on acceptance the n bytes stored are the digit pairs, most significant nibble first, and the rest of memory is untouched *)
Theorem C20_decodes : forall mem outlen s n, accepted s outlen n -> outlen <= length mem ->
  from_hex mem outlen s = (Z.of_nat n, pairs (digits s) ++ skipn n mem).
Proof. exact from_hex_decodes. Qed.
Print Assumptions C20_decodes.

(* whatever the outcome, only out[0 .. min(pairs of digits, outlen)) can change: never beyond the space given *)
Theorem C20_bound : forall mem outlen s,
  (forall i x, Nat.min (length (digits s) / 2) outlen <= i -> nth i (snd (from_hex mem outlen s)) x = nth i mem x) /\
  length (snd (from_hex mem outlen s)) = length mem.
Proof. intros mem outlen s. split; [exact (from_hex_bound mem outlen s)|exact (from_hex_length mem outlen s)]. Qed.
Print Assumptions C20_bound.

(* ================== (T) the C source itself =============================== *)
(* Gen/HexAst.v is the clang AST of the two C functions in /repo's working tree,
   regenerated on every run; Obl/HexOblDefs.v says how it is executed and compared.
   One iteration of each while loop agrees with the model's step function on the
   complete control domain of the iteration (decoder: 256 characters x {no pending
   nibble, 16 pending nibbles} x {space left, no space left} at posn 0 and 2;
   encoder: 256 bytes x upper_case in {0, 1, -5} at posn 0 and 3), and is never stuck
   (no access outside the arrays). *)
Theorem C20_translated_loop_bodies :
  (forall c, In c HexOblDefs.dec_domain -> HexOblDefs.dec_body_c c = HexOblDefs.dec_body_m c /\ HexOblDefs.dec_body_c c <> HexOblDefs.Bad) /\
  (forall c, In c HexOblDefs.enc_domain -> HexOblDefs.enc_body_c c = HexOblDefs.enc_body_m c /\ HexOblDefs.enc_body_c c <> HexOblDefs.Bad) /\
  length HexOblDefs.dec_domain = 17408 /\ length HexOblDefs.enc_domain = 1536.
Proof.
  split; [exact HexObl.dec_body_agrees|]. split; [exact HexObl.enc_body_agrees|].
  split; [exact (proj1 HexObl.domain_sizes)|exact (proj1 (proj2 HexObl.domain_sizes))].
Qed.
Print Assumptions C20_translated_loop_bodies.

(* the whole translated functions (prologue, loop, epilogue) equal the models on 105 + 105 fixed
   inputs (short buffers and guard cells included); partial by nature: samples, not all inputs *)
Theorem C20_translated_functions_partial :
  (forall c, In c HexOblDefs.dec_samples ->
     HexOblDefs.run_from_hex (fst c) (snd c) = HexOblDefs.model_from_hex (fst c) (snd c) /\ HexOblDefs.run_from_hex (fst c) (snd c) <> HexOblDefs.Bad) /\
  (forall c, In c HexOblDefs.enc_samples ->
     HexOblDefs.run_to_hex (fst (fst c)) (snd (fst c)) (snd c) = HexOblDefs.model_to_hex (fst (fst c)) (snd (fst c)) (snd c) /\
     HexOblDefs.run_to_hex (fst (fst c)) (snd (fst c)) (snd c) <> HexOblDefs.Bad).
Proof. split; [exact HexObl.dec_fn_agrees|exact HexObl.enc_fn_agrees]. Qed.
Print Assumptions C20_translated_functions_partial.

(* ================== C++ helpers (utility.h) ============================== *)
Theorem C20_cpp_to_hex : forall b upper, all_bytes b = true -> cpp_to_hex b upper = encode upper b.
Proof. exact cpp_to_hex_spec. Qed.
Print Assumptions C20_cpp_to_hex.

(* ascon::bytes_from_hex returns exactly the decoded bytes, or the empty array on error, all three overloads *)
Theorem C20_cpp_helper : forall s,
  cpp_from_hex s = decoded s /\
  cpp_from_hex_string_gen fix_hex_helper s = decoded s /\
  cpp_from_hex_z_gen fix_hex_helper (Some s) = decoded (cstr s) /\
  cpp_from_hex_z_gen fix_hex_helper None = [].
Proof.
  intros s. split; [exact (cpp_from_hex_fixed_spec s)|]. split; [exact (cpp_from_hex_fixed_spec s)|].
  split; [exact (cpp_from_hex_fixed_spec (cstr s))|exact (cpp_from_hex_fixed_spec [])].
Qed.
Print Assumptions C20_cpp_helper.

(* ================== ASCON_NO_STL byte_array ============================== *)
(* what does hold of the code /repo has now: every operation that is safe in the selected
   configuration (op_safe cfg_selected: everything but ODataHeldCopy, ODataHeldAssign and OCDataHeld, the operations that hold a data() pointer while the array is copied or written) has the
   std::vector effect on every variable, returns the std::vector result and keeps the invariant *)
Theorem C20_ba_refines_partial : forall st o, Inv st -> op_pre (abs st) o = true -> op_safe cfg_selected o = true ->
  abs (fst (ba_step st o)) = fst (vec_step (abs st) o) /\
  res_agree (snd (ba_step st o)) (snd (vec_step (abs st) o)) /\
  Inv (fst (ba_step st o)).
Proof. exact (step_refines cfg_selected). Qed.
Print Assumptions C20_ba_refines_partial.

Theorem C20_ba_refines_partial_run : forall n ops,
  ops_pre (repeat None n) ops = true -> forallb (op_safe cfg_selected) ops = true ->
  abs (fst (run cfg_selected (init n) ops)) = fst (vec_run (repeat None n) ops) /\
  Forall2 res_agree (snd (run cfg_selected (init n) ops)) (snd (vec_run (repeat None n) ops)) /\
  Inv (fst (run cfg_selected (init n) ops)).
Proof. exact (run_refines_safe cfg_selected). Qed.
Print Assumptions C20_ba_refines_partial_run.

(* element references held across operator[] / pop_back: exactly the std::vector result, never a dangling reference *)
Theorem C20_ba_held_exact : forall st o, Inv st -> op_pre (abs st) o = true -> op_held o = true -> op_safe cfg_selected o = true ->
  snd (ba_step st o) = snd (vec_step (abs st) o) /\ snd (ba_step st o) <> RUAF.
Proof. intros st o HI Hp Hh Hs. exact (held_exact cfg_selected st o HI Hp Hs Hh). Qed.
Print Assumptions C20_ba_held_exact.

(* REFUTED for the selected model: a(2,7); unsigned char *q = a.data(); byte_array b(a) [or: b = a]; q[0] = 9;
   the copy shares the block q points into, so b becomes 9,7 where a std::vector copy stays 7,7 *)
Theorem C20_ba_held_refuted_alias :
  Forall (fun ops => ops_pre (abs (init 2)) ops = true /\
                     vvar (abs (fst (run cfg_selected (init 2) ops))) 1 = Some [9; 7]%N /\
                     vvar (fst (vec_run (abs (init 2)) ops)) 1 = Some [7; 7]%N)
         [witness_data_copy; witness_data_assign].
Proof. exact (leak_pinned_refuted cfg_selected eq_refl). Qed.
Print Assumptions C20_ba_held_refuted_alias.

(* REFUTED for the selected model: a(2,7); byte_array b(a); const unsigned char *q = ca.data(); a[0] = 9; return q[0];
   the const data() of a shared block is not detached, the write detaches a, and q keeps showing b: 7 where std::vector gives 9 *)
Theorem C20_ba_held_refuted_const :
  ops_pre (abs (init 2)) witness_cdata = true /\
  last_result (snd (run cfg_selected (init 2) witness_cdata)) = RByte 7 /\
  last_result (snd (vec_run (abs (init 2)) witness_cdata)) = RByte 9.
Proof. exact (leak_pinned_refuted_const cfg_selected eq_refl). Qed.
Print Assumptions C20_ba_held_refuted_const.

(* For the code after fixes/C20-subscript-detach.patch and
   fixes/C20-bytearray-unshare-leaked.patch: every operation std::vector
   defines - the held-reference operations included - executed in any state
   satisfying the invariant, over any number of variables sharing blocks in any
   way, has the std::vector effect on every variable's value, returns the
   std::vector result, and keeps the invariant. *)
Theorem C20_ba_refines_fixed : forall st o, Inv st -> op_pre (abs st) o = true ->
  abs (fst (step cfg_fixed st o)) = fst (vec_step (abs st) o) /\
  res_agree (snd (step cfg_fixed st o)) (snd (vec_step (abs st) o)) /\
  Inv (fst (step cfg_fixed st o)).
Proof. exact step_refines_fixed. Qed.
Print Assumptions C20_ba_refines_fixed.

(* lifted to every sequence of operations from n fresh (unconstructed) variables, by induction on the sequence *)
Theorem C20_ba_refines_fixed_run : forall n ops, ops_pre (repeat None n) ops = true ->
  abs (fst (run cfg_fixed (init n) ops)) = fst (vec_run (repeat None n) ops) /\
  Forall2 res_agree (snd (run cfg_fixed (init n) ops)) (snd (vec_run (repeat None n) ops)) /\
  Inv (fst (run cfg_fixed (init n) ops)).
Proof. exact run_refines_fixed. Qed.
Print Assumptions C20_ba_refines_fixed_run.

(* ... and a held reference or pointer is never used after its block was deleted: the result of a
   held-reference operation is exactly the std::vector one, which is never RUAF *)
Theorem C20_ba_held_exact_fixed : forall st o, Inv st -> op_pre (abs st) o = true -> op_held o = true ->
  snd (step cfg_fixed st o) = snd (vec_step (abs st) o) /\ snd (step cfg_fixed st o) <> RUAF.
Proof. intros st o HI Hp Hh. exact (held_exact cfg_fixed st o HI Hp (safe_fixed o) Hh). Qed.
Print Assumptions C20_ba_held_exact_fixed.

(* capacity() is unspecified by the standard beyond these two facts, which hold in every configuration *)
Theorem C20_ba_capacity : forall st v, Inv st ->
  m_size (heap_of st) (ptr_of (var st v)) <= m_capacity (heap_of st) (ptr_of (var st v)).
Proof. exact capacity_ge_size. Qed.
Print Assumptions C20_ba_capacity.

(* non-vacuity: the invariant holds initially; a sequence with three variables sharing one block, then
   written through, resized, compared, destroyed, with references and data() pointers held across
   other operations, satisfies the precondition and the fixed model computes the std::vector values and
   results; the decoder accepts " 0a\tFf " *)
Example C20_nonvacuous :
  Inv (init 5) /\
  let ops := [OCtorSize 0 17 9%N; OCtorCopy 1 0; OCtor 2; OAssign 2 1; OSet 1 16 1%N; OResize 2 3; OPush 0 5%N;
              OCmp CLt 2 0; OFromHex 3 [32; 48; 97; 9; 70; 102; 32]%N; OAssign 0 0; ODtor 1; OPop 0;
              OSet2 0 0 1%N 16 2%N; OSwap 2 0 2; OGetHeld 0 16 0; OGetHeldC 2 1 2; OHeldPop 0 15;
              ODataHeldCopy 0 4 3 77%N; ODataHeldAssign 4 2 0 66%N; ODataHeldAssign 2 2 1 55%N; OCDataHeld 4 3 3 44%N; OData 3] in
  ops_pre (repeat None 5) ops = true /\
  fst (vec_run (repeat None 5) ops) = abs (fst (run cfg_fixed (init 5) ops)) /\
  snd (vec_run (repeat None 5) ops) = snd (run cfg_fixed (init 5) ops) /\
  nth 3 (abs (fst (run cfg_fixed (init 5) ops))) None = Some [10; 255]%N /\
  nth 14 (snd (run cfg_fixed (init 5) ops)) RPre = RByte 2 /\
  from_hex (repeat 238%N 3) 2 [32; 48; 97; 9; 70; 102; 32]%N = (2%Z, [10; 255; 238]%N).
Proof. split; [exact (inv_init 5)|]. vm_compute. repeat split; reflexivity. Qed.
