(* C10, 32-bit masked backend - masked permutation kernels ascon_x{2,3,4}_permute of
   src/masking/ascon-x{2,3,4}-c32.c, re-translated from /repo on every run (tools/kern_masked_c32.py: clang -O1
   LLVM IR with -DASCON_FORCE_C32, executed symbolically for every first_round 0..12 with all share halves and all
   preserved random words symbolic; Gen/Masked_mx{2,3,4}_c32*.v).

   A masked word of this backend is uint32_t W[2 * MAX_SHARES]: W[2j] holds the even bits and W[2j+1] the odd
   bits of share j, each half rotated right by 5j bits.  The value program of the memory interface
   (vi_val, printed in Gen/Masked_mx*_c32_if.v) rebuilds each 64-bit word of the unmasked state as
        WInterleave (XOR_j rotl_{5j} W[2j]) (XOR_j rotl_{5j} W[2j+1]),
   the preserved randomness (n-1 words of 64 bits = pairs of 32-bit halves) is part of the interface and is
   universally quantified like the shares.  The rounds are the 64-bit ASCON rounds (layout KL64) on the joined value:
   the statement is literally the one of the 64-bit kernels in Properties_C10.v. *)
From Coq Require Import List Arith Bool NArith Lia. Import ListNotations.
From AsconV Require Import Sym.Wexpr Sym.Pipe Sym.Kernel Sym.KernelP Sym.VKernel Obl.MWordSpec Obl.KernMaskedDefs Obl.KernMaskedParts
  Gen.Masked_mx2_c32 Gen.Masked_mx3_c32 Gen.Masked_mx4_c32 Gen.MaskedObl_mx2_c32 Gen.MaskedObl_mx3_c32 Gen.MaskedObl_mx4_c32.

(* Obl/KernMaskedDefs.masked_perm_std B32 n 4 (see Properties_C10.v): entry / exit interface = the 5 x 32 state bytes and
   the 8 (n-1) preserved bytes; for every first_round k <= 12, whatever the share halves (including the surplus shares of the
   4-share container) and the preserved random words are, state_val B32 n 4 of the memory after the translated
   ascon_xN_permute is rounds k..11 of state_val B32 n 4 of the memory before.  Obl/MWordSpec.state_val B32 is hand-written:
   per state word, WInterleave (XOR_j rotl_{5j} W[2j]) (XOR_j rotl_{5j} W[2j+1]); MWordSpec.kval32_is_mval32 proves it equal
   to the XOR of the logical shares (mval32) for all bytes. *)
Theorem C10_perm_x2_c32 : masked_perm_std B32 2 4 mx2_c32_ifaces mx2_c32_entry mx2_c32_exit mx2_c32_segs mx2_c32_chains.
Proof. exact (vbackend_sound_std _ _ _ _ _ _ _ _ mx2_c32_ok mx2_c32_std_ok). Qed.
Print Assumptions C10_perm_x2_c32.
Theorem C10_perm_x3_c32 : masked_perm_std B32 3 4 mx3_c32_ifaces mx3_c32_entry mx3_c32_exit mx3_c32_segs mx3_c32_chains.
Proof. exact (vbackend_sound_std _ _ _ _ _ _ _ _ mx3_c32_ok mx3_c32_std_ok). Qed.
Print Assumptions C10_perm_x3_c32.
Theorem C10_perm_x4_c32 : masked_perm_std B32 4 4 mx4_c32_ifaces mx4_c32_entry mx4_c32_exit mx4_c32_segs mx4_c32_chains.
Proof. exact (vbackend_sound_std _ _ _ _ _ _ _ _ mx4_c32_ok mx4_c32_std_ok). Qed.
Print Assumptions C10_perm_x4_c32.

(* non-vacuity: the interfaces are the 5 x 32 state bytes plus the 8 (n-1) preserved bytes, every first_round has a
   chain, and the entry value program of the 2-share kernel on a concrete memory image gives the expected word:
   W[0] = 1 (even half, share 0), W[3] = 2^27 (odd half of share 1, stored rotated right by 5: logical bit 0)
   joins to the 64-bit value 3 *)
Example C10_c32_nonvacuous :
  List.length (vi_w (vif mx2_c32_ifaces mx2_c32_entry)) = 168 /\ List.length (vi_w (vif mx3_c32_ifaces mx3_c32_entry)) = 176 /\
  List.length (vi_w (vif mx4_c32_ifaces mx4_c32_entry)) = 184 /\
  map fst mx2_c32_chains = seq 0 13 /\ map fst mx3_c32_chains = seq 0 13 /\ map fst mx4_c32_chains = seq 0 13 /\
  nth 0 (run BoolAlg (map (const_bits BoolAlg 8) ([1; 0; 0; 0; 0; 0; 0; 0; 0; 0; 0; 0; 0; 0; 0; 8] ++ repeat 0 152)%N)
                     (vi_val (vif mx2_c32_ifaces mx2_c32_entry))) [] = const_bits BoolAlg 64 3.
Proof. vm_compute. repeat split. Qed.
