(* C07 - incremental APIs are invariant under chunking, aliasing, copying and re-init. *)
From AsconV Require Import Model.Macm Model.Noncem Proofs.SpongeP Proofs.AeadP Proofs.XofP Proofs.MacP Proofs.HkdfP
  Proofs.NonceP Proofs.InplaceP Proofs.IncDecP Proofs.CopyReinitP Proofs.PermP Props.Properties_C01.
Local Open Scope nat_scope.

(* hash / XOF / XOFA / PRF (and KMAC, KDF, which use the XOF calls): absorbing a then b is
   absorbing a ++ b; squeezing m then n bytes is squeezing m + n; either part may be empty *)
Theorem C07_absorb : forall v s a b, xvariant_ok v -> x_mode s = false -> xwf v s ->
  xof_absorb Perm.perm v (xof_absorb Perm.perm v s a) b = xof_absorb Perm.perm v s (a ++ b).
Proof. intros v s a b Hv. exact (xof_absorb_app Perm.perm perm_len v Hv s a b). Qed.
Print Assumptions C07_absorb.

Theorem C07_squeeze : forall v s m n, xvariant_ok v -> xwf v s ->
  let '(s1, o1) := xof_squeeze Perm.perm v s m in
  let '(s2, o2) := xof_squeeze Perm.perm v s1 n in
  xof_squeeze Perm.perm v s (m + n) = (s2, o1 ++ o2).
Proof. intros v s m n Hv. exact (xof_squeeze_add Perm.perm perm_len v Hv s m n). Qed.
Print Assumptions C07_squeeze.

(* whole runs: every partition of input and output = the one-shot value *)
Theorem C07_oneshot_xof : forall v chunks outs, xvariant_ok v ->
  xof_run Perm.perm v (xof_init Perm.perm v) chunks outs =
  xof_run Perm.perm v (xof_init Perm.perm v) [concat chunks] [fold_right Nat.add 0 outs].
Proof.
  intros v chunks outs Hv.
  rewrite !(xof_run_spec Perm.perm perm_len v Hv (iv_state Perm.perm v 0)) by (apply iv_state_len; exact perm_len).
  cbn [concat fold_right]. now rewrite app_nil_r, Nat.add_0_r.
Qed.
Print Assumptions C07_oneshot_xof.

(* incremental AEAD blocks (encrypt and decrypt): processing chunk after chunk from any
   block position = processing the concatenation *)
Theorem C07_aead_blocks : forall v bf chunks st pos acc, variant_ok v -> pos < v_rate v -> length st = 40 ->
  fold_left (fun '(sp, acc) d => let '(sp', o) := duplex_c bf (Perm.perm (v_pb v)) (v_rate v) sp d in (sp', acc ++ o)) chunks ((st, pos), acc) =
  (fst (duplex_c bf (Perm.perm (v_pb v)) (v_rate v) (st, pos) (concat chunks)),
   acc ++ snd (duplex_c bf (Perm.perm (v_pb v)) (v_rate v) (st, pos) (concat chunks))).
Proof. intros v bf chunks st pos acc Hv. exact (duplex_c_chunks Perm.perm perm_len v (variant_wf v Hv) bf chunks st pos acc). Qed.
Print Assumptions C07_aead_blocks.

(* HMAC update and HKDF expand *)
Theorem C07_hmac : forall v key chunks, v = vxof \/ v = vxofa ->
  hmac_run Perm.perm v key chunks = hmac_run Perm.perm v key [concat chunks].
Proof.
  intros v key chunks Hx. rewrite !(hmac_run_spec Perm.perm perm_len v Hx). cbn [concat]. now rewrite app_nil_r.
Qed.
Print Assumptions C07_hmac.

Theorem C07_hkdf : forall v key salt info reqs, v = vxof \/ v = vxofa ->
  expand_all Perm.perm v (hkdf_extract_c Perm.perm v key salt) info reqs =
  serve (Mac.hkdf_okm (Hash.hash Perm.perm v) (Mac.hkdf_extract (Hash.hash Perm.perm v) salt key) info) reqs.
Proof. intros v key salt info reqs Hx. exact (hkdf_stream Perm.perm perm_len v Hx key salt info reqs). Qed.
Print Assumptions C07_hkdf.

(* ---- copies ------------------------------------------------------------------------------------------------
   BY CONSTRUCTION: the model's objects are immutable records and the model of ascon_xof_copy / ascon_xofa_copy /
   ascon_hash_copy / ascon_hasha_copy is the identity on them (Xofm.xof_copy s := s; it is not even extracted - the driver's
   COPY stores the same value in a second slot).  The next statement therefore only restates that definition; that the C
   copy (init + ascon_copy + count/mode) produces an object that behaves like this value is shown by the differential run
   only (X .. COPY sessions with state dumps), not by a theorem. *)
Theorem C07_copy_by_construction : forall s, xof_copy s = s.
Proof. reflexivity. Qed.
Print Assumptions C07_copy_by_construction.

(* What can be said beyond the definition, about objects that live side by side (Proofs/CopyReinitP.v: the driver's slot table
   of hash / XOF / XOFA / PRF objects written in Coq; per-slot operations are the extracted xof_absorb / xof_squeeze / xof_pad;
   XPut = any init or re-init form, XCopy, XFree): after ANY history h on any slots, a copy src -> dst
   (1) continues exactly like the original: any continuation k of absorb / squeeze / pad calls (any sizes, empty ones included)
       returns the same bytes on the copy as it would have on the original and ends in the same object value;
   (2) and the two are independent: whatever is done to the copy (kd), the original afterwards (ks) returns what it would have
       returned had no copy been taken; and with the roles exchanged.
   The slot table itself is hand-written in ocaml/drv_xof.ml, not extracted from this definition. *)
Theorem C07_copy_history : forall h src dst k kd ks, src <> dst ->
  let st := fst (xrun Perm.perm h empty_store) in
  let st1 := fst (xstep Perm.perm st (XCopy src dst)) in
  (snd (xrun Perm.perm (map (XOn dst) k) st1) = snd (xrun Perm.perm (map (XOn src) k) st) /\
   fst (xrun Perm.perm (map (XOn dst) k) st1) dst = fst (xrun Perm.perm (map (XOn src) k) st) src) /\
  snd (xrun Perm.perm (map (XOn src) ks) (fst (xrun Perm.perm (map (XOn dst) kd) st1))) = snd (xrun Perm.perm (map (XOn src) ks) st) /\
  snd (xrun Perm.perm (map (XOn dst) ks) (fst (xrun Perm.perm (map (XOn src) kd) st1))) = snd (xrun Perm.perm (map (XOn src) ks) st).
Proof. exact (copy_history Perm.perm). Qed.
Print Assumptions C07_copy_history.

(* ---- re-initialisation ---------------------------------------------------------------------------------------
   Incremental AEAD objects (the only family whose re-init has a model function of its own: inc_reinit keeps the old state
   bytes as ascon*_aead_reinit does; for xof/hash/prf/hmac/kmac/kdf the driver maps REINIT to the init function, so "re-init =
   init" is D-only there).
   After ANY history (s is whatever an earlier history left in the object: state bytes, posn, key, nonce), for every form of
   the arguments (nonce and key given or NULL), re-initialising and then running ANY session - any packets, encrypt or decrypt,
   genuine or forged tags, any chunking - gives the same final object, the same nonce read-backs and the same outputs as a
   fresh init followed by that session.
   BY CONSTRUCTION of Aeadm.inc_start: every packet begins with inc_start, and the model's start_c builds the 40 state bytes
   from zeros, never reading i_st; the proof is a case analysis and an unfolding.  The modelling decision that makes it so is
   justified by C07_reinit_overwrite below. *)
Theorem C07_reinit_aead_by_construction : forall v s npub k packets, packets <> [] ->
  session_run Perm.perm v (inc_reinit v s npub k) packets = session_run Perm.perm v (inc_init v npub k) packets.
Proof. intros v s npub k packets. exact (session_reinit_init Perm.perm v s npub k packets). Qed.
Print Assumptions C07_reinit_aead_by_construction.

(* the non-definitional part: *_aead_start does not zero the object's state, it overwrites IV at offset 0, the key at offset
   |IV| and the nonce at offset 24 into whatever the previous history left there (and reinit leaves everything there).  For
   every previous content of the 40 state bytes the result is IV || K || N - what start_c computes from zeros: nothing of an
   earlier packet survives the start of the next one. *)
Theorem C07_reinit_overwrite : forall v K N st, variant_ok v -> wf_kn v K N -> length st = 40 ->
  set_at (set_at (set_at st 0 (v_iv v)) (length (v_iv v)) K) 24 N = v_iv v ++ K ++ N /\
  set_at (set_at (set_at (zeros 40) 0 (v_iv v)) (length (v_iv v)) K) 24 N = v_iv v ++ K ++ N.
Proof.
  intros v K N st Hv [HK HN] Hl. destruct (variant_wf v Hv) as [H24 _]. rewrite <- HK in H24.
  split; apply overwrite_any_state; auto; unfold zeros; apply repeat_length.
Qed.
Print Assumptions C07_reinit_overwrite.

(* ---- in place ------------------------------------------------------------------------------------------------
   C07_inplace is a statement about ABSTRACT cell lists (any cell type, any step function): a left-to-right routine that reads
   cell i before it writes cell i computes the same with dst = src as with dst disjoint from src.  It is instantiated by
   C07_inplace_blocks; on its own it says nothing about the library. *)
Theorem C07_inplace : forall (C St : Type) (step : St -> C -> St * C) s buf,
  run_in C St step (length buf) 0 s buf = run_out C St step s buf.
Proof. exact inplace_eq. Qed.
Print Assumptions C07_inplace.

(* The instance for the routine the incremental AEAD block calls are defined by (inc_encrypt_block / inc_decrypt_block =
   duplex_c with bf_enc / bf_dec): running the model's byte-serial duplex step IN PLACE over a buffer - iteration i reads buf[i],
   then overwrites buf[i] - from any block position leaves in the buffer exactly the output of duplex_c on the original
   contents and reaches the same state.  Granularity is the byte; the C works on words/blocks (read the whole cell, then write
   it), which the abstract theorem covers as well.  Aliasing as such (two pointers, one memory) is not expressible in the
   value-passing model: the byte-range primitives with identical buffers are C08_ops_*, the block calls with out == in are
   compared in the differential run (AI .. I lines). *)
Theorem C07_inplace_blocks : forall v bf st pos buf, variant_ok v -> pos < v_rate v -> length st = 40 ->
  run_in N (bytes * nat) (byte_step bf (Perm.perm (v_pb v)) (v_rate v)) (length buf) 0 (st, pos) buf =
  duplex_c bf (Perm.perm (v_pb v)) (v_rate v) (st, pos) buf.
Proof.
  intros v bf st pos buf Hv. destruct (variant_wf v Hv) as [_ [Hr0 [Hr40 _]]].
  exact (inplace_duplex bf (Perm.perm (v_pb v)) (v_rate v) 40 (f_len40 Perm.perm perm_len v) Hr0 Hr40 st pos buf).
Qed.
Print Assumptions C07_inplace_blocks.

Example C07_nonvacuous :
  let m := map N.of_nat (seq 0 30) in
  xof_run Perm.perm vxofa (xof_init Perm.perm vxofa) [firstn 7 m; []; skipn 7 m] [3; 0; 14] =
  xof_run Perm.perm vxofa (xof_init Perm.perm vxofa) [m] [17] /\
  (* a copy taken between two absorbs, in squeeze mode later: copy and original give the same 9 + 5 bytes, and they are not trivial *)
  let h := [XPut 1 vxof (xof_init Perm.perm vxof); XOn 1 (LAbs (firstn 11 m)); XOn 1 (LSqz 3); XCopy 1 2; XOn 2 (LAbs m)] in
  let st := fst (xrun Perm.perm h empty_store) in
  snd (xrun Perm.perm [XCopy 1 3; XOn 3 (LSqz 9); XOn 1 (LPad); XOn 3 (LSqz 5)] st) =
    [[]; snd (lstep Perm.perm (st 1) (LSqz 9)); []; skipn 9 (snd (lstep Perm.perm (st 1) (LSqz 14)))] /\
  length (snd (lstep Perm.perm (st 1) (LSqz 14))) = 14 /\
  (* re-init after a used object: state bytes differ from a fresh object, the session does not *)
  let K := map N.of_nat (seq 0 16) in let N0 := map N.of_nat (seq 16 16) in
  let used := fst (session_run Perm.perm a128 (inc_init a128 (Some N0) (Some K)) [PEnc [1%N] [m]]) in
  i_st used <> zeros 40 /\
  snd (session_run Perm.perm a128 (inc_reinit a128 used None (Some K)) [PEnc [] [firstn 9 m; skipn 9 m]]) =
    [(repeat 0%N 15 ++ [1%N], OEnc (fst (encrypt_c Perm.perm a128 K (zeros 16) [] m)))].
Proof. vm_compute. repeat split. discriminate. Qed.
