(* C07 - incremental APIs are invariant under chunking, aliasing, copying and re-init. *)
From AsconV Require Import Model.Macm Model.Noncem Proofs.SpongeP Proofs.AeadP Proofs.XofP Proofs.MacP Proofs.HkdfP
  Proofs.NonceP Proofs.InplaceP Proofs.PermP Props.Properties_C01.
Local Open Scope nat_scope.

(* hash / XOF / XOFA / PRF (and KMAC, KDF, which use the XOF calls): absorbing a then b is
   absorbing a ++ b; squeezing m then n bytes is squeezing m + n; either part may be empty *)
Theorem C07_absorb : forall v s a b, xvariant_ok v -> x_mode s = false -> xwf v s ->
  xof_absorb Perm.perm v (xof_absorb Perm.perm v s a) b = xof_absorb Perm.perm v s (a ++ b).
Proof. intros v s a b Hv. exact (xof_absorb_app Perm.perm perm_len v Hv s a b). Qed.
Print Assumptions C07_absorb.

Theorem C07_squeeze : forall v s m n, xvariant_ok v -> xwf v s ->
  let '(s1, o1) := xof_squeeze Perm.perm v s m in
  let '(s2, o2) := xof_squeeze Perm.perm v s1 n in
  xof_squeeze Perm.perm v s (m + n) = (s2, o1 ++ o2).
Proof. intros v s m n Hv. exact (xof_squeeze_add Perm.perm perm_len v Hv s m n). Qed.
Print Assumptions C07_squeeze.

(* whole runs: every partition of input and output = the one-shot value *)
Theorem C07_oneshot_xof : forall v chunks outs, xvariant_ok v ->
  xof_run Perm.perm v (xof_init Perm.perm v) chunks outs =
  xof_run Perm.perm v (xof_init Perm.perm v) [concat chunks] [fold_right Nat.add 0 outs].
Proof.
  intros v chunks outs Hv.
  rewrite !(xof_run_spec Perm.perm perm_len v Hv (iv_state Perm.perm v 0)) by (apply iv_state_len; exact perm_len).
  cbn [concat fold_right]. now rewrite app_nil_r, Nat.add_0_r.
Qed.
Print Assumptions C07_oneshot_xof.

(* incremental AEAD blocks (encrypt and decrypt): processing chunk after chunk from any
   block position = processing the concatenation *)
Theorem C07_aead_blocks : forall v bf chunks st pos acc, variant_ok v -> pos < v_rate v -> length st = 40 ->
  fold_left (fun '(sp, acc) d => let '(sp', o) := duplex_c bf (Perm.perm (v_pb v)) (v_rate v) sp d in (sp', acc ++ o)) chunks ((st, pos), acc) =
  (fst (duplex_c bf (Perm.perm (v_pb v)) (v_rate v) (st, pos) (concat chunks)),
   acc ++ snd (duplex_c bf (Perm.perm (v_pb v)) (v_rate v) (st, pos) (concat chunks))).
Proof. intros v bf chunks st pos acc Hv. exact (duplex_c_chunks Perm.perm perm_len v (variant_wf v Hv) bf chunks st pos acc). Qed.
Print Assumptions C07_aead_blocks.

(* HMAC update and HKDF expand *)
Theorem C07_hmac : forall v key chunks, v = vxof \/ v = vxofa ->
  hmac_run Perm.perm v key chunks = hmac_run Perm.perm v key [concat chunks].
Proof.
  intros v key chunks Hx. rewrite !(hmac_run_spec Perm.perm perm_len v Hx). cbn [concat]. now rewrite app_nil_r.
Qed.
Print Assumptions C07_hmac.

Theorem C07_hkdf : forall v key salt info reqs, v = vxof \/ v = vxofa ->
  expand_all Perm.perm v (hkdf_extract_c Perm.perm v key salt) info reqs =
  serve (Mac.hkdf_okm (Hash.hash Perm.perm v) (Mac.hkdf_extract (Hash.hash Perm.perm v) salt key) info) reqs.
Proof. intros v key salt info reqs Hx. exact (hkdf_stream Perm.perm perm_len v Hx key salt info reqs). Qed.
Print Assumptions C07_hkdf.

(* a copied state is the same value: it continues exactly like the original *)
Theorem C07_copy : forall s, xof_copy s = s.
Proof. reflexivity. Qed.
Print Assumptions C07_copy.

(* re-initialising a used object = initialising a fresh one: the re-init functions return
   the init value whatever the previous history left in the object *)
Theorem C07_reinit_aead : forall v s npub k,
  inc_start Perm.perm v (inc_reinit v s (Some npub) (Some k)) = inc_start Perm.perm v (inc_init v (Some npub) (Some k)).
Proof. reflexivity. Qed.
Print Assumptions C07_reinit_aead.

(* in-place = out-of-place for every left-to-right read-then-write block routine *)
Theorem C07_inplace : forall (C St : Type) (step : St -> C -> St * C) s buf,
  run_in C St step (length buf) 0 s buf = run_out C St step s buf.
Proof. exact inplace_eq. Qed.
Print Assumptions C07_inplace.

Example C07_nonvacuous :
  let m := map N.of_nat (seq 0 30) in
  xof_run Perm.perm vxofa (xof_init Perm.perm vxofa) [firstn 7 m; []; skipn 7 m] [3; 0; 14] =
  xof_run Perm.perm vxofa (xof_init Perm.perm vxofa) [m] [17].
Proof. vm_compute. reflexivity. Qed.
