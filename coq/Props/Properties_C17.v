(* C17 - the C++ classes equal the C API for every construction and keying path.
   Only statements, closed by [exact]; the model is Model/Cppm.v (the CODE machine
   of src/cplusplus/*.cpp and the inline wrappers of hash.h / xof.h / utility.h,
   and the DOCUMENTED machine of the Doxygen comments), proofs in Proofs/CppP.v.

   C17_stmt (Model/Cppm.v) for one class: for every constructor call and every
   list of member calls to which the documentation gives a meaning
   (cpp_doc_run = Some ...: default / key constructor with a key or NULL; set_key
   with key_size() bytes, with length 0 - the all-zero key, any pointer - with
   an 80-byte saved key (ISAP), with any other length or a null key - false,
   nothing changes; set_nonce with any length; set_counter; pointer and
   byte_array encrypt / decrypt; randomize_key; clear followed by re-keying),
   the code runs without fault, every call returns exactly what the C function
   returns under the documented key and the documented nonce, and the object
   ends up holding the documented key and nonce.
   The C functions are universally quantified (premise cfun_ok: they depend on
   the key object only through the key, write mlen+16 / clen-16 bytes and
   refuse inputs shorter than the tag - C01/C02/C06/C10 are the statements that
   the real functions satisfy it).

   The "compiles when used" clause is not a Coq statement: tools/gen_cpp_members.py. *)
From AsconV Require Import Model.Cppm Proofs.CppP Proofs.PermP.
From Coq Require Import ZArith.
Local Open Scope nat_scope.

(* aead128, aead128a (klen 16), aead80pq (klen 20) *)
Theorem C17_aead_plain : forall klen c_encrypt c_decrypt, klen = 16 \/ klen = 20 ->
  cfun_ok bytes c_encrypt c_decrypt eq ->
  C17_stmt unit bytes klen c_encrypt c_decrypt (cpp_keying_plain klen klen) false false cpp_raw_key_of_doc eq.
Proof.
  intros klen ce cd Hk CF.
  exact (sim unit bytes klen ce cd _ false false cpp_raw_key_of_doc eq CF
           (keying_plain_ok klen (proj1 (klen_ok klen Hk)) (proj2 (klen_ok klen Hk)))).
Qed.
Print Assumptions C17_aead_plain.

(* aead128_masked, aead128a_masked, aead80pq_masked: the key object is a masked
   key; "same key" = same unmasked value (premise mkey_ok = C10's mask/extract
   statements); r0 = any randomness for the reference key object *)
Theorem C17_aead_masked : forall (R mkey : Type) mk_init mk_zero mk_rand (mk_value : mkey -> bytes) (r0 : R)
    klen c_encrypt c_decrypt, klen = 16 \/ klen = 20 ->
  mkey_ok R mkey mk_init mk_zero mk_rand mk_value klen ->
  cfun_ok mkey c_encrypt c_decrypt (mkeq mkey mk_value) ->
  C17_stmt R mkey klen c_encrypt c_decrypt (cpp_keying_masked R mkey mk_init mk_zero mk_rand klen) false false
           (masked_key_of_doc R mkey mk_init r0) (mkeq mkey mk_value).
Proof.
  intros R mkey mi mz mr mv r0 klen ce cd Hk M CF.
  exact (sim R mkey klen ce cd _ false false _ _ CF
           (keying_masked_ok R mkey mi mz mr mv r0 klen (proj1 (klen_ok klen Hk)) (proj2 (klen_ok klen Hk)) M)).
Qed.
Print Assumptions C17_aead_masked.

(* siv128, siv128a, and siv80pq ONCE ITS KEY CONSTRUCTOR COPIES 20 BYTES *)
Theorem C17_aead_siv : forall c_encrypt c_decrypt, cfun_ok bytes c_encrypt c_decrypt eq ->
  C17_stmt unit bytes 16 c_encrypt c_decrypt (cpp_keying_plain 16 16) false false cpp_raw_key_of_doc eq /\
  C17_stmt unit bytes 20 c_encrypt c_decrypt (cpp_keying_plain 20 (cpp_siv80pq_ncopy CodeFixed)) false false cpp_raw_key_of_doc eq.
Proof.
  intros ce cd CF.
  exact (conj (sim unit bytes 16 ce cd _ false false cpp_raw_key_of_doc eq CF
                 (keying_plain_ok 16 (proj1 (klen_ok 16 (or_introl eq_refl))) (proj2 (klen_ok 16 (or_introl eq_refl)))))
              (sim unit bytes 20 ce cd _ false false cpp_raw_key_of_doc eq CF
                 (keying_plain_ok 20 (proj1 (klen_ok 20 (or_intror eq_refl))) (proj2 (klen_ok 20 (or_intror eq_refl)))))).
Qed.
Print Assumptions C17_aead_siv.

(* siv80pq AS FOUND (ascon-siv-cpp.cpp: the key constructor copies / zeroes
   ASCON128_KEY_SIZE = 16 of the 20 key bytes): the statement is false for
   every pair of C functions.  Witness: storage 0xFF.., siv80pq(key) with key =
   1..20: the object holds 1..16,ff,ff,ff,ff. *)
Theorem C17_aead_siv80pq_refuted : forall c_encrypt c_decrypt,
  ~ C17_stmt unit bytes 20 c_encrypt c_decrypt (cpp_keying_plain 20 (cpp_siv80pq_ncopy CodeAsFound)) false false cpp_raw_key_of_doc eq.
Proof. exact siv80pq_asfound_refuted. Qed.
Print Assumptions C17_aead_siv80pq_refuted.

(* the model of the CURRENT code (flag siv80pq_code in Model/Cppm.v): refuted
   while the flag says CodeAsFound, proved once it says CodeFixed *)
Theorem C17_aead_siv80pq_current : forall c_encrypt c_decrypt,
  match siv80pq_code with
  | CodeAsFound => ~ C17_stmt unit bytes 20 c_encrypt c_decrypt (cpp_keying_plain 20 (cpp_siv80pq_ncopy siv80pq_code)) false false cpp_raw_key_of_doc eq
  | CodeFixed => keying_ok unit bytes 20 (cpp_keying_plain 20 (cpp_siv80pq_ncopy siv80pq_code)) false false cpp_raw_key_of_doc eq
  end.
Proof. exact (siv80pq_status siv80pq_code). Qed.
Print Assumptions C17_aead_siv80pq_current.

(* isap128, isap128a (klen 16), isap80pq (klen 20) ONCE set_key(key, 0) INSTALLS
   THE ZERO KEY: key object = pre-computed key; a documented key is a raw key
   (isap_aead_init) or an 80-byte saved key (isap_aead_load_key) *)
Theorem C17_aead_isap : forall (pk : Type) isap_init isap_load klen c_encrypt c_decrypt, klen = 16 \/ klen = 20 ->
  cfun_ok pk c_encrypt c_decrypt eq ->
  C17_stmt unit pk klen c_encrypt c_decrypt (cpp_keying_isap pk isap_init isap_load CodeFixed klen) true true
           (cpp_isap_key_of_doc pk isap_init isap_load) eq.
Proof.
  intros pk ii il klen ce cd Hk CF.
  exact (sim unit pk klen ce cd _ true true _ eq CF
           (keying_isap_fixed_ok pk ii il klen (proj1 (klen_ok klen Hk)) (proj2 (klen_ok klen Hk)))).
Qed.
Print Assumptions C17_aead_isap.

(* ISAP AS FOUND (ascon-isap-cpp.cpp: set_key(key, 0) passes `key` to
   *_isap_aead_init): false for every choice of the C functions.  Witness:
   T(); set_key(NULL, 0) - documented to install the all-zero key - reads
   through the null pointer. *)
Theorem C17_aead_isap_refuted : forall (pk : Type) isap_init isap_load klen c_encrypt c_decrypt, 0 < klen ->
  ~ C17_stmt unit pk klen c_encrypt c_decrypt (cpp_keying_isap pk isap_init isap_load CodeAsFound klen) true true
             (cpp_isap_key_of_doc pk isap_init isap_load) eq.
Proof. intros pk ii il klen ce cd. exact (isap_asfound_refuted pk ii il klen ce cd). Qed.
Print Assumptions C17_aead_isap_refuted.

(* ... and with a non-null pointer the key silently becomes the bytes at the pointer *)
Theorem C17_aead_isap_setkey0_reads_pointer : forall (pk : Type) isap_init isap_load klen c_encrypt c_decrypt b,
  0 < klen -> klen <= length b ->
  cpp_code_run unit pk c_encrypt c_decrypt (cpp_keying_isap pk isap_init isap_load CodeAsFound klen) CppDefault [CpSetKey tt (Some b) 0] =
  CppOk ({| cpo_key := isap_init (firstn klen b); cpo_nonce := zeros 16 |}, [CprBool true]).
Proof. intros pk ii il klen ce cd b. exact (isap_asfound_setkey0_reads_pointer pk ii il klen ce cd b). Qed.
Print Assumptions C17_aead_isap_setkey0_reads_pointer.

Theorem C17_aead_isap_current : forall (pk : Type) isap_init isap_load klen c_encrypt c_decrypt, 0 < klen -> klen <> 80 ->
  match isap_setkey0_code with
  | CodeAsFound => ~ C17_stmt unit pk klen c_encrypt c_decrypt (cpp_keying_isap pk isap_init isap_load isap_setkey0_code klen) true true
                   (cpp_isap_key_of_doc pk isap_init isap_load) eq
  | CodeFixed => keying_ok unit pk klen (cpp_keying_isap pk isap_init isap_load isap_setkey0_code klen) true true
                   (cpp_isap_key_of_doc pk isap_init isap_load) eq
  end.
Proof. intros pk ii il klen ce cd. exact (isap_status pk ii il isap_setkey0_code klen ce cd). Qed.
Print Assumptions C17_aead_isap_current.

(* In the words of the property: after any documented history (of a class
   whose keying members are right) the next packet is the C function under
   the documented key and nonce; the nonce then advances by one; a failed
   decrypt leaves it. *)
Theorem C17_packet : forall (R ckey : Type) klen c_encrypt c_decrypt (K : cpp_keying R ckey) hs cl key_of_doc keq,
  cfun_ok ckey c_encrypt c_decrypt keq -> keying_ok R ckey klen K hs cl key_of_doc keq ->
  forall c ops d rs k n ad m,
  cpp_doc_run R ckey klen c_encrypt c_decrypt hs cl key_of_doc c ops = Some (d, rs) -> cpd_key d = Some k -> cpd_nonce d = Some n ->
  exists o, cpp_code_run R ckey c_encrypt c_decrypt K c ops = CppOk (o, rs) /\
    cpp_do_encrypt ckey c_encrypt o ad m =
      (cpp_bump ckey o, (Z.of_nat (snd (c_encrypt (key_of_doc k) n ad m)), fst (c_encrypt (key_of_doc k) n ad m))) /\
    cpo_nonce (cpp_bump ckey o) = increment_nonce n /\
    cpp_do_decrypt ckey c_decrypt o ad m =
      match c_decrypt (key_of_doc k) n ad m with
      | DecShort => (o, ((-1)%Z, None))
      | DecDone r p => if (0 <=? r)%Z then (cpp_bump ckey o, (Z.of_nat (length p), Some p)) else (o, ((-1)%Z, Some p))
      end.
Proof. exact packet. Qed.
Print Assumptions C17_packet.

(* byte_array overloads: the vector is resized to, and holds, exactly the
   bytes the pointer overload writes; a refused ciphertext (too short or bad
   tag) leaves the vector empty and the object (nonce) unchanged *)
Theorem C17_bytearray_overloads : forall (ckey : Type) c_encrypt c_decrypt keq, cfun_ok ckey c_encrypt c_decrypt keq ->
  forall (o : cpp_obj ckey) old ad x,
  cpp_ba_encrypt ckey c_encrypt o old ad x = (fst (cpp_do_encrypt ckey c_encrypt o ad x), snd (snd (cpp_do_encrypt ckey c_encrypt o ad x))) /\
  cpp_ba_decrypt ckey c_decrypt o old ad x =
    match cpp_do_decrypt ckey c_decrypt o ad x with
    | (o', (r, Some m)) => if (r <? 0)%Z then (o, (false, [])) else (o', (true, m))
    | (o', (r, None)) => (o, (false, []))
    end.
Proof.
  intros ckey ce cd keq CF o old ad x.
  exact (conj (ba_encrypt_eq ckey ce cd keq CF o old ad x) (ba_decrypt_eq ckey ce cd keq CF o old ad x)).
Qed.
Print Assumptions C17_bytearray_overloads.

(* utility.h helpers = the C functions *)
Theorem C17_helpers : forall c_to_hex c_from_hex,
  (forall junk input upper chars, c_to_hex input upper (2 * length input + 1) = Some chars ->
     length chars = 2 * length input -> Forall (fun x => x <> 0%N) chars ->
     cpp_bytes_to_hex c_to_hex junk input upper = chars) /\
  (forall b len, 0 < len -> len <= length b -> cpp_bytes_from_data (Some b) len = CppOk (firstn len b)) /\
  (forall p, cpp_bytes_from_data p 0 = CppOk []) /\
  (forall chars, (forall w, c_from_hex (length chars / 2) chars = Some w -> length w <= length chars / 2) ->
     cpp_bytes_from_hex c_from_hex chars =
     match c_from_hex (length chars / 2) chars with
     | Some w => w
     | None => []
     end).
Proof.
  intros th fh.
  exact (conj (bytes_to_hex_eq th) (conj bytes_from_data_eq (conj (fun p => eq_refl) (bytes_from_hex_eq fh)))).
Qed.
Print Assumptions C17_helpers.

(* hash, hasha, xof_with_output_length<L>, xofa_with_output_length<L>: every
   member is the C call sequence cpp_calls_of / cpp_hcalls_of, for whole histories *)
Theorem C17_hash_xof :
  (forall (S : Type) c_init c_init_fixed c_init_custom c_reinit c_reinit_fixed c_absorb c_squeeze c_pad c_copy c_free,
     (forall (s : S) n, length (snd (c_squeeze s n)) = n) ->
     forall L ops s,
     xof_steps S c_reinit c_reinit_fixed c_absorb c_squeeze c_pad c_copy c_free L s ops =
     cpp_c_exec_list S c_init c_init_fixed c_init_custom c_reinit c_reinit_fixed c_absorb c_squeeze c_pad c_copy c_free s
       (flat_map (cpp_calls_of S L) ops)) /\
  (forall (S : Type) h_reinit h_update h_finalize h_copy h_free h_oneshot,
     (forall s : S, length (snd (h_finalize s)) = 32) ->
     forall s x,
     cpp_hash_step S h_reinit h_update h_finalize h_copy h_free h_oneshot s x =
     cpp_h_exec_list S h_reinit h_update h_finalize h_copy h_free h_oneshot s (cpp_hcalls_of S x)).
Proof. exact (conj xof_history_eq hash_member_eq). Qed.
Print Assumptions C17_hash_xof.

(* templates: xof_with_output_length<L>() = init_fixed(L), L = 0 => init (the
   typedefs xof / xofa); the named constructors pass L; reset = reinit_fixed(L)
   / reinit *)
Theorem C17_templates : forall (S : Type) c_init c_init_fixed c_init_custom c_reinit c_reinit_fixed c_absorb c_squeeze c_pad
    (c_copy : S -> S -> S) c_free L,
  cpp_xof_ctor S c_init c_init_fixed c_init_custom c_copy L (CpxDefault S) = (if L =? 0 then c_init else c_init_fixed L) /\
  cpp_xof_ctor S c_init c_init_fixed c_init_custom c_copy 0 (CpxDefault S) = c_init /\
  (forall nm cu, cpp_xof_ctor S c_init c_init_fixed c_init_custom c_copy L (CpxCustom S nm cu) = c_init_custom nm cu L) /\
  (forall junk o, cpp_xof_ctor S c_init c_init_fixed c_init_custom c_copy L (CpxCopy S junk o) = c_copy junk o) /\
  (forall s, fst (cpp_xof_step S c_reinit c_reinit_fixed c_absorb c_squeeze c_pad c_copy c_free L s (CpxReset S)) =
             if L =? 0 then c_reinit s else c_reinit_fixed s L) /\
  (forall s, fst (cpp_xof_step S c_reinit c_reinit_fixed c_absorb c_squeeze c_pad c_copy c_free 0 s (CpxReset S)) = c_reinit s).
Proof.
  intros S ci cf cc cr crf ca cs cp cy cfr L.
  exact (xof_templates S ci cf cc cr crf ca cs cp cy cfr L).
Qed.
Print Assumptions C17_templates.

(* non-vacuity: (1) the premises are satisfiable; (2) with the real model of
   ASCON-80pq (Model/Aeadm.v over Spec/Perm.v) as the C function, a history
   using the key constructor over dirty storage, a short nonce, a pointer
   encrypt, a zero-length set_key through NULL, a refused set_key, a
   byte_array encrypt, set_counter and a refused byte_array decrypt is
   documented, runs in the code machine with the same results, and ends with
   the all-zero key and the counter nonce (the failed decrypt did not move it) *)
Example C17_premises_satisfiable :
  cfun_ok bytes toy_enc toy_dec eq /\ mkey_ok N (bytes * N) toy_mk_init (zeros 20, 0%N) toy_mk_rand fst 20.
Proof. exact (conj toy_cfun_ok (toy_mkey_ok 20)). Qed.

Example C17_nonvacuous :
  let enc := fun k n ad m => encrypt_c Perm.perm a80pq k n ad m in
  let dec := fun k n ad c => decrypt_c Perm.perm a80pq k n ad c in
  let key := map N.of_nat (seq 1 20) in
  let c := CppKeyCtor (repeat 255%N 36) tt (Some key) 0 in
  let ops := [CpSetNonce (Some [7;8;9]%N) 3; CpEncrypt [1;2;3]%N (map N.of_nat (seq 50 21));
              CpSetKey tt None 0; CpSetKey tt (Some key) 7; CpEncryptBA [9%N] [] [5%N];
              CpSetCounter 258; CpDecryptBA [1;1]%N [] (zeros 20)] in
  exists d rs o,
    cpp_doc_run unit bytes 20 enc dec false false cpp_raw_key_of_doc c ops = Some (d, rs) /\
    cpp_code_run unit bytes enc dec (cpp_keying_plain 20 20) c ops = CppOk (o, rs) /\
    cpd_key d = Some (CppRawKey (zeros 20)) /\ cpd_nonce d = Some (be_encode 16 258) /\ length rs = 7 /\
    nth 3 rs CprUnit = CprBool false /\ nth 6 rs CprUnit = CprDecBA false [].
Proof. vm_compute. eexists. eexists. eexists. repeat split. Qed.
