(* C09, clause "the configuration that enables the library's own
   acquire/release balance checker never aborts in single-threaded use".

   The checker (src/core/ascon-direct-xor.c under ASCON_CHECK_ACQUIRE_RELEASE,
   cmake -DCHECK_ACQUIRE_RELEASE=ON) is ONE global flag: ascon_init and
   ascon_acquire require it clear and set it, ascon_release and ascon_free
   require it set and clear it, a mismatch aborts.  Model/Skel.v: events,
   checker automaton [exec], skeleton language, trace semantics [run] (every
   branch possible, loops any number of rounds, every prefix of an execution
   is a trace), the analysis [post].  Proofs/SkelP.v: soundness.

   Tie (T): Gen/Skeleton_<backend>.v is regenerated on every run by
   tools/skeleton.py from clang's AST of every function of src/STAR/STAR.c (and
   the call structure of the assembly files assembled on this host), for
   6 back ends x 16 share triples = 96 configurations.  The AST-to-skeleton walk is
   trusted; everything after it is checked here.

   api_balanced T f  =  every path of f entered with the flag clear never makes
   the checker abort, and every path that returns leaves the flag clear.

   PUBLIC functions = the functions declared in src/ascon/STAR.h.  Those whose
   skeleton is empty (they reach none of the four primitives and make no call
   through a function pointer) are trivially balanced and are not table
   entries.  Contracts that differ from "released on entry, released on
   return":
     ascon_init     clear -> held     (permutation.h: leaves the state acquired)
     ascon_acquire  clear -> held
     ascon_release  held  -> clear
     ascon_free     held  -> clear    (permutation.h: "implicitly releases")
   these four are the EVENTS of the model (C09_primitives); no other public
   function has a different computed behaviour on the current tree
   (Obl/SkelObl.excused = []).  Internal functions with other behaviours
   (ascon_xN_copy_to_x1: clear -> held, the static *_siv_init: clear -> held)
   are classified by the translator (build/skeleton.json) and used by the
   analysis through their computed summaries.

   With ASCON_MASKED_DATA_SHARES = 1 the current tree violates the clause (the
   six one-shot masked AEAD functions; Model/C09Config.v): there the statement
   is the refutation C09_acquire_release_<backend>_data1, with a path replayed
   inside Coq. *)
From Coq Require Import List String Bool Arith.
From AsconV Require Import Model.Skel Model.C09Config Proofs.SkelP Obl.SkelObl.
From AsconV Require Import Obl.SkelObl_x86_64 Obl.SkelObl_c64 Obl.SkelObl_c32 Obl.SkelObl_directxor Obl.SkelObl_generic Obl.SkelObl_checkar.
From AsconV Require Gen.Skeleton_x86_64 Gen.Skeleton_c64 Gen.Skeleton_c32 Gen.Skeleton_directxor Gen.Skeleton_generic
  Gen.Skeleton_checkar Gen.Skeleton_cpp.
Import ListNotations.
Local Open Scope string_scope.

(* ------------------------------------------------------------------------ *)
(* the model: analysis, sequences of calls, clients *)

(* the four primitives as the header documents them *)
Theorem C09_primitives :
  step Clear EInit = Some Held /\ step Clear EAcquire = Some Held /\
  step Held ERelease = Some Clear /\ step Held EFree = Some Clear /\
  step Held EInit = None /\ step Held EAcquire = None /\ step Clear ERelease = None /\ step Clear EFree = None.
Proof. exact (conj eq_refl (conj eq_refl (conj eq_refl (conj eq_refl (conj eq_refl (conj eq_refl (conj eq_refl eq_refl))))))). Qed.
Print Assumptions C09_primitives.

(* soundness of the analysis: if the check of a table succeeds, every listed
   function is balanced on EVERY path *)
Theorem C09_analysis_sound : forall T pub exc, check_public T pub exc = true ->
  forall f, In f pub -> mem_str f exc = false -> api_balanced T f.
Proof. exact balanced_sound. Qed.
Print Assumptions C09_analysis_sound.

(* any sequence of calls of balanced functions, on any objects, in one thread:
   the checker never aborts - also not in the middle of the last call - and
   the flag is clear after every completed call *)
Theorem C09_call_sequences : forall T fs, (forall f, In f fs -> api_balanced T f) ->
  forall t c, run_calls T fs t c -> exists q, exec Clear t = Some q /\ (c = true -> q = Clear).
Proof. exact calls_safe. Qed.
Print Assumptions C09_call_sequences.

(* ... and any control flow around such calls (branches, loops, early returns) *)
Theorem C09_clients : forall T pub, (forall f, In f pub -> api_balanced T f) ->
  forall s t o, run T s t o -> only_calls pub s = true ->
  exists q, exec Clear t = Some q /\ (o <> OStop -> q = Clear).
Proof. exact client_safe. Qed.
Print Assumptions C09_clients.

(* ------------------------------------------------------------------------ *)
(* the current source, per back end, all 16 share configurations *)

Theorem C09_acquire_release_x86_64 : forall c, In c Skeleton_x86_64.configs -> data_ok c = true ->
  forall f, In f (cfg_public c) -> api_balanced (cfg_table c) f.
Proof. exact (balanced_of_checked _ checked_x86_64). Qed.
Print Assumptions C09_acquire_release_x86_64.

Theorem C09_acquire_release_c64 : forall c, In c Skeleton_c64.configs -> data_ok c = true ->
  forall f, In f (cfg_public c) -> api_balanced (cfg_table c) f.
Proof. exact (balanced_of_checked _ checked_c64). Qed.
Print Assumptions C09_acquire_release_c64.

Theorem C09_acquire_release_c32 : forall c, In c Skeleton_c32.configs -> data_ok c = true ->
  forall f, In f (cfg_public c) -> api_balanced (cfg_table c) f.
Proof. exact (balanced_of_checked _ checked_c32). Qed.
Print Assumptions C09_acquire_release_c32.

Theorem C09_acquire_release_directxor : forall c, In c Skeleton_directxor.configs -> data_ok c = true ->
  forall f, In f (cfg_public c) -> api_balanced (cfg_table c) f.
Proof. exact (balanced_of_checked _ checked_directxor). Qed.
Print Assumptions C09_acquire_release_directxor.

Theorem C09_acquire_release_generic : forall c, In c Skeleton_generic.configs -> data_ok c = true ->
  forall f, In f (cfg_public c) -> api_balanced (cfg_table c) f.
Proof. exact (balanced_of_checked _ checked_generic). Qed.
Print Assumptions C09_acquire_release_generic.

(* the configuration the clause names: -DCHECK_ACQUIRE_RELEASE=ON *)
Theorem C09_acquire_release_checkar : forall c, In c Skeleton_checkar.configs -> data_ok c = true ->
  forall f, In f (cfg_public c) -> api_balanced (cfg_table c) f.
Proof. exact (balanced_of_checked _ checked_checkar). Qed.
Print Assumptions C09_acquire_release_checkar.

(* hence: any sequence of public calls in the checking build never aborts *)
Theorem C09_checkar_never_aborts : forall c, In c Skeleton_checkar.configs -> data_ok c = true ->
  forall fs, (forall f, In f fs -> In f (cfg_public c)) ->
  forall t done, run_calls (cfg_table c) fs t done -> exists q, exec Clear t = Some q /\ (done = true -> q = Clear).
Proof.
  exact (fun c Hc Hd fs Hfs => calls_safe (cfg_table c) fs (fun f Hf => balanced_of_checked _ checked_checkar c Hc Hd f (Hfs f Hf))).
Qed.
Print Assumptions C09_checkar_never_aborts.

(* the configurations the current tree violates (fix_masked_x1_nesting = false:
   data shares = 1): some public function has a path that aborts *)
Theorem C09_acquire_release_x86_64_data1 : forall c, In c Skeleton_x86_64.configs -> data_ok c = false ->
  exists f, In f (cfg_public c) /\ ~ api_balanced (cfg_table c) f.
Proof. exact (refuted_of_checked _ checked_x86_64). Qed.
Print Assumptions C09_acquire_release_x86_64_data1.

Theorem C09_acquire_release_c64_data1 : forall c, In c Skeleton_c64.configs -> data_ok c = false ->
  exists f, In f (cfg_public c) /\ ~ api_balanced (cfg_table c) f.
Proof. exact (refuted_of_checked _ checked_c64). Qed.
Print Assumptions C09_acquire_release_c64_data1.

Theorem C09_acquire_release_c32_data1 : forall c, In c Skeleton_c32.configs -> data_ok c = false ->
  exists f, In f (cfg_public c) /\ ~ api_balanced (cfg_table c) f.
Proof. exact (refuted_of_checked _ checked_c32). Qed.
Print Assumptions C09_acquire_release_c32_data1.

Theorem C09_acquire_release_directxor_data1 : forall c, In c Skeleton_directxor.configs -> data_ok c = false ->
  exists f, In f (cfg_public c) /\ ~ api_balanced (cfg_table c) f.
Proof. exact (refuted_of_checked _ checked_directxor). Qed.
Print Assumptions C09_acquire_release_directxor_data1.

Theorem C09_acquire_release_generic_data1 : forall c, In c Skeleton_generic.configs -> data_ok c = false ->
  exists f, In f (cfg_public c) /\ ~ api_balanced (cfg_table c) f.
Proof. exact (refuted_of_checked _ checked_generic). Qed.
Print Assumptions C09_acquire_release_generic_data1.

Theorem C09_acquire_release_checkar_data1 : forall c, In c Skeleton_checkar.configs -> data_ok c = false ->
  exists f, In f (cfg_public c) /\ ~ api_balanced (cfg_table c) f.
Proof. exact (refuted_of_checked _ checked_checkar). Qed.
Print Assumptions C09_acquire_release_checkar_data1.

(* internal functions that legitimately leave the flag held, classified by their
   computed behaviour: ascon_x{2,3,4}_copy_to_x1 (masked-state.h: "will be
   initialized by the process") - entered clear they never abort and return with
   the state acquired; entered held they abort *)
Theorem C09_internal_contracts_checkar : forall c, In c Skeleton_checkar.configs -> data_ok c = true ->
  forall f s, In (f, s) documented -> lookup (cfg_table c) f <> None -> has_summary (cfg_table c) f s.
Proof. exact (documented_of_checked _ checked_checkar). Qed.
Print Assumptions C09_internal_contracts_checkar.

Theorem C09_internal_contracts_x86_64 : forall c, In c Skeleton_x86_64.configs -> data_ok c = true ->
  forall f s, In (f, s) documented -> lookup (cfg_table c) f <> None -> has_summary (cfg_table c) f s.
Proof. exact (documented_of_checked _ checked_x86_64). Qed.
Print Assumptions C09_internal_contracts_x86_64.

(* the C++ layer (src/cplusplus, the classes of the public headers - the only
   inline functions the public headers have) mentions no primitive and no
   internal helper, only public functions: whatever a member function does
   between its calls, it is a client in the sense of C09_clients *)
Theorem C09_cpp_layer_checkar : forall c, In c Skeleton_checkar.configs -> data_ok c = true ->
  forall s t o, only_calls (filter (defined_in (cfg_table c)) Skeleton_cpp.cpp_called) s = true ->
  run (cfg_table c) s t o -> exists q, exec Clear t = Some q /\ (o <> OStop -> q = Clear).
Proof. exact (cpp_of_checked _ checked_checkar). Qed.
Print Assumptions C09_cpp_layer_checkar.

Theorem C09_cpp_layer_x86_64 : forall c, In c Skeleton_x86_64.configs -> data_ok c = true ->
  forall s t o, only_calls (filter (defined_in (cfg_table c)) Skeleton_cpp.cpp_called) s = true ->
  run (cfg_table c) s t o -> exists q, exec Clear t = Some q /\ (o <> OStop -> q = Clear).
Proof. exact (cpp_of_checked _ checked_x86_64). Qed.
Print Assumptions C09_cpp_layer_x86_64.

(* ------------------------------------------------------------------------ *)
(* non-vacuity *)

Fixpoint sk_events (s : sk) : nat :=
  match s with
  | SEv _ | SCall _ => 1
  | SSeq a b | SAlt a b => sk_events a + sk_events b
  | SRep b | SCatchB b | SCatchC b => sk_events b
  | _ => 0
  end.

Definition nontrivial (c : config) (f : string) : bool :=
  mem_str f (cfg_public c) &&
  match lookup (cfg_table c) f with Some b => Nat.leb 2 (sk_events b) | None => false end.

(* the regenerated tables are not empty: real functions, with real skeletons,
   are public entries of the default share configuration (4 key / 2 data / 4
   max) of the checking build and of the assembly build; the hypotheses of the
   theorems are satisfiable (data_ok holds there); at least 200 functions have
   a skeleton and at least 150 of them are public *)
Example C09_tables_not_empty :
  data_ok Skeleton_checkar.cfg_424 = true /\ In Skeleton_checkar.cfg_424 Skeleton_checkar.configs /\
  forallb (nontrivial Skeleton_checkar.cfg_424)
    ["ascon128_aead_encrypt"; "ascon128_aead_decrypt"; "ascon128_aead_start"; "ascon_xof_absorb"; "ascon_xof_squeeze";
     "ascon_hkdf_expand"; "ascon_pbkdf2"; "ascon_random_reseed"; "ascon128_siv_encrypt"; "ascon128_isap_aead_encrypt";
     "ascon128_masked_aead_encrypt"; "ascon80pq_masked_aead_decrypt"] = true /\
  forallb (nontrivial Skeleton_x86_64.cfg_424) ["ascon128_masked_aead_encrypt"; "ascon_masked_key_128_init"; "ascon_xof_absorb"] = true /\
  Nat.leb 200 (List.length (cfg_table Skeleton_checkar.cfg_424)) = true /\
  Nat.leb 150 (List.length (cfg_public Skeleton_checkar.cfg_424)) = true /\
  (* the documented internal contract is about functions that exist *)
  lookup (cfg_table Skeleton_checkar.cfg_424) "ascon_x4_copy_to_x1" <> None.
Proof.
  split; [vm_compute; reflexivity|].
  split; [unfold Skeleton_checkar.configs; cbn [In]; repeat (first [left; reflexivity | right])|].
  vm_compute. repeat split. discriminate.
Qed.

(* the check is not trivially true: dropping the release on an early-return
   path, or acquiring twice, is rejected, and the rejected path is a trace *)
Example C09_check_rejects :
  check_public [("f", SSeq (SEv EAcquire) (SSeq (SAlt SRet SSkip) (SEv ERelease)))] ["f"] [] = false /\
  bad_path [("f", SSeq (SEv EAcquire) (SSeq (SAlt SRet SSkip) (SEv ERelease)))] 100 "f" [CL] = true /\
  check_public [("g", SSeq (SEv EAcquire) (SEv ERelease)); ("f", SSeq (SEv EInit) (SSeq (SCall "g") (SEv EFree)))] ["f"; "g"] [] = false /\
  check_public [("g", SSeq (SEv EAcquire) (SEv ERelease)); ("f", SSeq (SEv EInit) (SSeq (SEv ERelease) (SSeq (SCall "g") (SSeq (SEv EAcquire) (SEv EFree)))))] ["f"; "g"] [] = true.
Proof. vm_compute. repeat split. Qed.
