(* C10 - masked code computes the unmasked function for every randomness and share count.
   The masked permutation kernels (C64 and x86-64 assembly, 2/3/4 shares), the masked-word toolkit
   (C64 and x86-64 assembly) and the masked-key functions (KEY_SHARES = 2, 3, 4) are re-translated from
   /repo on every run (Gen/Masked_*.v, Gen/MWord.v); these theorems are about that translated code, for ALL
   share values and ALL random words.  The layout-free share algebra (Model/Maskm.v) carries the
   history-level statements and is tied to the built library by the correspondence check. *)
From Coq Require Import List Arith Bool NArith Lia String. Import ListNotations.
From AsconV Require Import Bits.Bytes Sym.Wexpr Sym.Pipe Sym.Kernel Sym.KernelP Sym.VKernel Obl.KernMaskedDefs Obl.FnObl
  Gen.Masked_mx2_c64 Gen.Masked_mx3_c64 Gen.Masked_mx4_c64 Gen.Masked_mx2_x86 Gen.Masked_mx3_x86 Gen.Masked_mx4_x86
  Gen.MaskedObl_mx2_c64 Gen.MaskedObl_mx3_c64 Gen.MaskedObl_mx4_c64 Gen.MaskedObl_mx2_x86 Gen.MaskedObl_mx3_x86 Gen.MaskedObl_mx4_x86
  Gen.MWord Gen.MWordObl Model.Maskm Proofs.AeadP Proofs.MaskP.

(* For every first_round k <= 12: whatever the shares, the preserved random words (and, for the assembly,
   the registers on entry) are, the unmasked value of the state after the translated ascon_xN_permute is
   rounds k..11 of the unmasked value before.  The value programs (un-rotate each share, XOR) are part of
   the interface data and are printed in Gen/Masked_*.v. *)
Definition masked_perm_correct (ifs : list viface) (ein eout : nat) (segs : list vseg) (chains : list (nat * list nat)) : Prop :=
  forall k, k <= 12 -> exists idx, In (k, idx) chains /\
  forall v, widths_of v = vi_w (vif ifs ein) ->
  run BoolAlg (vrun_chain (vchain_of segs idx) v) (vi_val (vif ifs eout)) =
  pexec BoolAlg (rounds_pipe KL64 (seq k (12 - k))) (run BoolAlg v (vi_val (vif ifs ein))).

Theorem C10_perm_x2_c64 : masked_perm_correct mx2_c64_ifaces mx2_c64_entry mx2_c64_exit mx2_c64_segs mx2_c64_chains.
Proof. exact (vbackend_sound _ _ _ _ _ mx2_c64_ok). Qed.
Print Assumptions C10_perm_x2_c64.
Theorem C10_perm_x3_c64 : masked_perm_correct mx3_c64_ifaces mx3_c64_entry mx3_c64_exit mx3_c64_segs mx3_c64_chains.
Proof. exact (vbackend_sound _ _ _ _ _ mx3_c64_ok). Qed.
Print Assumptions C10_perm_x3_c64.
Theorem C10_perm_x4_c64 : masked_perm_correct mx4_c64_ifaces mx4_c64_entry mx4_c64_exit mx4_c64_segs mx4_c64_chains.
Proof. exact (vbackend_sound _ _ _ _ _ mx4_c64_ok). Qed.
Print Assumptions C10_perm_x4_c64.
Theorem C10_perm_x2_x86_64_asm : masked_perm_correct mx2_x86_ifaces mx2_x86_entry mx2_x86_exit mx2_x86_segs mx2_x86_chains.
Proof. exact (vbackend_sound _ _ _ _ _ mx2_x86_ok). Qed.
Print Assumptions C10_perm_x2_x86_64_asm.
Theorem C10_perm_x3_x86_64_asm : masked_perm_correct mx3_x86_ifaces mx3_x86_entry mx3_x86_exit mx3_x86_segs mx3_x86_chains.
Proof. exact (vbackend_sound _ _ _ _ _ mx3_x86_ok). Qed.
Print Assumptions C10_perm_x3_x86_64_asm.
Theorem C10_perm_x4_x86_64_asm : masked_perm_correct mx4_x86_ifaces mx4_x86_entry mx4_x86_exit mx4_x86_segs mx4_x86_chains.
Proof. exact (vbackend_sound _ _ _ _ _ mx4_x86_ok). Qed.
Print Assumptions C10_perm_x4_x86_64_asm.

(* A translated function meets its obligation: what is observed of its outputs (fo_post: the unmasked value,
   the individual shares, the surplus shares) equals the specification (fo_spec) as a function of the same
   inputs (shares, data bytes and random words), for all inputs.  For load: value = the data, share j >= 1 =
   the rotation of its own fresh word, surplus shares 0.  For store: the bytes of the value.  For randomize:
   value kept, share 0 moved by the XOR of the fresh words, share j >= 1 by the rotation of the j-th.  For
   xor: value = XOR of the values. *)
Definition fn_correct (o : fn_obl) : Prop :=
  forall v : list (list bool), widths_of v = fo_widths o ->
  run BoolAlg (run BoolAlg v (fo_prog o)) (fo_post o) = run BoolAlg v (fo_spec o).

Theorem C10_word_toolkit_c64 : forall o, In o mword_c64_obls -> fn_correct o.
Proof. exact (fn_obl_sound _ mword_c64_ok). Qed.
Print Assumptions C10_word_toolkit_c64.
Theorem C10_word_toolkit_x86_64_asm : forall o, In o mword_x86_obls -> fn_correct o.
Proof. exact (fn_obl_sound _ mword_x86_ok). Qed.
Print Assumptions C10_word_toolkit_x86_64_asm.

(* ascon_masked_key_{128,160}_{init,extract,randomize_with_trng} for KEY_SHARES = 2, 3, 4 (over the C64 word
   toolkit): init gives words whose values are the key words with every share j >= 1 its own fresh word;
   extract returns the bytes of the values; randomize keeps every value and moves every share of every
   word by its own fresh word *)
Theorem C10_masked_keys : forall o, In o mkey_obls -> fn_correct o.
Proof. exact (fn_obl_sound _ mkey_ok). Qed.
Print Assumptions C10_masked_keys.
(* masked states (five masked words) over the C64 word toolkit: ascon_xN_randomize keeps every value and moves
   every share of every word by its own fresh word; ascon_xN_copy_from_xM (also in place, as the AEAD code uses
   it) keeps every value.  The word-toolkit lists above also contain the share-count conversions xN_from_xM
   with distinct and with aliased operands. *)
Theorem C10_masked_states : forall o, In o mstate_obls -> fn_correct o.
Proof. exact (fn_obl_sound _ mstate_ok). Qed.
Print Assumptions C10_masked_states.
Example C10_coverage : List.length mword_c64_obls = 24 /\ List.length mword_x86_obls = 24 /\ List.length mkey_obls = 18 /\ List.length mstate_obls = 18.
Proof. vm_compute. repeat split. Qed.

(* share algebra (layout-free), any number of shares, any tape *)
Theorem C10_mask_value d rs : mw_value (mw_mask d rs) = d.
Proof. exact (mw_value_mask d rs). Qed.
Print Assumptions C10_mask_value.
Theorem C10_randomize_value w rs : S (List.length rs) = List.length w -> mw_value (mw_randomize w rs) = mw_value w.
Proof. exact (mw_value_randomize w rs). Qed.
Print Assumptions C10_randomize_value.
Theorem C10_randomize_changes u0 us rs : List.length rs = List.length us ->
  changed (u0 :: us) (mw_randomize (u0 :: us) rs) = negb (N.eqb (xors rs) 0) :: map (fun r => negb (N.eqb r 0)) rs.
Proof. exact (changed_randomize u0 us rs). Qed.
Print Assumptions C10_randomize_changes.

(* a whole key history: masked with n >= 1 shares from any tape, then re-randomised any number of times,
   the key read back at every step is the key *)
Theorem C10_key_history n key tape rounds : 1 <= n -> bytes_ok key -> (List.length key = 16 \/ List.length key = 20) ->
  fst (mk_history n key tape rounds) = key /\ Forall (fun e => fst e = key) (snd (mk_history n key tape rounds)).
Proof. exact (mk_history_keys n key tape rounds). Qed.
Print Assumptions C10_key_history.

(* any list of words (e.g. the five words of a masked state) masked with n >= 1 shares from any tape and
   re-randomised any number of times keeps its values *)
Theorem C10_state_history n ws tape rounds : 1 <= n ->
  fst (mws_history n ws tape rounds) = ws /\ Forall (fun e => fst e = ws) (snd (mws_history n ws tape rounds)).
Proof. exact (mws_history_values n ws tape rounds). Qed.
Print Assumptions C10_state_history.

Example C10_nonvacuous :
  mk_history 3 (map N.of_nat (seq 1 20)) [5; 0; 7; 7; 1; 2]%N 1 =
  (map N.of_nat (seq 1 20),
   [(map N.of_nat (seq 1 20), [[false; false; false]; [false; false; false]; [false; false; false];
                               [false; false; false]; [false; false; false]; [false; false; false]])]).
Proof. vm_compute. reflexivity. Qed.
