(* C10 - masked code computes the unmasked function for every randomness and share count.
   The masked permutation kernels (C64 and x86-64 assembly, 2/3/4 shares), the masked-word toolkit
   (C64 and x86-64 assembly) and the masked-key functions (KEY_SHARES = 2, 3, 4) are re-translated from
   /repo on every run (Gen/Masked_*.v, Gen/MWord.v); these theorems are about that translated code, for ALL
   share values and ALL random words.  Only the PROGRAMS come from the translators: what "the unmasked value" of a
   masked word / state is, what is observed of a function's outputs and what it is compared with are defined by
   hand in Obl/MWordSpec.v (mval64, mval32, state_val, std_post, std_spec), and the lists of functions every table
   must contain are the hand-written req_* lists there.  The layout-free share algebra (Model/Maskm.v) carries the
   history-level statements and is tied to the built library by the correspondence check. *)
From Coq Require Import List Arith Bool NArith Lia String. Import ListNotations.
From AsconV Require Import Bits.Bytes Sym.Wexpr Sym.Pipe Sym.Kernel Sym.KernelP Sym.VKernel Obl.KernMaskedDefs Obl.FnObl
  Gen.Masked_mx2_c64 Gen.Masked_mx3_c64 Gen.Masked_mx4_c64 Gen.Masked_mx2_x86 Gen.Masked_mx3_x86 Gen.Masked_mx4_x86
  Gen.MaskedObl_mx2_c64 Gen.MaskedObl_mx3_c64 Gen.MaskedObl_mx4_c64 Gen.MaskedObl_mx2_x86 Gen.MaskedObl_mx3_x86 Gen.MaskedObl_mx4_x86
  Gen.MWord Gen.MWordObl Obl.MWordCover Model.Maskm Proofs.AeadP Proofs.MaskP.

(* Obl/KernMaskedDefs.masked_perm_std be n max ifs entry exit segs chains:
     the entry interface begins with the 5 x 8 max bytes of the masked state and the 8 (n-1) preserved bytes (the
     assembly adds the registers on entry), the exit interface is exactly those bytes, and
     for every first_round k <= 12 there is a chain of translated segments such that, whatever the share bytes
     (including the surplus shares), the preserved random words (and the entry registers) are,
         state_val be n max (memory after the translated ascon_xN_permute)
           = rounds k..11 (state_val be n max (memory before)),
   where Obl/MWordSpec.state_val B64 n max is, per state word i, XOR_{j<n} rotl_{11 j} (le64 (bytes at 8 max i + 8 j)).
   The value programs of the cut points inside the function are the translator's and internal to the proof. *)
Theorem C10_perm_x2_c64 : masked_perm_std B64 2 4 mx2_c64_ifaces mx2_c64_entry mx2_c64_exit mx2_c64_segs mx2_c64_chains.
Proof. exact (vbackend_sound_std _ _ _ _ _ _ _ _ mx2_c64_ok mx2_c64_std_ok). Qed.
Print Assumptions C10_perm_x2_c64.
Theorem C10_perm_x3_c64 : masked_perm_std B64 3 4 mx3_c64_ifaces mx3_c64_entry mx3_c64_exit mx3_c64_segs mx3_c64_chains.
Proof. exact (vbackend_sound_std _ _ _ _ _ _ _ _ mx3_c64_ok mx3_c64_std_ok). Qed.
Print Assumptions C10_perm_x3_c64.
Theorem C10_perm_x4_c64 : masked_perm_std B64 4 4 mx4_c64_ifaces mx4_c64_entry mx4_c64_exit mx4_c64_segs mx4_c64_chains.
Proof. exact (vbackend_sound_std _ _ _ _ _ _ _ _ mx4_c64_ok mx4_c64_std_ok). Qed.
Print Assumptions C10_perm_x4_c64.
Theorem C10_perm_x2_x86_64_asm : masked_perm_std B64 2 4 mx2_x86_ifaces mx2_x86_entry mx2_x86_exit mx2_x86_segs mx2_x86_chains.
Proof. exact (vbackend_sound_std _ _ _ _ _ _ _ _ mx2_x86_ok mx2_x86_std_ok). Qed.
Print Assumptions C10_perm_x2_x86_64_asm.
Theorem C10_perm_x3_x86_64_asm : masked_perm_std B64 3 4 mx3_x86_ifaces mx3_x86_entry mx3_x86_exit mx3_x86_segs mx3_x86_chains.
Proof. exact (vbackend_sound_std _ _ _ _ _ _ _ _ mx3_x86_ok mx3_x86_std_ok). Qed.
Print Assumptions C10_perm_x3_x86_64_asm.
Theorem C10_perm_x4_x86_64_asm : masked_perm_std B64 4 4 mx4_x86_ifaces mx4_x86_entry mx4_x86_exit mx4_x86_segs mx4_x86_chains.
Proof. exact (vbackend_sound_std _ _ _ _ _ _ _ _ mx4_x86_ok mx4_x86_std_ok). Qed.
Print Assumptions C10_perm_x4_x86_64_asm.

(* Obl/FnObl.table_correct tab reqs:
   (a) every obligation o of the regenerated table meets the hand-written specification of its descriptor
       (fn_meets_std): the descriptor is well-formed against the input widths (region bytes first, the fresh random
       words behind them, each read by exactly one unit), its function name is c_name (kind, shares), and for ALL
       inputs v (share bytes incl. surplus shares, data bytes, random words; for assembly also the entry registers)
           run (run v (fo_prog o)) (std_post d) = run v (std_spec d);
   (b) every (kind, value algebra, shares, MAX_SHARES) of the hand-written list reqs has an obligation in the table.
   Obl/MWordSpec.std_post / std_spec, per kind:
     load      : value = the 8 data bytes big-endian; share j >= 1 = the rotation of its own fresh word; surplus shares 0
     store     : the bytes of the value
     randomize : value kept; share 0 moved by the XOR of the fresh words, share j >= 1 by the rotation of the j-th;
                 surplus shares of the destination untouched
     xor       : value = XOR of the values
     xN_from_xM (distinct and in place): value kept; surplus shares of the result 0 *)
Theorem C10_word_toolkit_c64 : table_correct mword_c64_obls (req_toolkit B64 4 false).
Proof. exact (table_sound _ _ mword_c64_ok mword_c64_covers). Qed.
Print Assumptions C10_word_toolkit_c64.
Theorem C10_word_toolkit_x86_64_asm : table_correct mword_x86_obls (req_toolkit B64 4 false).
Proof. exact (table_sound _ _ mword_x86_ok mword_x86_covers). Qed.
Print Assumptions C10_word_toolkit_x86_64_asm.

(* ascon_masked_key_{128,160}_{init,extract,randomize_with_trng} for KEY_SHARES = 2, 3, 4 (over the C64 word
   toolkit): init gives words whose values are the key words with every share j >= 1 its own fresh word;
   extract returns the bytes of the values; randomize keeps every value and moves every share of every
   word by its own fresh word *)
Theorem C10_masked_keys : table_correct mkey_obls (req_keys B64).
Proof. exact (table_sound _ _ mkey_ok mkey_covers). Qed.
Print Assumptions C10_masked_keys.
(* masked states (five masked words) over the C64 word toolkit: ascon_xN_randomize keeps every value and moves
   every share of every word by its own fresh word; ascon_xN_copy_from_xM (also in place, as the AEAD code uses
   it) keeps every value.  The word-toolkit lists above also contain the share-count conversions xN_from_xM
   with distinct and with aliased operands. *)
Theorem C10_masked_states : table_correct mstate_obls (req_states B64 4).
Proof. exact (table_sound _ _ mstate_ok mstate_covers). Qed.
Print Assumptions C10_masked_states.
(* the hand-written value function on the wexpr semantics: a word masked as S[0] = d xor r1 xor r2 xor r3,
   S[j] = rotr_{11 j} r_j (32-bit layout: bit planes, each rotated right by 5 j) has value d, for all d, r1, r2, r3 *)
Theorem C10_value_of_masked :
  check_pipes [64; 64; 64; 64] (PSeq (PRun masked_image64) (PRun (outs_prog [mval64 4 0]))) (PRun (outs_prog [WIn 0])) = true /\
  check_pipes [64; 64; 64; 64] (PSeq (PRun masked_image32) (PRun (outs_prog [mval32 4 0]))) (PRun (outs_prog [WIn 0])) = true.
Proof. exact (conj mval64_of_masked mval32_of_masked). Qed.
Print Assumptions C10_value_of_masked.
Example C10_coverage : List.length mword_c64_obls = 24 /\ List.length mword_x86_obls = 24 /\ List.length mkey_obls = 18 /\ List.length mstate_obls = 18.
Proof. vm_compute. repeat split. Qed.

(* share algebra (layout-free), any number of shares, any tape *)
Theorem C10_mask_value d rs : mw_value (mw_mask d rs) = d.
Proof. exact (mw_value_mask d rs). Qed.
Print Assumptions C10_mask_value.
Theorem C10_randomize_value w rs : S (List.length rs) = List.length w -> mw_value (mw_randomize w rs) = mw_value w.
Proof. exact (mw_value_randomize w rs). Qed.
Print Assumptions C10_randomize_value.
Theorem C10_randomize_changes u0 us rs : List.length rs = List.length us ->
  changed (u0 :: us) (mw_randomize (u0 :: us) rs) = negb (N.eqb (xors rs) 0) :: map (fun r => negb (N.eqb r 0)) rs.
Proof. exact (changed_randomize u0 us rs). Qed.
Print Assumptions C10_randomize_changes.

(* a whole key history: masked with n >= 1 shares from any tape, then re-randomised any number of times,
   the key read back at every step is the key *)
Theorem C10_key_history n key tape rounds : 1 <= n -> bytes_ok key -> (List.length key = 16 \/ List.length key = 20) ->
  fst (mk_history n key tape rounds) = key /\ Forall (fun e => fst e = key) (snd (mk_history n key tape rounds)).
Proof. exact (mk_history_keys n key tape rounds). Qed.
Print Assumptions C10_key_history.

(* any list of words (e.g. the five words of a masked state) masked with n >= 1 shares from any tape and
   re-randomised any number of times keeps its values *)
Theorem C10_state_history n ws tape rounds : 1 <= n ->
  fst (mws_history n ws tape rounds) = ws /\ Forall (fun e => fst e = ws) (snd (mws_history n ws tape rounds)).
Proof. exact (mws_history_values n ws tape rounds). Qed.
Print Assumptions C10_state_history.

Example C10_nonvacuous :
  mk_history 3 (map N.of_nat (seq 1 20)) [5; 0; 7; 7; 1; 2]%N 1 =
  (map N.of_nat (seq 1 20),
   [(map N.of_nat (seq 1 20), [[false; false; false]; [false; false; false]; [false; false; false];
                               [false; false; false]; [false; false; false]; [false; false; false]])]).
Proof. vm_compute. reflexivity. Qed.
