(* C11 - control flow and memory addresses never depend on secret data: the MASKED code (layer 1).

   tools/kern_ct_masked.py executes, from /repo's current source and with the stuck semantics of tools/kern_ct.py
   (a branch / select / switch condition, pointer offset, shift amount or copy length that is not a constant of the
   run stops the run), the functions

     ascon128_masked_aead_encrypt / _decrypt, ascon128a_masked_aead_encrypt / _decrypt, ascon80pq_masked_aead_encrypt / _decrypt
     ascon_masked_key_128_init / _randomize / _extract / _free, ascon_masked_key_160_init / _randomize / _extract / _free

   for the share configurations KEY/DATA/MAX = 4/2/4 (default), 4/1/4, 3/3/3, 2/2/2 on the 64-bit C masked back end
   (c64_KDM), the 32-bit C masked back end (c32_KDM) and the default x86-64 selection (x86_KDM: the C mode code around the
   assembly word toolkit and assembly permutations, which are external under contracts - every integer argument must
   be a constant, written bytes become fresh data - and have rows of their own), with

     secret  (symbolic): the masked key object / the key bytes, the plaintext resp. ciphertext and tag, EVERY word
             returned by ascon_trng_generate_64 / ascon_trng_generate_32 (one fresh symbolic word per call), every
             byte written by a masked or unmasked permutation call; also the nonce and the associated data
     public  (concrete): adlen, mlen over {0, 1, r-1, r, r+1, 2r+3}^2 (r = 8 / 16 / 8)

   and the masked kernels with 16- and 24-byte masked words (ascon_x2_permute for MAX_SHARES 2, 3, ascon_x3_permute for
   MAX_SHARES 3, first_round 0..12; the whole masked-word toolkit for n, m <= MAX_SHARES) on c64, c32 and the x86-64
   assembly.  Each run is repeated with every second input region concrete and with everything concrete; the three
   trace hashes are in the table.

   The theorem re-checks the regenerated table Gen/CtMasked.v: every run completed (a stuck run is a row with 0 steps),
   the three hashes of every row agree, every REQUIRED (function, configuration) of the hand-written lists of
   Obl/CtMaskedObl.v is present with EXACTLY its list of control tuples, and for the 72 masked AEAD entries the
   permutation calls seen in every run (shares and first round, in order) are the ones the hand-written
   `masked_perms rate first_round KEY DATA adlen mlen` predicts. *)
From Coq Require Import List NArith String Bool.
From AsconV Require Import Sym.CtTable Gen.CtMasked Obl.CtMaskedObl.
Import ListNotations.

Theorem C11_masked_kernels :
  forallb ct_entry_ok ctm_entries && forallb (req_met ctm_entries) ctm_required && forallb (aead_req_met ctm_entries) ctm_aead_required = true.
Proof. exact ctm_table_checked. Qed.
Print Assumptions C11_masked_kernels.

(* what the lists hold: 72 masked AEAD entries with 36 shapes each, 96 masked-key entries, 9 permutation entries with 13
   first rounds each, 6 x (10 + 2 resp. 22 + 2) masked-word entries *)
Theorem C11_masked_coverage :
  List.length ctm_aead_required = 72%nat /\ List.length ctm_key_required = 96%nat /\ List.length ctm_perm_required = 9%nat /\
  List.length ctm_word_required = 99%nat /\
  map (@List.length (list N)) (map aead_shapes [8; 16]%nat) = [36; 36]%nat /\
  Nat.leb 3126 ctm_count_runs = true /\
  existsb (fun q => String.eqb (aq_fn q) "ascon80pq_masked_aead_decrypt" && String.eqb (aq_cfg q) "c64_414") ctm_aead_required = true.
Proof. repeat split; vm_compute; try reflexivity. Qed.
Print Assumptions C11_masked_coverage.

(* non-vacuity: the prediction is not trivially satisfied - ASCON-128a with KEY/DATA = 4/2, 17 bytes of associated
   data and 35 bytes of payload: x4 init, two + two x2 calls from round 4, x4 finalisation; a row whose hashes
   disagree or that executed nothing is rejected *)
Example C11_masked_nonvacuous :
  masked_perms 16 4 4 2 17 35 = [400; 204; 204; 204; 204; 400]%N /\
  masked_perms 8 6 4 1 0 7 = [400; 400]%N /\
  ct_run_ok (mkRun [0; 0]%N 10 10 1 5 [5; 6]%N []) = false /\ ct_run_ok (mkRun [0; 0]%N 0 0 0 0 [] []) = false.
Proof. repeat split; vm_compute; reflexivity. Qed.
