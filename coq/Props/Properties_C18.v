(* C18 - assembly backends match their generators, the specification and the ABI  (partial).

   This file holds what is proved for the x86-64 files.  The other instruction sets add their theorems in
   files Props/Properties_C18_<group>.v (picked up by lib/p_c18.py with a glob); a checked-in assembly file
   that has no theorem in any of these files is covered by the generator-equality and ELF-note sub-checks
   only, and the evidence lists it as such.

   (1) Permutation semantics of src/core/ascon-asm-x86-64.S: the text of the file is lowered instruction
       by instruction (tools/asm_x86.py) on every run into Gen/Kern_x86_64.v; for every first_round 0..12 and
       all 2^320 memory contents and all register contents on entry the lowered code stores
       enc (round_11 (.. (round_k (dec m)))) under the sliced64 layout (little-endian words, no inversion in
       memory).  Same statement and same data as C08_perm_x86_64_asm.
   (2) ABI and frame of all five x86-64 files (plain, x2/x3/x4 masked for every MAX_SHARES profile, the
       masked-word functions): Gen/AbiX86.v is regenerated on every run by tools/abi_x86.py from complete
       uncut symbolic runs; the theorems below re-check the table in Coq.  The machine semantics that turns an
       out-of-region or out-of-frame access, a clobbered return address or an unbalanced stack into "stuck"
       is the Python executor, not a Coq definition: these are theorems about the regenerated table. *)
From Coq Require Import List Arith Bool String. Import ListNotations.
From AsconV Require Import Sym.Wexpr Sym.Pipe Sym.PermW Sym.Kernel Sym.KernelP Obl.KernPerm Gen.Kern_x86_64
  Obl.AbiDefs Gen.AbiX86 Obl.AbiX86Obl Props.Properties_C08.

(* (1) *)
Theorem C18_perm_x86_64 : perm_correct x86_64_layout x86_64_segs x86_64_chains.
Proof. exact C08_perm_x86_64_asm. Qed.
Print Assumptions C18_perm_x86_64.

(* (2) every run of every global function of the five files: finished (never stuck), callee-saved registers
   hold their entry values, rsp = entry + 8 after ret through the untouched return address, every access
   inside a declared region or the own frame, frame <= 512 bytes *)
Theorem C18_abi_x86_64 : forallb abi_entry_ok abi_entries = true.
Proof. exact abi_table_ok. Qed.
Print Assumptions C18_abi_x86_64.

(* the same, unfolded for one row *)
Theorem C18_abi_x86_64_row : forall e, In e abi_entries ->
  ae_finished e = true /\ ae_callee_saved_ok e = true /\ ae_rsp_ok e = true /\ ae_ret_ok e = true /\ ae_in_region e = true /\
  ae_frame_bytes e <= frame_bound /\ ae_stack_above e = 0 /\
  forall r, In r (ae_regions e) -> ru_hi r <= ru_size r.
Proof. exact abi_rows_ok. Qed.
Print Assumptions C18_abi_x86_64_row.

(* the table is complete: every global symbol of every file/profile has a row, and the permutation entry
   points have a row for each first_round 0..12 (12 = no rounds) in every profile *)
Theorem C18_abi_x86_64_complete : globals_covered abi_globals abi_entries && rounds_covered abi_perms abi_entries = true.
Proof. exact abi_cover_ok. Qed.
Print Assumptions C18_abi_x86_64_complete.

(* the files, profiles and entry points this is about are all in the table: ascon_permute; ascon_x2_permute
   for MAX_SHARES 4, 3, 2; ascon_x3_permute for 4, 3; ascon_x4_permute for 4; the masked-word file *)
Theorem C18_abi_x86_64_files : expected_present = true.
Proof. exact abi_expected_ok. Qed.
Print Assumptions C18_abi_x86_64_files.

(* non-vacuity: the table is not empty, the first row is the 12-round run of ascon_permute with a 24-byte
   frame (three pushes) that reads and writes exactly the 40 state bytes *)
Local Open Scope string_scope.
Example C18_abi_nonvacuous :
  (300 <=? List.length abi_entries)%nat = true /\
  match abi_entries with
  | e :: _ => ae_fn e = "ascon_permute" /\ ae_case e = 0%nat /\ (0 <? ae_frame_bytes e)%nat = true /\
              map (fun r => (ru_lo r, ru_hi r)) (ae_regions e) = [(0, 40)]%nat
  | [] => False
  end.
Proof. vm_compute. repeat split. Qed.
