(* C02 - AEAD decryption inverts encryption, rejects forgeries, wipes plaintext
   (ASCON-128/128a/80pq part; SIV and ISAP are in Properties_C06.v). *)
From AsconV Require Import Model.Aeadm Model.Sivm Proofs.AeadP Proofs.PermP Props.Properties_C01 Props.Properties_C06.
From Coq Require Import ZArith.
Local Open Scope nat_scope.

(* Exactness: decryption succeeds with m exactly when C is the encryption of
   m.  (Hence every modification of ciphertext, tag, AD, nonce or key is
   rejected unless the modified input is itself a genuine encryption, which
   is the strongest statement true of a 128-bit tag.) *)
Theorem C02_exact : forall v K N A C m, variant_ok v -> wf_kn v K N ->
  (Aead.decrypt Perm.perm v K N A C = Some m <->
   length C = length m + 16 /\ Aead.encrypt Perm.perm v K N A m = C).
Proof. intros v K N A C m Hv. exact (decrypt_exact Perm.perm perm_len v (variant_wf v Hv) K N A C m). Qed.
Print Assumptions C02_exact.

Theorem C02_roundtrip : forall v K N A m, variant_ok v -> wf_kn v K N ->
  Aead.decrypt Perm.perm v K N A (Aead.encrypt Perm.perm v K N A m) = Some m.
Proof. intros v K N A m Hv. exact (decrypt_encrypt Perm.perm perm_len v (variant_wf v Hv) K N A m). Qed.
Print Assumptions C02_roundtrip.

(* The C-shaped one-shot decryption: short input is refused before anything
   is written; otherwise 0 and the plaintext exactly when the specification
   accepts, else -1 and an all-zero plaintext buffer. *)
Theorem C02_model : forall v K N A C, variant_ok v -> wf_kn v K N -> bytes_ok K -> bytes_ok C ->
  decrypt_c Perm.perm v K N A C =
  if length C <? 16 then DecShort
  else match Aead.decrypt Perm.perm v K N A C with
       | Some m => DecDone 0 m
       | None => DecDone (-1) (zeros (length C - 16))
       end.
Proof. intros v K N A C Hv. exact (decrypt_c_spec Perm.perm perm_len v (variant_wf v Hv) perm_ok K N A C). Qed.
Print Assumptions C02_model.

(* The tag comparison is exact on every bit of every byte. *)
Theorem C02_check_tag : forall m t1 t2, length t1 = length t2 -> bytes_ok t1 -> bytes_ok t2 ->
  check_tag m t1 t2 = if beq_bytes t1 t2 then (0%Z, m) else ((-1)%Z, map (fun _ => 0%N) m).
Proof. exact check_tag_exact. Qed.
Print Assumptions C02_check_tag.

(* SIV and ISAP: the same exactness, proved in Proofs/SivP.v and Proofs/IsapP.v and
   stated (with their model-level counterparts) in Props/Properties_C06.v *)
Theorem C02_siv_exact : forall v K N A C m, variant_ok v -> wf_kn v K N ->
  (Siv.siv_decrypt Perm.perm v K N A C = Some m <->
   length C = length m + 16 /\ Siv.siv_encrypt Perm.perm v K N A m = C).
Proof. exact Properties_C06.C06_siv_exact. Qed.
Print Assumptions C02_siv_exact.

Theorem C02_isap_exact : forall iv ke ka N A C m, Properties_C06.ivariant_ok iv -> length ke = 40 -> length ka = 40 -> length N = 16 ->
  (Siv.isap_decrypt Perm.perm iv ke ka N A C = Some m <->
   length C = length m + 16 /\ Siv.isap_encrypt Perm.perm iv ke ka N A m = C).
Proof. exact Properties_C06.C06_isap_exact. Qed.
Print Assumptions C02_isap_exact.

Example C02_nonvacuous :
  let K := map N.of_nat (seq 0 20) in let N := map N.of_nat (seq 16 16) in
  let A := map N.of_nat (seq 3 9) in let P := map N.of_nat (seq 100 23) in
  let C := Aead.encrypt Perm.perm a80pq K N A P in
  wf_kn a80pq K N /\ decrypt_c Perm.perm a80pq K N A C = DecDone 0 P /\
  decrypt_c Perm.perm a80pq K N A (xor_at C 38 [1%N]) = DecDone (-1) (zeros 23) /\
  decrypt_c Perm.perm a80pq K N A (firstn 15 C) = DecShort.
Proof. vm_compute. repeat split. Qed.
