(* C02 - AEAD decryption inverts encryption, rejects forgeries, wipes plaintext
   (ASCON-128/128a/80pq part; SIV and ISAP are in Properties_C06.v). *)
From AsconV Require Import Model.Aeadm Model.Sivm Proofs.AeadP Proofs.IncDecP Proofs.PermP Props.Properties_C01 Props.Properties_C06.
From Coq Require Import ZArith.
Local Open Scope nat_scope.

(* Exactness: decryption succeeds with m exactly when C is the encryption of
   m.  (Hence every modification of ciphertext, tag, AD, nonce or key is
   rejected unless the modified input is itself a genuine encryption, which
   is the strongest statement true of a 128-bit tag.) *)
Theorem C02_exact : forall v K N A C m, variant_ok v -> wf_kn v K N ->
  (Aead.decrypt Perm.perm v K N A C = Some m <->
   length C = length m + 16 /\ Aead.encrypt Perm.perm v K N A m = C).
Proof. intros v K N A C m Hv. exact (decrypt_exact Perm.perm perm_len v (variant_wf v Hv) K N A C m). Qed.
Print Assumptions C02_exact.

Theorem C02_roundtrip : forall v K N A m, variant_ok v -> wf_kn v K N ->
  Aead.decrypt Perm.perm v K N A (Aead.encrypt Perm.perm v K N A m) = Some m.
Proof. intros v K N A m Hv. exact (decrypt_encrypt Perm.perm perm_len v (variant_wf v Hv) K N A m). Qed.
Print Assumptions C02_roundtrip.

(* The C-shaped one-shot decryption: short input is refused before anything
   is written; otherwise 0 and the plaintext exactly when the specification
   accepts, else -1 and an all-zero plaintext buffer. *)
Theorem C02_model : forall v K N A C, variant_ok v -> wf_kn v K N -> bytes_ok K -> bytes_ok C ->
  decrypt_c Perm.perm v K N A C =
  if length C <? 16 then DecShort
  else match Aead.decrypt Perm.perm v K N A C with
       | Some m => DecDone 0 m
       | None => DecDone (-1) (zeros (length C - 16))
       end.
Proof. intros v K N A C Hv. exact (decrypt_c_spec Perm.perm perm_len v (variant_wf v Hv) perm_ok K N A C). Qed.
Print Assumptions C02_model.

(* Incremental decryption (ascon*_aead_init / _start / _decrypt_block ... /
   _decrypt_finalize; model functions inc_init, inc_start, inc_decrypt_block,
   inc_decrypt_finalize of Model/Aeadm.v, extracted under the names x_inc_...).
   [inc_decrypt_run v K N A chunks tag] (Proofs/IncDecP.v) is: inc_init with
   nonce N and key K, inc_start with A, one inc_decrypt_block call per chunk of
   the ciphertext body - ANY split, empty chunks included - then
   inc_decrypt_finalize with the tag; it returns finalize's int and the list of
   plaintext chunks the block calls handed back.
   For every variant, key, nonce, AD, chunking and 16-byte tag: call i returns
   as many bytes as it was given, and the result is 0 with the concatenated
   outputs equal to m exactly when the specification decrypts
   body || tag to Some m, and -1 otherwise. *)
Theorem C02_incremental : forall v K N A chunks tag, variant_ok v -> wf_kn v K N -> bytes_ok K ->
  length tag = 16 -> bytes_ok tag ->
  let '(r, outs) := inc_decrypt_run Perm.perm v K N A chunks tag in
  map (@length _) outs = map (@length _) chunks /\
  match Aead.decrypt Perm.perm v K N A (concat chunks ++ tag) with
  | Some m => r = 0%Z /\ concat outs = m
  | None => r = (-1)%Z
  end.
Proof.
  intros v K N A chunks tag Hv Hkn HK Ht Htok. unfold inc_decrypt_run.
  pose proof (packet_decrypt_spec Perm.perm perm_len v (variant_wf v Hv) perm_ok (inc_init v (Some N) (Some K)) A chunks tag Hkn HK Ht Htok) as P.
  destruct (packet_decrypt Perm.perm v (inc_init v (Some N) (Some K)) A chunks tag) as [s' [r outs]].
  exact (conj (proj1 (proj2 (proj2 P))) (proj2 (proj2 (proj2 (proj2 P))))).
Qed.
Print Assumptions C02_incremental.

(* What happens to plaintext that has already been released when the tag turns
   out wrong.  The block calls write their plaintext into the caller's buffers
   before the tag is seen, *_decrypt_finalize calls
   ascon_aead_check_tag(0, 0, tag2, tag, 16) - no buffer - and so, unlike the
   one-shot function (C02_model: buffer zeroed), the incremental API cannot
   take anything back; ascon/aead.h says: "It is very important that the
   plaintext output from decryption be discarded if the authentication tag
   fails to verify.  Applications should not use any of the data before
   verifying the tag."  The model says the same: the released chunks are the
   same for every tag, they are the plaintext p whose genuine encryption is
   body || t' for the one right tag t', and the verdict is 0 iff tag = t'; the
   one-shot decrypt_c on body || tag returns the same verdict and, when it is
   -1, zeros in place of what the incremental calls have handed out. *)
Theorem C02_incremental_released : forall v K N A chunks tag, variant_ok v -> wf_kn v K N -> bytes_ok K ->
  length tag = 16 -> bytes_ok tag ->
  let '(r, outs) := inc_decrypt_run Perm.perm v K N A chunks tag in
  (forall tag', snd (inc_decrypt_run Perm.perm v K N A chunks tag') = outs) /\
  (exists t', length t' = 16 /\ Aead.encrypt Perm.perm v K N A (concat outs) = concat chunks ++ t' /\
              r = if beq_bytes t' tag then 0%Z else (-1)%Z) /\
  decrypt_c Perm.perm v K N A (concat chunks ++ tag) =
    DecDone r (if (r =? 0)%Z then concat outs else zeros (length (concat chunks))).
Proof.
  intros v K N A chunks tag Hv Hkn HK Ht Htok. unfold inc_decrypt_run.
  pose proof (packet_decrypt_spec Perm.perm perm_len v (variant_wf v Hv) perm_ok (inc_init v (Some N) (Some K)) A chunks tag Hkn HK Ht Htok) as P.
  pose proof (packet_decrypt_ok Perm.perm perm_len v (variant_wf v Hv) perm_ok (inc_init v (Some N) (Some K)) A chunks tag Hkn HK Ht Htok) as Q.
  pose proof (fun tag' => packet_decrypt_outs_tag Perm.perm v (inc_init v (Some N) (Some K)) A chunks tag' tag) as R.
  destruct (packet_decrypt Perm.perm v (inc_init v (Some N) (Some K)) A chunks tag) as [s' [r outs]].
  exact (conj R (conj (proj1 (proj2 (proj2 (proj2 P)))) (proj2 (proj2 (proj2 (proj2 Q)))))).
Qed.
Print Assumptions C02_incremental_released.

(* The tag comparison is exact on every bit of every byte. *)
Theorem C02_check_tag : forall m t1 t2, length t1 = length t2 -> bytes_ok t1 -> bytes_ok t2 ->
  check_tag m t1 t2 = if beq_bytes t1 t2 then (0%Z, m) else ((-1)%Z, map (fun _ => 0%N) m).
Proof. exact check_tag_exact. Qed.
Print Assumptions C02_check_tag.

(* SIV and ISAP: the same exactness, proved in Proofs/SivP.v and Proofs/IsapP.v and
   stated (with their model-level counterparts) in Props/Properties_C06.v *)
Theorem C02_siv_exact : forall v K N A C m, variant_ok v -> wf_kn v K N ->
  (Siv.siv_decrypt Perm.perm v K N A C = Some m <->
   length C = length m + 16 /\ Siv.siv_encrypt Perm.perm v K N A m = C).
Proof. exact Properties_C06.C06_siv_exact. Qed.
Print Assumptions C02_siv_exact.

Theorem C02_isap_exact : forall iv ke ka N A C m, Properties_C06.ivariant_ok iv -> length ke = 40 -> length ka = 40 -> length N = 16 ->
  (Siv.isap_decrypt Perm.perm iv ke ka N A C = Some m <->
   length C = length m + 16 /\ Siv.isap_encrypt Perm.perm iv ke ka N A m = C).
Proof. exact Properties_C06.C06_isap_exact. Qed.
Print Assumptions C02_isap_exact.

Example C02_nonvacuous :
  let K := map N.of_nat (seq 0 20) in let N := map N.of_nat (seq 16 16) in
  let A := map N.of_nat (seq 3 9) in let P := map N.of_nat (seq 100 23) in
  let C := Aead.encrypt Perm.perm a80pq K N A P in
  wf_kn a80pq K N /\ decrypt_c Perm.perm a80pq K N A C = DecDone 0 P /\
  decrypt_c Perm.perm a80pq K N A (xor_at C 38 [1%N]) = DecDone (-1) (zeros 23) /\
  decrypt_c Perm.perm a80pq K N A (firstn 15 C) = DecShort /\
  (* incremental: body cut 5 | 0 | 10 | 8 (rate 8: inside, across and at block boundaries); right tag, then one tag bit flipped *)
  let chunks := [firstn 5 C; []; firstn 10 (skipn 5 C); firstn 8 (skipn 15 C)] in
  bytes_ok K /\ bytes_ok (skipn 23 C) /\
  inc_decrypt_run Perm.perm a80pq K N A chunks (skipn 23 C) = (0%Z, [firstn 5 P; []; firstn 10 (skipn 5 P); skipn 15 P]) /\
  inc_decrypt_run Perm.perm a80pq K N A chunks (xor_at (skipn 23 C) 15 [1%N]) = ((-1)%Z, [firstn 5 P; []; firstn 10 (skipn 5 P); skipn 15 P]).
Proof. vm_compute. repeat split; repeat constructor. Qed.
