(* C18 (sub-check 2, permutation semantics) - the checked-in RISC-V and Xtensa assembly permutations compute
   the ASCON permutation for every state and every start round.  The kernels are re-lowered from /repo's
   current .S files on every run (tools/asm_riscv.py, tools/asm_xtensa.py -> Gen/Kern_<name>.v); these theorems
   are about that lowered code.  Trusted: the per-mnemonic lowering tables (no RISC-V / Xtensa assembler or
   emulator is available to cross-check them) and the cut logic of the translators. *)
From Coq Require Import List Arith Bool NArith. Import ListNotations.
From AsconV Require Import Sym.Wexpr Sym.Pipe Sym.PermW Sym.Kernel Sym.KernelP Obl.KernPerm Obl.KernPermRV
  Gen.Kern_rv64i Gen.Kern_rv32i Gen.Kern_rv32e Gen.Kern_xtensa Gen.Kern_xtensa_call0 Spec.Perm.

(* Coverage registration for lib/p_c18.py.  "abi": the translator (tools/asm_rvxt_base.py, frame_facts) refuses to
   produce the chain of a first_round whose run does not return with every callee-saved register, the return address
   and the stack pointer intact, or that touches memory outside the 40 state bytes and its own frame; backend_ok needs
   all 13 chains, so these theorems only compile when those facts held for every first_round (facts and counts:
   build/kern/<name>.json).  That part is a check by the trusted translator, not a Coq theorem. *)
(* covers: src/core/ascon-asm-riscv64i.S perm abi *)
(* covers: src/core/ascon-asm-riscv32i.S perm abi *)
(* covers: src/core/ascon-asm-riscv32e.S perm abi *)
(* covers: src/core/ascon-asm-xtensa.S perm abi *)

(* For every first_round k = 0..12 (12 = no rounds) the lowered ascon_permute, as a chain of straight-line
   segments cut at the labels .L0 .. .L12, maps ANY 40 memory bytes m to enc (round_11 (.. (round_k (dec m))))
   under the file's state layout, whatever the scratch registers oo hold on entry
   (kern_perm_correct = the statement of Properties_C08.perm_correct). *)

(* ascon-asm-riscv64i.S: uint64_t S[5], little-endian *)
Theorem C18_perm_riscv64i : kern_perm_correct KL64 rv64i_segs rv64i_chains.
Proof. exact (backend_sound _ _ _ rv64i_ok). Qed.
Print Assumptions C18_perm_riscv64i.
(* ascon-asm-riscv32i.S: bit-interleaved uint32_t W[10] *)
Theorem C18_perm_riscv32i : kern_perm_correct KL32 rv32i_segs rv32i_chains.
Proof. exact (backend_sound _ _ _ rv32i_ok). Qed.
Print Assumptions C18_perm_riscv32i.
(* ascon-asm-riscv32e.S: same layout, 16 registers, odd halves kept in the state memory between rounds *)
Theorem C18_perm_riscv32e : kern_perm_correct KL32 rv32e_segs rv32e_chains.
Proof. exact (backend_sound _ _ _ rv32e_ok). Qed.
Print Assumptions C18_perm_riscv32e.
(* ascon-asm-xtensa.S, windowed ABI (-D__XTENSA_WINDOWED_ABI__, ESP32): uint64_t S[5] as register pairs *)
Theorem C18_perm_xtensa_windowed : kern_perm_correct KL64 xtensa_segs xtensa_chains.
Proof. exact (backend_sound _ _ _ xtensa_ok). Qed.
Print Assumptions C18_perm_xtensa_windowed.
(* ascon-asm-xtensa.S, call0 ABI (ESP8266) *)
Theorem C18_perm_xtensa_call0 : kern_perm_correct KL64 xtensa_call0_segs xtensa_call0_chains.
Proof. exact (backend_sound _ _ _ xtensa_call0_ok). Qed.
Print Assumptions C18_perm_xtensa_call0.

(* non-vacuity and a link to Spec.Perm: running the lowered chains (scratch registers zero) on the memory image of
   the library's test vector gives the memory image of Spec.Perm.perm's result, for 12, 8 and 0 rounds *)
Example C18_rv_vectors :
  run_backend_on KL64 rv64i_segs rv64i_chains 0 test_in = image_bytes KL64 test_out12 /\
  run_backend_on KL32 rv32i_segs rv32i_chains 0 test_in = image_bytes KL32 test_out12 /\
  run_backend_on KL32 rv32e_segs rv32e_chains 0 test_in = image_bytes KL32 test_out12 /\
  run_backend_on KL64 xtensa_segs xtensa_chains 0 test_in = image_bytes KL64 test_out12 /\
  run_backend_on KL64 xtensa_call0_segs xtensa_call0_chains 0 test_in = image_bytes KL64 test_out12 /\
  run_backend_on KL32 rv32e_segs rv32e_chains 4 test_in = image_bytes KL32 (perm 4 test_in) /\
  run_backend_on KL64 xtensa_segs xtensa_chains 4 test_in = image_bytes KL64 test_out8 /\
  run_backend_on KL64 rv64i_segs rv64i_chains 12 test_in = image_bytes KL64 test_in /\
  image_bytes KL8 test_in = test_in.
Proof. vm_compute. repeat split. Qed.
