(* C18 - assembly backends, sub-checks 2 and 3 (permutation semantics, ABI / frame) for the three AVR5 files; the two
   masked theorems are also C10 statements (masked code computes the unmasked function).

   The .S text of /repo's working tree is re-translated on every run by tools/kern_avr.py through the AVR front end
   tools/asm_avr.py (Gen/Kern_avr5.v, Gen/Masked_avr5_x2.v, Gen/Masked_avr5_x2m3.v, Gen/Masked_avr5_x3.v); the
   theorems are about that translated code: ALL state bytes, ALL shares, ALL preserved randomness, ALL entry register
   contents, every first_round 0..11.  first_round = 12 is outside the documented range of ascon_permute /
   ascon_xN_permute ("between 0 and 11") and the AVR code does not treat it as "no rounds": its round loop tests the
   round constant after the round (see Obl/KernPermAVR.v), hence `k < 12` below where the other back ends have `k <= 12`.

   Layout / share conventions found in the files and stated by the theorems:
     ascon-asm-avr5.S       the state is the 40 canonical big-endian bytes (layout KL8, as ASCON_BACKEND_DIRECT_XOR);
     ascon-x{2,3}-asm-avr5.S  a masked word is ASCON_MASKED_MAX_SHARES x 8 bytes, share j of word i at byte
                            8*MAX_SHARES*i + 8*j, every share in big-endian byte order, shares NOT rotated against each
                            other (ASCON_MASKED_WORD_BACKEND_DIRECT_XOR: ascon_mask64_rotate_share* are the identity),
                            value = XOR of the shares; `preserve` is 8*(shares-1) bytes of randomness that the function
                            reads, rotates every round and writes back.
   Trusted: the AVR lowering table, parser and stuck rules of tools/asm_avr.py (cross-checks: tools/xcheck_avr.py). *)
From Coq Require Import List Arith NArith Bool Lia. Import ListNotations.
From AsconV Require Import Sym.Wexpr Sym.Pipe Sym.PermW Sym.Kernel Sym.KernelP Sym.VKernel Obl.KernPerm Obl.KernMaskedDefs Obl.KernPermAVR
  Gen.Kern_avr5 Gen.KernObl_avr5 Gen.Masked_avr5_x2 Gen.MaskedObl_avr5_x2 Gen.Masked_avr5_x2m3 Gen.MaskedObl_avr5_x2m3
  Gen.Masked_avr5_x3 Gen.MaskedObl_avr5_x3.

(* coverage of the checked-in files (read by lib/p_c18.py).  `perm` = the theorems below; `abi` = the facts established by
   the same symbolic runs in tools/asm_avr.py (build/kern/avr5*.json): at `ret` r2-r17, r28, r29 and SP hold their entry
   values, r1 = 0, the I flag is restored, SP is only updated with interrupts off, every load and store hits the state,
   the preserve buffer or the function's own frame (strictly above SP, at or below the entry SP).  A violated fact
   removes the chain of that first_round, so the theorem below no longer checks, and prints a
   `MISSING kern_perm <name>: first_round=k: ABI: ...` (or `... line N: <instruction>: <stuck reason>`) line. *)
(* covers: src/core/ascon-asm-avr5.S perm abi *)
(* covers: src/masking/ascon-x2-asm-avr5.S perm abi *)
(* covers: src/masking/ascon-x3-asm-avr5.S perm abi *)

(* plain permutation: for every first_round k < 12 there is a translated chain of segments, and running it on ANY 40
   state bytes m (whatever the other entry inputs oo - the registers on entry - are) yields
   enc (round_11 (.. (round_k (dec m)))) under the canonical-bytes layout *)
Definition perm_correct12 (L : klayout) (segs : list seg) (chains : list (nat * list nat)) : Prop :=
  forall k, k < 12 -> exists idx, In (k, idx) chains /\
  forall m oo, widths_of m = mem_widths -> widths_of oo = entry_others (chain_of segs idx) ->
  run_chain (chain_of segs idx) (m ++ oo) = pexec BoolAlg (chain_spec L (seq k (12 - k))) m.

(* ascon-asm-avr5.S *)
Theorem C18_perm_avr5 : perm_correct12 avr5_layout avr5_segs avr5_chains.
Proof. exact (backend_sound12 _ _ _ avr5_ok). Qed.
Print Assumptions C18_perm_avr5.

(* masked permutations: for every first_round k < 12, whatever the shares, the preserved randomness and the entry
   registers are (v = state bytes ++ preserve bytes ++ registers), the unmasked value of the state the translated
   ascon_xN_permute leaves in memory is rounds k..11 of its unmasked value before *)
Definition masked_perm_correct12 (ifs : list viface) (ein eout : nat) (segs : list vseg) (chains : list (nat * list nat)) : Prop :=
  forall k, k < 12 -> exists idx, In (k, idx) chains /\
  forall v, widths_of v = vi_w (vif ifs ein) ->
  run BoolAlg (vrun_chain (vchain_of segs idx) v) (vi_val (vif ifs eout)) =
  pexec BoolAlg (rounds_pipe KL64 (seq k (12 - k))) (run BoolAlg v (vi_val (vif ifs ein))).

(* ascon-x2-asm-avr5.S, ASCON_MASKED_MAX_SHARES = 2 (16-byte masked words) *)
Theorem C18_perm_x2_avr5 : masked_perm_correct12 avr5_x2_ifaces avr5_x2_entry avr5_x2_exit avr5_x2_segs avr5_x2_chains.
Proof. exact (vbackend_sound12 _ _ _ _ _ avr5_x2_ok). Qed.
Print Assumptions C18_perm_x2_avr5.
(* ascon-x2-asm-avr5.S, ASCON_MASKED_MAX_SHARES = 3 (24-byte masked words; also what the default 4 is clamped to on AVR) *)
Theorem C18_perm_x2_avr5_max3 : masked_perm_correct12 avr5_x2m3_ifaces avr5_x2m3_entry avr5_x2m3_exit avr5_x2m3_segs avr5_x2m3_chains.
Proof. exact (vbackend_sound12 _ _ _ _ _ avr5_x2m3_ok). Qed.
Print Assumptions C18_perm_x2_avr5_max3.
(* ascon-x3-asm-avr5.S (ASCON_MASKED_MAX_SHARES = 3) *)
Theorem C18_perm_x3_avr5 : masked_perm_correct12 avr5_x3_ifaces avr5_x3_entry avr5_x3_exit avr5_x3_segs avr5_x3_chains.
Proof. exact (vbackend_sound12 _ _ _ _ _ avr5_x3_ok). Qed.
Print Assumptions C18_perm_x3_avr5.

(* non-vacuity and the conventions, checked: the plain layout is KL8 with a chain for each of the 12 first_round values;
   the value programs of the masked entry and exit interfaces ARE "XOR over the shares of the big-endian words at
   8*MAX_SHARES*i + 8*j" (written out independently below), over 80+8, 120+8 and 120+16 memory bytes; and the
   specification moves a state with 40 distinct bytes *)
Fixpoint be_word (ps : list nat) (acc : wexpr) : wexpr := match ps with [] => acc | p :: r => be_word r (WConcat acc (WIn p)) end.
Definition share_word (maxs i j : nat) : wexpr := be_word (map (fun b => 8 * maxs * i + 8 * j + b) (seq 1 7)) (WIn (8 * maxs * i + 8 * j)).
Definition masked_value (n maxs : nat) : prog :=
  {| p_body := [];
     p_outs := map (fun i => fold_left (fun acc j => WXor acc (share_word maxs i j)) (seq 1 (n - 1)) (share_word maxs i 0)) (seq 0 5) |}.
Definition bits8 (b : N) : list bool := map (N.testbit b) (map N.of_nat (seq 0 8)).
Definition byte_of_bits (l : list bool) : N := fold_right (fun (b : bool) acc => (if b then 1 else 0) + 2 * acc)%N 0%N l.
Definition spec_bytes (L : klayout) (k : nat) (s : list N) : list N :=
  map byte_of_bits (pexec BoolAlg (chain_spec L (seq k (12 - k))) (map bits8 s)).
Definition sample : list N := map N.of_nat (seq 1 40).
Example C18_avr_nonvacuous :
  avr5_layout = KL8 /\ map fst avr5_chains = seq 0 12 /\
  map (fun c => length c) [avr5_x2_chains; avr5_x2m3_chains; avr5_x3_chains] = [12; 12; 12] /\
  [vi_val (vif avr5_x2_ifaces avr5_x2_entry); vi_val (vif avr5_x2_ifaces avr5_x2_exit); vi_val (vif avr5_x2m3_ifaces avr5_x2m3_entry);
   vi_val (vif avr5_x2m3_ifaces avr5_x2m3_exit); vi_val (vif avr5_x3_ifaces avr5_x3_entry); vi_val (vif avr5_x3_ifaces avr5_x3_exit)] =
  [masked_value 2 2; masked_value 2 2; masked_value 2 3; masked_value 2 3; masked_value 3 3; masked_value 3 3] /\
  (vi_w (vif avr5_x2_ifaces avr5_x2_exit), vi_w (vif avr5_x2m3_ifaces avr5_x2m3_exit), vi_w (vif avr5_x3_ifaces avr5_x3_exit)) = (repeat 8 88, repeat 8 128, repeat 8 136) /\
  spec_bytes KL8 0 sample <> sample.
Proof. vm_compute. repeat split. discriminate. Qed.
