(* C13 - freed, cleared and destroyed objects retain nothing derived from
   secrets.  Only statements, closed by [exact]; proofs are in Proofs/ObjP.v.

   [image_after S content h] is the byte image (list of cells; None =
   unspecified: padding, vtable pointer) of an object of type S after: the
   init-time constants, any history h of operations of S's alphabet, each
   writing into the fields it may touch bytes given by the arbitrary function
   [content] of the history so far, and finally S's free / destructor /
   clear() as the C or C++ source performs it.  Every theorem says that this
   image is one constant, for every history and every content.               *)
From Coq Require Import List NArith Arith Bool String.
From AsconV Require Import Model.Objm Proofs.ObjP.
Import ListNotations.
Local Open Scope string_scope.
Local Open Scope nat_scope.

(* ascon_state_t / ascon_free *)
Theorem C13_erase_perm : forall content h, image_after spec_perm content h = E_zero 40.
Proof. exact erase_perm. Qed.
Print Assumptions C13_erase_perm.

(* ascon128_state_t / ascon128_aead_free (padding included: ascon_clean over sizeof) *)
Theorem C13_erase_aead128 : forall content h, image_after spec_aead128 content h = E_zero 80.
Proof. exact erase_aead128. Qed.
Print Assumptions C13_erase_aead128.

(* ascon128a_state_t / ascon128a_aead_free *)
Theorem C13_erase_aead128a : forall content h, image_after spec_aead128a content h = E_zero 80.
Proof. exact erase_aead128a. Qed.
Print Assumptions C13_erase_aead128a.

(* ascon80pq_state_t / ascon80pq_aead_free *)
Theorem C13_erase_aead80pq : forall content h, image_after spec_aead80pq content h = E_zero 80.
Proof. exact erase_aead80pq. Qed.
Print Assumptions C13_erase_aead80pq.

(* ascon_xof_state_t / ascon_xof_free (6 bytes of tail padding are not written) *)
Theorem C13_erase_xof : forall content h, image_after spec_xof content h = E_xoflike.
Proof. exact erase_xof. Qed.
Print Assumptions C13_erase_xof.

(* ascon_xofa_state_t / ascon_xofa_free *)
Theorem C13_erase_xofa : forall content h, image_after spec_xofa content h = E_xoflike.
Proof. exact erase_xofa. Qed.
Print Assumptions C13_erase_xofa.

(* ascon_hash_state_t / ascon_hash_free *)
Theorem C13_erase_hash : forall content h, image_after spec_hash content h = E_xoflike.
Proof. exact erase_hash. Qed.
Print Assumptions C13_erase_hash.

(* ascon_hasha_state_t / ascon_hasha_free *)
Theorem C13_erase_hasha : forall content h, image_after spec_hasha content h = E_xoflike.
Proof. exact erase_hasha. Qed.
Print Assumptions C13_erase_hasha.

(* ascon_prf_state_t / ascon_prf_free *)
Theorem C13_erase_prf : forall content h, image_after spec_prf content h = E_xoflike.
Proof. exact erase_prf. Qed.
Print Assumptions C13_erase_prf.

(* ascon_hmac_state_t / ascon_hmac_free *)
Theorem C13_erase_hmac : forall content h, image_after spec_hmac content h = E_xoflike.
Proof. exact erase_hmac. Qed.
Print Assumptions C13_erase_hmac.

(* ascon_hmaca_state_t / ascon_hmaca_free *)
Theorem C13_erase_hmaca : forall content h, image_after spec_hmaca content h = E_xoflike.
Proof. exact erase_hmaca. Qed.
Print Assumptions C13_erase_hmaca.

(* ascon_kmac_state_t / ascon_kmac_free *)
Theorem C13_erase_kmac : forall content h, image_after spec_kmac content h = E_xoflike.
Proof. exact erase_kmac. Qed.
Print Assumptions C13_erase_kmac.

(* ascon_kmaca_state_t / ascon_kmaca_free *)
Theorem C13_erase_kmaca : forall content h, image_after spec_kmaca content h = E_xoflike.
Proof. exact erase_kmaca. Qed.
Print Assumptions C13_erase_kmaca.

(* ascon_kdf_state_t / ascon_kdf_free *)
Theorem C13_erase_kdf : forall content h, image_after spec_kdf content h = E_xoflike.
Proof. exact erase_kdf. Qed.
Print Assumptions C13_erase_kdf.

(* ascon_kdfa_state_t / ascon_kdfa_free *)
Theorem C13_erase_kdfa : forall content h, image_after spec_kdfa content h = E_xoflike.
Proof. exact erase_kdfa. Qed.
Print Assumptions C13_erase_kdfa.

(* ascon_hkdf_state_t / ascon_hkdf_free *)
Theorem C13_erase_hkdf : forall content h, image_after spec_hkdf content h = E_zero 66.
Proof. exact erase_hkdf. Qed.
Print Assumptions C13_erase_hkdf.

(* ascon_hkdfa_state_t / ascon_hkdfa_free *)
Theorem C13_erase_hkdfa : forall content h, image_after spec_hkdfa content h = E_zero 66.
Proof. exact erase_hkdfa. Qed.
Print Assumptions C13_erase_hkdfa.

(* ascon_random_state_t / ascon_random_free (reserved stays the 0 that init stored) *)
Theorem C13_erase_random : forall content h, image_after spec_random content h = E_random.
Proof. exact erase_random. Qed.
Print Assumptions C13_erase_random.

(* ascon128_isap_aead_key_t / ascon128_isap_aead_free *)
Theorem C13_erase_isap128 : forall content h, image_after spec_isap128 content h = E_zero 80.
Proof. exact erase_isap128. Qed.
Print Assumptions C13_erase_isap128.

(* ascon128a_isap_aead_key_t / ascon128a_isap_aead_free *)
Theorem C13_erase_isap128a : forall content h, image_after spec_isap128a content h = E_zero 80.
Proof. exact erase_isap128a. Qed.
Print Assumptions C13_erase_isap128a.

(* ascon80pq_isap_aead_key_t / ascon80pq_isap_aead_free *)
Theorem C13_erase_isap80pq : forall content h, image_after spec_isap80pq content h = E_zero 80.
Proof. exact erase_isap80pq. Qed.
Print Assumptions C13_erase_isap80pq.

(* ascon_masked_key_128_t / ascon_masked_key_128_free *)
Theorem C13_erase_mkey128 : forall content h, image_after spec_mkey128 content h = E_zero 64.
Proof. exact erase_mkey128. Qed.
Print Assumptions C13_erase_mkey128.

(* ascon_masked_key_160_t / ascon_masked_key_160_free *)
Theorem C13_erase_mkey160 : forall content h, image_after spec_mkey160 content h = E_zero 192.
Proof. exact erase_mkey160. Qed.
Print Assumptions C13_erase_mkey160.

(* ascon_masked_state_t / ascon_masked_state_free (MAX_SHARES = 4) *)
Theorem C13_erase_mstate : forall content h, image_after spec_mstate content h = E_zero 160.
Proof. exact erase_mstate. Qed.
Print Assumptions C13_erase_mstate.

(* C++ ascon::aead128, aead128a, siv128, siv128a - destructor and clear():
   ascon_clean(&m_state, 32); the vtable pointer is not data *)
Theorem C13_erase_cpp_aead_siv_128 : forall nm how content h,
  image_after (mk_cppaead nm how L_cpp128) content h = E_cpp128.
Proof. exact erase_cppaead128. Qed.
Print Assumptions C13_erase_cpp_aead_siv_128.

(* C++ ascon::aead80pq, siv80pq - destructor and clear(): ascon_clean(&m_state, 36); 4 bytes tail padding *)
Theorem C13_erase_cpp_aead_siv_80pq : forall nm how content h,
  image_after (mk_cppaead nm how L_cpp80pq) content h = E_cpp80pq.
Proof. exact erase_cppaead80pq. Qed.
Print Assumptions C13_erase_cpp_aead_siv_80pq.

(* C++ ascon::isap128, isap128a, isap80pq - destructor *)
Theorem C13_erase_cpp_isap_dtor : forall nm how content h,
  image_after (mk_cppisap nm how erase_cppisap_dtor) content h = E_cppisap_dtor.
Proof. exact img_cppisap_dtor. Qed.
Print Assumptions C13_erase_cpp_isap_dtor.

(* C++ ascon::isap*::clear(): the key member becomes the pre-computed key of
   the all-zero key (z: whatever 80 bytes *_isap_aead_init produces from it),
   the nonce becomes zero - a constant that does not depend on the history *)
Theorem C13_erase_cpp_isap_clear : forall nm how z content h,
  image_after (mk_cppisap nm how (erase_cppisap_clear z)) content h = E_cppisap_clear z.
Proof. exact erase_cppisap_clear_img. Qed.
Print Assumptions C13_erase_cpp_isap_clear.

(* C++ ascon::aead128_masked, aead128a_masked - destructor and clear() *)
Theorem C13_erase_cpp_masked_128 : forall nm how content h,
  image_after (mk_cppmasked nm how L_cppmasked128) content h = E_cppmasked128.
Proof. exact erase_cppmasked128. Qed.
Print Assumptions C13_erase_cpp_masked_128.

(* C++ ascon::aead80pq_masked - destructor and clear() *)
Theorem C13_erase_cpp_masked_160 : forall nm how content h,
  image_after (mk_cppmasked nm how L_cppmasked160) content h = E_cppmasked160.
Proof. exact erase_cppmasked160. Qed.
Print Assumptions C13_erase_cpp_masked_160.

(* C++ ascon::hash, hasha (members m_state.xof.state, count, mode) and the xof, xofa templates (members m_state.state, count, mode) - destructor *)
Theorem C13_erase_cpp_hash_xof : forall nm p content h, p = "m_state.xof." \/ p = "m_state." ->
  image_after (mk_cpphash nm p) content h = E_xoflike.
Proof. exact erase_cpphash. Qed.
Print Assumptions C13_erase_cpp_hash_xof.

(* The whole table (every (type, free|dtor|clear) pair the check exercises):
   constant image, and the two-run form the harness observes - two runs of one
   history with different contents leave identical objects. *)
Theorem C13_erase_all : forall z S, In S (all_specs z) ->
  forall content content' h,
  image_after S content h = erased_image S /\ image_after S content h = image_after S content' h.
Proof. exact erase_all. Qed.
Print Assumptions C13_erase_all.

(* In every constant above each specified byte is zero, except the ISAP
   clear() key bytes (which are z) *)
Theorem C13_specified_zero :
  Forall (fun E => Forall (fun c => snd c = 0%N) (specified E))
    [E_zero 40; E_zero 80; E_xoflike; E_zero 66; E_random; E_zero 64; E_zero 192; E_zero 160;
     E_cpp128; E_cpp80pq; E_cppisap_dtor; E_cppmasked128; E_cppmasked160].
Proof. exact specified_zero. Qed.
Print Assumptions C13_specified_zero.

(* non-vacuity: on a real history the model object holds non-zero data in
   every Data field before the free (all 73 specified bytes - state 40, key
   16, nonce 16, posn 1 - are non-zero) and the free wipes all 80 bytes; the
   side condition is not trivially true - a hkdf free that skipped the out
   field, or a destructor that cleaned only the key, is rejected. *)
Example C13_nonvacuous :
  let h := [AInit 1 1; AStart 19; AEncrypt 41; AEncFinal] in
  List.length (filter (fun c => match c with (_, b) => negb (N.eqb b 0) end) (specified (image_before spec_aead128 demo_content h))) = 73 /\
  image_after spec_aead128 demo_content h = E_zero 80 /\
  spec_ok (mkSpec "hkdf" "free" L_hkdf op_hkdf parse_hkdf writes_hkdf
                  [CleanField "prk"; ZeroField "counter"; ZeroField "posn"]) = false /\
  spec_ok (mkSpec "cpp_aead128" "dtor" L_cpp128 op_cpp parse_cpp w_cppaead [CleanField "m_state.key"]) = false.
Proof. vm_compute. repeat split; reflexivity. Qed.
