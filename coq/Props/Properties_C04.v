(* C04 - PRF, MAC, HMAC and KMAC compute their specified functions; verify is exact. *)
From AsconV Require Import Model.Macm Proofs.AeadP Proofs.XofP Proofs.MacP Proofs.PermP.
From Coq Require Import ZArith.
Local Open Scope nat_scope.

(* ASCON-Prf for every 16-byte key, declared length, message, split of the
   message into absorb calls and of the output into squeeze calls *)
Theorem C04_prf : forall K L chunks outs, length K = 16 ->
  xof_run Perm.perm vprf (prf_init Perm.perm K L) chunks outs =
  Mac.prf Perm.perm K L (concat chunks) (fold_right Nat.add 0 outs).
Proof. exact (prf_run_spec Perm.perm perm_len). Qed.
Print Assumptions C04_prf.

(* ASCON-PrfShort: error (nothing written) when the input or output exceeds 16 bytes *)
Theorem C04_prf_short : forall K msg n, length K = 16 ->
  prf_short_c Perm.perm K msg n = Mac.prf_short Perm.perm K msg n.
Proof. exact (prf_short_spec Perm.perm perm_len). Qed.
Print Assumptions C04_prf_short.

Theorem C04_prf_short_errors : forall K msg n, 16 < length msg \/ 16 < n -> Mac.prf_short Perm.perm K msg n = None.
Proof.
  intros K msg n H. unfold Mac.prf_short.
  destruct (Nat.ltb_spec 16 (length msg)); destruct (Nat.ltb_spec 16 n); cbn [orb]; try reflexivity. lia.
Qed.
Print Assumptions C04_prf_short_errors.

Theorem C04_mac : forall K msg, length K = 16 -> mac_c Perm.perm K msg = Mac.mac Perm.perm K msg.
Proof. intros K msg HK. exact (prf_oneshot_spec Perm.perm perm_len K 16 msg 16 HK). Qed.
Print Assumptions C04_mac.

(* verification returns 0 exactly for the correct 16-byte tag, -1 otherwise *)
Theorem C04_verify : forall tag K msg, length K = 16 -> length tag = 16 -> bytes_ok tag ->
  (mac_verify_c Perm.perm tag K msg = 0%Z <-> tag = Mac.mac Perm.perm K msg) /\
  (mac_verify_c Perm.perm tag K msg = 0%Z \/ mac_verify_c Perm.perm tag K msg = (-1)%Z).
Proof.
  intros tag K msg HK Ht Bt. rewrite (mac_verify_exact Perm.perm perm_len perm_ok tag K msg HK Ht Bt).
  destruct (beq_bytes tag (Mac.mac Perm.perm K msg)) eqn:E.
  - apply beq_bytes_iff in E. split; [split; auto|left; reflexivity].
  - split; [|right; reflexivity]. split; [discriminate|]. intros C. apply beq_bytes_iff in C. congruence.
Qed.
Print Assumptions C04_verify.

(* HMAC = RFC 2104 over ASCON-HASH / HASHA with B = 64, every key length *)
Theorem C04_hmac : forall v key chunks, v = vxof \/ v = vxofa ->
  hmac_run Perm.perm v key chunks = Mac.hmac (Hash.hash Perm.perm v) key (concat chunks).
Proof. intros v key chunks Hx. exact (hmac_run_spec Perm.perm perm_len v Hx key chunks). Qed.
Print Assumptions C04_hmac.

(* KMAC: both initialisation branches, then any absorb/squeeze split *)
Theorem C04_kmac : forall v key custom L chunks outs, v = vxof \/ v = vxofa ->
  xof_run Perm.perm v (kmac_init Perm.perm v key custom L) chunks outs =
  Mac.kmac Perm.perm v key (concat chunks) custom L (fold_right Nat.add 0 outs).
Proof.
  intros v key custom L chunks outs Hx.
  rewrite (kmac_init_spec Perm.perm perm_len v Hx key custom L).
  exact (kmac_run_spec Perm.perm perm_len v Hx key custom L chunks outs).
Qed.
Print Assumptions C04_kmac.

Example C04_nonvacuous :
  let K := map N.of_nat (seq 0 16) in let m := map N.of_nat (seq 7 45) in
  length K = 16 /\
  xof_run Perm.perm vprf (prf_init Perm.perm K 0) [firstn 33 m; skipn 33 m] [5; 20] = Mac.prf Perm.perm K 0 m 25 /\
  hmac_run Perm.perm vxofa (map N.of_nat (seq 0 70)) [m] = Mac.hmac (Hash.hash Perm.perm vxofa) (map N.of_nat (seq 0 70)) m.
Proof. vm_compute. repeat split. Qed.
