(* Facts about the mixer model (Model/Mixerm.v). *)
From Coq Require Import List NArith Bool Lia Arith.
From AsconV Require Import Bits.Bytes Model.Mixerm Proofs.AeadP.
From AsconV Require Spec.Perm Proofs.PermP Proofs.PermInvP.
Import ListNotations.
Local Open Scope nat_scope.

Lemma set_at_zeros8 seed : length seed = 32 -> set_at (zeros 40) 8 seed = zeros 8 ++ seed.
Proof. intros H. do 33 (destruct seed as [|? seed]; try discriminate). reflexivity. Qed.

Section WithPerm.
Variable perm : nat -> bytes -> bytes.

(* the refill rule: a word is never read across, or again from, bytes that were already handed out since the last permutation *)
Theorem mix_gen64_fresh k s : m_posn s <= 8 ->
  let s' := fst (mix_gen64 perm k s) in
  m_posn s' = 8 /\ (m_posn s = 0 -> m_st s' = m_st s) /\ (0 < m_posn s -> m_st s' = perm 6 (m_st s)).
Proof.
  intros H. unfold mix_gen64, mix_refill. cbn [fst m_posn m_st].
  destruct (Nat.eq_dec (m_posn s) 0) as [e|ne].
  - rewrite e. change ((8 <? 0 + 8) || negb (0 mod 8 =? 0)) with false. cbn iota. repeat split; auto. lia.
  - assert (R : ((8 <? m_posn s + 8) || negb (m_posn s mod 8 =? 0)) = true).
    { apply orb_true_iff. left. apply Nat.ltb_lt. lia. }
    rewrite R. repeat split; auto. lia.
Qed.

Theorem mix_gen32_fresh k s : m_posn s <= 8 ->
  let s' := fst (mix_gen32 perm k s) in
  (m_posn s <= 4 -> m_st s' = m_st s /\ m_posn s' = m_posn s + 4) /\
  (4 < m_posn s -> m_st s' = perm 6 (m_st s) /\ m_posn s' = 4).
Proof.
  intros H. unfold mix_gen32, mix_refill. cbn [fst m_posn m_st]. rewrite orb_false_r. split; intros C.
  - assert (R : (8 <? m_posn s + 4) = false) by (apply Nat.ltb_ge; lia). rewrite R. auto.
  - assert (R : (8 <? m_posn s + 4) = true) by (apply Nat.ltb_lt; lia). rewrite R. auto.
Qed.

Lemma mix_init_st seed : m_st (mix_init perm seed) = perm 0 (set_at (zeros 40) 8 seed).
Proof. reflexivity. Qed.

(* after a reseed the previous rate bytes are gone: states that differ only there give the same generator *)
Theorem mix_reseed_erases_rate s s' seed : length (m_st s) = 40 -> length (m_st s') = 40 ->
  skipn 8 (m_st s) = skipn 8 (m_st s') -> mix_reseed perm s seed = mix_reseed perm s' seed.
Proof.
  intros L L' E. unfold mix_reseed. f_equal. f_equal.
  remember (m_st s) as a. remember (m_st s') as b. clear Heqa Heqb.
  do 8 (destruct a as [|? a]; [discriminate|]). do 8 (destruct b as [|? b]; [discriminate|]).
  cbn [skipn] in E. subst b. reflexivity.
Qed.
End WithPerm.

(* every byte of the 32-byte system answer is in the generator's first state: init is injective in the seed
   (the permutation is a bijection, Proofs/PermInvP.v) *)
Theorem mix_init_injective s1 s2 : length s1 = 32 -> bytes_ok s1 -> length s2 = 32 -> bytes_ok s2 ->
  mix_init Perm.perm s1 = mix_init Perm.perm s2 -> s1 = s2.
Proof.
  intros L1 B1 L2 B2 E. apply (f_equal m_st) in E. rewrite !mix_init_st in E. rename E into E'.
  rewrite !set_at_zeros8 in E' by assumption.
  apply PermInvP.perm_injective in E'.
  - now apply app_inv_head in E'.
  - rewrite app_length, L1. reflexivity.
  - apply Forall_app. split; [repeat constructor | exact B1].
  - rewrite app_length, L2. reflexivity.
  - apply Forall_app. split; [repeat constructor | exact B2].
Qed.
