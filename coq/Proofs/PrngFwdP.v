(* Forward security of the re-key step, as far as it is a fact about functions: zero-the-rate-then-permute forgets the 8 rate
   bytes and nothing else (the permutation is a bijection, Proofs/PermInvP.v). *)
From Coq Require Import List NArith Bool Lia Arith.
From AsconV Require Import Bits.Bytes Spec.Perm Model.Prngm Proofs.AeadP Proofs.PermP Proofs.PermInvP.
Import ListNotations.
Local Open Scope nat_scope.

Lemma zero_rate_eq s : length s = 40 -> zero_rate s = zeros 8 ++ skipn 8 s.
Proof. intros H. unfold zero_rate. do 8 (destruct s as [|? s]; [discriminate|]). unfold zeros. cbn [repeat set_at app skipn]. now destruct s. Qed.

Lemma zero_rate_len s : length s = 40 -> length (zero_rate s) = 40.
Proof. intros H. rewrite zero_rate_eq by exact H. rewrite app_length, skipn_length, H. reflexivity. Qed.

Lemma zero_rate_ok s : length s = 40 -> bytes_ok s -> bytes_ok (zero_rate s).
Proof.
  intros H B. rewrite zero_rate_eq by exact H. apply Forall_app. split.
  - repeat constructor.
  - now apply Sym.Bridge.Forall_skipn'.
Qed.

(* one step: the result does not depend on the rate bytes of the input ... *)
Theorem rekey_step_erases_rate s s' : length s = 40 -> length s' = 40 -> skipn 8 s = skipn 8 s' ->
  perm 0 (zero_rate s) = perm 0 (zero_rate s').
Proof. intros L L' E. now rewrite !zero_rate_eq, E by assumption. Qed.

(* ... and determines the 32 capacity bytes exactly *)
Theorem rekey_step_keeps_capacity s s' : length s = 40 -> bytes_ok s -> length s' = 40 -> bytes_ok s' ->
  perm 0 (zero_rate s) = perm 0 (zero_rate s') -> skipn 8 s = skipn 8 s'.
Proof.
  intros L B L' B' E.
  apply perm_injective in E; try (now apply zero_rate_len); try (now apply zero_rate_ok).
  rewrite !zero_rate_eq in E by assumption. now apply app_inv_head in E.
Qed.

(* the capacity bytes before the step are computable from the state after it *)
Theorem rekey_step_capacity_recovered s : length s = 40 -> bytes_ok s ->
  skipn 8 (perm_inv 0 (perm 0 (zero_rate s))) = skipn 8 s.
Proof.
  intros L B. rewrite perm_inv_perm; [|now apply zero_rate_len|now apply zero_rate_ok].
  rewrite zero_rate_eq by exact L. reflexivity.
Qed.

(* the whole re-key (four steps) is independent of the rate it started from *)
Theorem rekey_erases_rate s s' : length s = 40 -> length s' = 40 -> skipn 8 s = skipn 8 s' ->
  rekey_st perm s = rekey_st perm s'.
Proof. intros L L' E. unfold rekey_st. now rewrite (rekey_step_erases_rate s s' L L' E). Qed.
