(* Model/Sivm.v refines Spec/Siv.v; exactness of SIV and ISAP decryption. *)
From AsconV Require Import Model.Sivm Proofs.SpongeP Proofs.SqueezeP Proofs.AeadP Proofs.MacP.
From Coq Require Import ZArith.
Local Open Scope nat_scope.

Lemma xorl_len a b : length (xorl a b) = Nat.min (length a) (length b).
Proof.
  revert b; induction a as [|x a IH]; intros b; [reflexivity|]. destruct b as [|y b]; [reflexivity|].
  cbn [xorl length]. now rewrite IH.
Qed.

Lemma xorl_invol a ks : length a <= length ks -> xorl (xorl a ks) ks = a.
Proof.
  revert ks; induction a as [|x a IH]; intros ks H; [reflexivity|]. destruct ks as [|k ks]; [cbn in H; lia|].
  cbn [xorl]. rewrite IH by (cbn in H; lia). f_equal.
  now rewrite N.lxor_assoc, N.lxor_nilpotent, N.lxor_0_r.
Qed.

Lemma siv_variant_wf v pass : wf_variant v -> v_iv v <> [] -> wf_variant (siv_variant v pass).
Proof.
  intros (H1 & H2 & H3 & H4) Hne. unfold wf_variant, siv_variant. cbn [v_iv v_klen v_rate v_pb].
  destruct (v_iv v) as [|b rest]; [congruence|]. cbn [length] in *. auto.
Qed.

Section WithPerm.
Variable perm : nat -> bytes -> bytes.
Hypothesis perm_len : forall r s, length s = 40 -> length (perm r s) = 40.
Variable v : aead_variant.
Hypothesis Hv : wf_variant v.
Hypothesis Hiv : v_iv v <> [].

Local Notation pb := (perm (v_pb v)).
Local Notation rate := (v_rate v).

Lemma r0 : 0 < rate. Proof. destruct Hv as (_ & H & _); exact H. Qed.
Lemma r40 : rate <= 40. Proof. destruct Hv as (_ & _ & H & _); exact H. Qed.
Lemma pbl : forall s, length s = 40 -> length (pb s) = 40. Proof. intros; now apply perm_len. Qed.

Lemma siv_init_c_spec v' K N : wf_variant v' -> wf_kn v' K N ->
  siv_init_c perm v' K N = init_state perm v' K N.
Proof.
  intros (H1 & _) (HK & HN). unfold siv_init_c, init_state. rewrite start_state_concat by lia. reflexivity.
Qed.

Lemma wf_kn_siv pass K N : wf_kn v K N -> wf_kn (siv_variant v pass) K N.
Proof. intros H; exact H. Qed.

Theorem siv_tag_c_spec K N A P : wf_kn v K N ->
  siv_tag_c perm v K N A P = siv_tag perm v K N A P.
Proof.
  intros Hkn. unfold siv_tag_c, siv_tag. set (v1 := siv_variant v 1).
  assert (Hv1 : wf_variant v1) by (apply siv_variant_wf; auto).
  rewrite (siv_init_c_spec v1 K N Hv1 Hkn).
  assert (E : xor_at (match A with [] => init_state perm v1 K N | _ :: _ => aead_absorb_c perm v (init_state perm v1 K N) A end) 39 [1%N]
              = pre_state perm v1 K N A).
  { unfold pre_state, separator. f_equal. destruct A as [|a A]; [reflexivity|].
    rewrite (aead_absorb_c_spec perm perm_len v Hv) by (try discriminate; apply (init_state_len perm perm_len v1 Hv1); exact Hkn).
    reflexivity. }
  rewrite E.
  pose proof (pre_state_len perm perm_len v1 Hv1 K N A Hkn) as Lp.
  rewrite (aligned_c_serial bf_enc pb rate 40 pbl r0 r40) by exact Lp.
  pose proof (serial_spec bf_enc pb rate 40 pbl r0 r40 (pre_state perm v1 K N A) P Lp) as SP.
  destruct (serial bf_enc pb rate (pre_state perm v1 K N A, 0) P) as [[s1 pos] o]. destruct SP as [_ SP].
  rewrite <- SP. reflexivity.
Qed.

Lemma siv_keystream_len K T n : wf_kn v K T -> length (siv_keystream perm v K T n) = n.
Proof.
  intros Hkn. unfold siv_keystream. apply (spec_squeeze_length pb rate 40 pbl r0 r40).
  apply perm_len. apply (init_state_len perm perm_len (siv_variant v 2) (siv_variant_wf v 2 Hv Hiv)). exact Hkn.
Qed.

Theorem siv_crypt_c_spec K T src : wf_kn v K T ->
  siv_crypt_c perm v K T src = xorl src (siv_keystream perm v K T (length src)).
Proof.
  intros Hkn. unfold siv_crypt_c, siv_keystream.
  rewrite (siv_init_c_spec (siv_variant v 2) K T (siv_variant_wf v 2 Hv Hiv) Hkn).
  rewrite (lazy_aligned_c_spec pb rate 40 pbl r0 r40); [reflexivity|].
  apply (init_state_len perm perm_len (siv_variant v 2) (siv_variant_wf v 2 Hv Hiv)). exact Hkn.
Qed.

Lemma siv_tag_len K N A P : wf_kn v K N -> length (siv_tag perm v K N A P) = 16.
Proof.
  intros Hkn. unfold siv_tag. set (v1 := siv_variant v 1).
  assert (Hv1 : wf_variant v1) by (apply siv_variant_wf; auto).
  apply (finalize_len perm perm_len v1).
  destruct (spec_duplex_outlen bf_enc pb rate 40 pbl r0 r40 (pre_state perm v1 K N A) P
              (pre_state_len perm perm_len v1 Hv1 K N A Hkn)) as [_ H]. exact H.
Qed.

(* C06: the C-shaped SIV encryption is the documented two-pass construction *)
Theorem siv_encrypt_c_spec K N A P : wf_kn v K N ->
  siv_encrypt_c perm v K N A P = (siv_encrypt perm v K N A P, length P + 16).
Proof.
  intros Hkn. unfold siv_encrypt_c, siv_encrypt. cbv zeta. rewrite siv_tag_c_spec by exact Hkn.
  rewrite siv_crypt_c_spec; [reflexivity|].
  split; [exact (proj1 Hkn)|apply siv_tag_len; exact Hkn].
Qed.

(* C02 for SIV: decryption succeeds exactly on genuine encryptions *)
Theorem siv_decrypt_exact K N A C m : wf_kn v K N ->
  siv_decrypt perm v K N A C = Some m <->
  (length C = length m + 16 /\ siv_encrypt perm v K N A m = C).
Proof.
  intros Hkn. pose proof Hkn as [HK HN]. unfold siv_decrypt, siv_encrypt. split.
  - destruct (Nat.ltb_spec (length C) 16) as [Hs|Hs]; [discriminate|].
    set (n := length C - 16). set (T := skipn n C).
    assert (LT : length T = 16) by (unfold T; rewrite skipn_length; unfold n; lia).
    assert (KT : wf_kn v K T) by (split; auto).
    destruct (beq_bytes _ T) eqn:B; [|discriminate]. intros E. injection E as E1. subst m.
    apply beq_bytes_iff in B.
    set (X := xorl (firstn n C) (siv_keystream perm v K T n)) in *.
    assert (Lm : length X = n).
    { unfold X. rewrite xorl_len, siv_keystream_len, firstn_length by exact KT. unfold n. lia. }
    split; [unfold n in Lm; lia|].
    rewrite B, Lm. unfold X at 1.
    rewrite xorl_invol by (rewrite siv_keystream_len, firstn_length by exact KT; lia).
    apply firstn_skipn.
  - intros [Hlen H].
    set (T := siv_tag perm v K N A m) in *.
    assert (LT : length T = 16) by (apply siv_tag_len; exact Hkn).
    assert (KT : wf_kn v K T) by (split; auto).
    destruct (Nat.ltb_spec (length C) 16) as [Hs|Hs]; [lia|].
    assert (Lc : length (xorl m (siv_keystream perm v K T (length m))) = length m).
    { rewrite xorl_len, siv_keystream_len by exact KT. lia. }
    assert (Hn : length C - 16 = length m) by lia. rewrite Hn.
    assert (F : firstn (length m) C = xorl m (siv_keystream perm v K T (length m))).
    { rewrite <- H. rewrite <- Lc at 1. rewrite firstn_app, Nat.sub_diag, firstn_O, app_nil_r. apply firstn_all. }
    assert (S : skipn (length m) C = T).
    { rewrite <- H. rewrite <- Lc at 1. rewrite skipn_app, Nat.sub_diag, skipn_all. reflexivity. }
    rewrite F, S. rewrite xorl_invol by (rewrite siv_keystream_len by exact KT; lia).
    fold T. rewrite (proj2 (beq_bytes_iff T T) eq_refl). reflexivity.
Qed.

Hypothesis perm_ok : forall r s, bytes_ok (perm r s).

Theorem siv_decrypt_c_spec K N A C : wf_kn v K N -> bytes_ok K -> bytes_ok C ->
  siv_decrypt_c perm v K N A C =
  if length C <? 16 then DecShort
  else match siv_decrypt perm v K N A C with
       | Some m => DecDone 0 m
       | None => DecDone (-1) (zeros (length C - 16))
       end.
Proof.
  intros Hkn HK HC. pose proof Hkn as [HKl HNl]. unfold siv_decrypt_c, siv_decrypt.
  destruct (Nat.ltb_spec (length C) 16) as [Hs|Hs]; [reflexivity|].
  set (n := length C - 16). set (T := skipn n C).
  assert (LT : length T = 16) by (unfold T; rewrite skipn_length; unfold n; lia).
  assert (KT : wf_kn v K T) by (split; auto).
  rewrite siv_crypt_c_spec by exact KT. rewrite firstn_length. replace (Nat.min n (length C)) with n by (unfold n; lia).
  set (m := xorl (firstn n C) (siv_keystream perm v K T n)).
  rewrite siv_tag_c_spec by exact Hkn.
  rewrite check_tag_exact.
  - destruct (beq_bytes _ T); [reflexivity|]. rewrite map_zero_zeros. f_equal. f_equal.
    unfold m. rewrite xorl_len, siv_keystream_len, firstn_length by exact KT. unfold n. lia.
  - rewrite siv_tag_len by exact Hkn. now rewrite LT.
  - unfold siv_tag. apply (finalize_ok perm (siv_variant v 1) perm_ok). exact HK.
  - unfold T. now apply bytes_ok_skipn.
Qed.

End WithPerm.
