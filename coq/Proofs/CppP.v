(* Model/Cppm.v: the code machine of the C++ classes cpp_agrees with the documented
   machine on every documented history (C17) - or not, where the code as found
   departs from its documentation. *)
From AsconV Require Import Model.Cppm Proofs.AeadP.
From Coq Require Import ZArith.
Local Open Scope nat_scope.

(* ---- small facts ------------------------------------------------------- *)

Lemma zeros_len n : length (zeros n) = n.
Proof. unfold zeros. apply repeat_length. Qed.

Lemma resize_len old n : length (cpp_resize old n) = n.
Proof. unfold cpp_resize. rewrite app_length, firstn_length, zeros_len. lia. Qed.

Lemma set_at_full s d : length d = length s -> set_at s 0 d = d.
Proof.
  intro H. rewrite <- (app_nil_r s). rewrite set_at_0_full by exact H. apply app_nil_r.
Qed.

Lemma rd_some b n : n <= length b -> cpp_rd (Some b) n = CppOk (firstn n b).
Proof.
  intro H. unfold cpp_rd. destruct (length b <? n) eqn:E; [apply Nat.ltb_lt in E; lia|reflexivity].
Qed.

Lemma firstn_len_le {A} n (l : list A) : n <= length l -> length (firstn n l) = n.
Proof. intro H. rewrite firstn_length. lia. Qed.

(* ---- nonce members ----------------------------------------------------- *)

Local Opaque firstn.
Lemma set_nonce_ok p len n : cpp_doc_set_nonce p len = Some n -> cpp_code_set_nonce p len = CppOk n.
Proof.
  unfold cpp_doc_set_nonce, cpp_code_set_nonce. intro H.
  destruct (len =? 0) eqn:E0.
  - apply Nat.eqb_eq in E0. subst len. injection H as <-. reflexivity.
  - apply Nat.eqb_neq in E0. destruct p as [b|]; [|discriminate].
    destruct (length b <? Nat.min len 16) eqn:Em; [discriminate|]. apply Nat.ltb_ge in Em.
    injection H as <-. rewrite firstn_length.
    destruct (16 <=? len) eqn:E16.
    + apply Nat.leb_le in E16. rewrite Nat.min_r in Em by exact E16.
      rewrite rd_some by exact Em.
      destruct (Nat.min len (length b) <? 16) eqn:E; [apply Nat.ltb_lt in E; lia|].
      rewrite firstn_firstn. now rewrite Nat.min_l by exact E16.
    + apply Nat.leb_gt in E16. rewrite Nat.min_l in Em by lia.
      rewrite rd_some by exact Em. cbn [cpp_obind].
      destruct (Nat.min len (length b) <? 16) eqn:E; [|apply Nat.ltb_ge in E; lia].
      now rewrite Nat.min_l by exact Em.
Qed.

Local Transparent firstn.

Lemma be_encode_app a : forall b x, be_encode (a + b) x = be_encode a (N.shiftr x (8 * N.of_nat b)) ++ be_encode b x.
Proof.
  intros b. induction b as [|b IH]; intro x.
  - rewrite Nat.add_0_r. cbn [be_encode N.of_nat]. rewrite N.mul_0_r, N.shiftr_0_r. now rewrite app_nil_r.
  - rewrite Nat.add_succ_r. cbn [be_encode]. rewrite IH. rewrite <- app_assoc.
    rewrite N.shiftr_shiftr. replace (8 + 8 * N.of_nat b)%N with (8 * N.of_nat (S b))%N by lia. reflexivity.
Qed.

Lemma set_counter_ok c : (c < 2 ^ 64)%N -> cpp_code_set_counter c = cpp_doc_set_counter c.
Proof.
  intro H. unfold cpp_code_set_counter, cpp_doc_set_counter.
  change 16 with (8 + 8). rewrite be_encode_app.
  replace (N.shiftr c (8 * N.of_nat 8)) with 0%N; [reflexivity|].
  symmetry. change (8 * N.of_nat 8)%N with 64%N. apply N.shiftr_eq_0.
  destruct (N.eq_dec c 0) as [->|Hc]; [reflexivity|]. apply N.log2_lt_pow2; lia.
Qed.

(* ---- the generic simulation -------------------------------------------- *)
Section CipherP.
Variable R ckey : Type.
Variable klen : nat.
Variable c_encrypt : ckey -> bytes -> bytes -> bytes -> bytes * nat.
Variable c_decrypt : ckey -> bytes -> bytes -> bytes -> dec_result.
Variable K : cpp_keying R ckey.
Variable has_saved ctor_has_len : bool.
Variable key_of_doc : cpp_dkey -> ckey.
Variable keq : ckey -> ckey -> Prop.

(* what is assumed of the C functions: they depend on the key object only
   through "the same key", *clen = mlen + 16 bytes are written, decryption
   writes clen - 16 bytes and refuses inputs shorter than the tag *)
Record cfun_ok : Prop := {
  cf_trans : forall a b c, keq a b -> keq b c -> keq a c;
  cf_enc : forall a b, keq a b -> forall n ad m, c_encrypt a n ad m = c_encrypt b n ad m;
  cf_dec : forall a b, keq a b -> forall n ad c, c_decrypt a n ad c = c_decrypt b n ad c;
  cf_enc_len : forall k n ad m, length (fst (c_encrypt k n ad m)) = length m + 16;
  cf_dec_len : forall k n ad c r m, c_decrypt k n ad c = DecDone r m -> length m = length c - 16;
  cf_dec_short : forall k n ad c, length c < 16 -> c_decrypt k n ad c = DecShort
}.

(* what the key-handling members must do *)
Record keying_ok : Prop := {
  ko_default : keq (kg_default K) (key_of_doc (CppRawKey (zeros klen)));
  ko_ctor : forall junk r p len k, cpp_doc_ctor_key klen has_saved ctor_has_len p len = Some k ->
            exists ck, kg_ctor K junk r p len = CppOk ck /\ keq ck (key_of_doc k);
  ko_set_true : forall ck r p len k, cpp_doc_set_key klen has_saved p len = Some (Some k) ->
            exists ck', kg_set K ck r p len = CppOk (true, ck') /\ keq ck' (key_of_doc k);
  ko_set_false : forall ck r p len, cpp_doc_set_key klen has_saved p len = Some None ->
            kg_set K ck r p len = CppOk (false, ck);
  ko_rand : forall r ck, keq (kg_randomize K r ck) ck
}.

Hypothesis CF : cfun_ok.
Hypothesis KO : keying_ok.

Notation cpp_agrees := (cpp_agrees ckey key_of_doc keq).
Notation cpp_code_step := (cpp_code_step R ckey c_encrypt c_decrypt K).
Notation cpp_doc_step := (cpp_doc_step R ckey klen c_encrypt c_decrypt has_saved key_of_doc).

Lemma step_sim o d x d' r : cpp_agrees o d -> cpp_doc_step d x = Some (d', r) ->
  exists o', cpp_code_step o x = CppOk (o', r) /\ cpp_agrees o' d'.
Proof.
  intros Ha Hd. pose proof Ha as [Hk Hn]. destruct x as [rr p len|p len|c|ad m|cold ad m|ad c|mold ad c|rr|]; cbn [Cppm.cpp_doc_step] in Hd; cbn [Cppm.cpp_code_step].
  - (* set_key *)
    destruct (cpp_doc_set_key klen has_saved p len) as [[k|]|] eqn:E; [| |discriminate]; inversion Hd; subst; clear Hd.
    + destruct (ko_set_true KO (cpo_key o) rr p len k E) as [ck' [H1 H2]]. rewrite H1. cbn.
      eexists. split; [reflexivity|]. split; cbn [cpd_key cpd_nonce cpo_key cpo_nonce cpp_bump]; [intros k0 Hk0; inversion Hk0; subst; exact H2|exact Hn].
    + rewrite (ko_set_false KO (cpo_key o) rr p len E). cbn.
      eexists. split; [reflexivity|]. split; cbn [cpd_key cpd_nonce cpo_key cpo_nonce cpp_bump]; [exact Hk|exact Hn].
  - (* set_nonce *)
    destruct (cpp_doc_set_nonce p len) as [n|] eqn:E; [|discriminate]. inversion Hd; subst; clear Hd.
    rewrite (set_nonce_ok _ _ _ E). cbn. eexists. split; [reflexivity|].
    split; cbn [cpd_key cpd_nonce cpo_key cpo_nonce cpp_bump]; [exact Hk|intros n0 H0; now inversion H0].
  - (* set_counter *)
    destruct (c <? 2 ^ 64)%N eqn:E; [|discriminate]. apply N.ltb_lt in E. inversion Hd; subst; clear Hd.
    eexists. split; [reflexivity|]. split; cbn [cpd_key cpd_nonce cpo_key cpo_nonce cpp_bump]; [exact Hk|intros n0 H0; injection H0 as <-; now apply set_counter_ok].
  - (* encrypt *)
    destruct (cpd_key d) as [k|] eqn:Ek; [|discriminate]. destruct (cpd_nonce d) as [n|] eqn:En; [|discriminate].
    unfold cpp_do_encrypt. rewrite (Hn n eq_refl). rewrite (cf_enc CF _ _ (Hk k eq_refl) n ad m).
    destruct (c_encrypt (key_of_doc k) n ad m) as [cc clen] eqn:Ec. inversion Hd; subst; clear Hd.
    eexists. split; [reflexivity|]. split; cbn [cpd_key cpd_nonce cpo_key cpo_nonce cpp_bump].
    + exact Hk.
    + intros n0 H0. injection H0 as <-. now rewrite (Hn n eq_refl).
  - (* encrypt, byte_array *)
    destruct (cpd_key d) as [k|] eqn:Ek; [|discriminate]. destruct (cpd_nonce d) as [n|] eqn:En; [|discriminate].
    unfold cpp_ba_encrypt, cpp_do_encrypt. rewrite (Hn n eq_refl). rewrite (cf_enc CF _ _ (Hk k eq_refl) n ad m).
    pose proof (cf_enc_len CF (key_of_doc k) n ad m) as Hl.
    destruct (c_encrypt (key_of_doc k) n ad m) as [cc clen] eqn:Ec. cbn [fst] in Hl. inversion Hd; subst; clear Hd.
    rewrite set_at_full by (rewrite resize_len; exact Hl).
    eexists. split; [reflexivity|]. split; cbn [cpd_key cpd_nonce cpo_key cpo_nonce cpp_bump].
    + exact Hk.
    + intros n0 H0. injection H0 as <-. now rewrite (Hn n eq_refl).
  - (* decrypt *)
    destruct (cpd_key d) as [k|] eqn:Ek; [|discriminate]. destruct (cpd_nonce d) as [n|] eqn:En; [|discriminate].
    unfold cpp_do_decrypt. rewrite (Hn n eq_refl). rewrite (cf_dec CF _ _ (Hk k eq_refl) n ad c).
    destruct (c_decrypt (key_of_doc k) n ad c) as [|rz m] eqn:Ec.
    + inversion Hd; subst; clear Hd. eexists. split; [reflexivity|]. exact Ha.
    + destruct (0 <=? rz)%Z eqn:Er; inversion Hd; subst; clear Hd.
      * eexists. split; [reflexivity|]. split; cbn [cpd_key cpd_nonce cpo_key cpo_nonce cpp_bump].
        -- exact Hk.
        -- intros n0 H0. injection H0 as <-. now rewrite (Hn n eq_refl).
      * eexists. split; [reflexivity|]. exact Ha.
  - (* decrypt, byte_array *)
    destruct (cpd_key d) as [k|] eqn:Ek; [|discriminate]. destruct (cpd_nonce d) as [n|] eqn:En; [|discriminate].
    unfold cpp_ba_decrypt.
    destruct (length c <? 16) eqn:Es.
    + apply Nat.ltb_lt in Es. rewrite (cf_dec_short CF (key_of_doc k) n ad c Es) in Hd.
      inversion Hd; subst; clear Hd. eexists. split; [reflexivity|]. exact Ha.
    + unfold cpp_do_decrypt. rewrite (Hn n eq_refl). rewrite (cf_dec CF _ _ (Hk k eq_refl) n ad c).
      destruct (c_decrypt (key_of_doc k) n ad c) as [|rz m] eqn:Ec.
      * inversion Hd; subst; clear Hd. cbn. eexists. split; [reflexivity|]. exact Ha.
      * pose proof (cf_dec_len CF _ _ _ _ _ _ Ec) as Hl.
        destruct (0 <=? rz)%Z eqn:Er; inversion Hd; subst; clear Hd.
        -- replace (Z.of_nat (length m) <? 0)%Z with false by (symmetry; apply Z.ltb_ge; lia).
           rewrite set_at_full by (rewrite resize_len; exact Hl).
           eexists. split; [reflexivity|]. split; cbn [cpd_key cpd_nonce cpo_key cpo_nonce cpp_bump].
           ++ exact Hk.
           ++ intros n0 H0. injection H0 as <-. now rewrite (Hn n eq_refl).
        -- cbn. eexists. split; [reflexivity|]. exact Ha.
  - (* randomize_key *)
    inversion Hd; subst; clear Hd. eexists. split; [reflexivity|]. split; cbn [cpd_key cpd_nonce cpo_key cpo_nonce cpp_bump]; [|exact Hn].
    intros k Hk0. exact (cf_trans CF _ _ _ (ko_rand KO rr (cpo_key o)) (Hk k Hk0)).
  - (* clear *)
    inversion Hd; subst; clear Hd. eexists. split; [reflexivity|]. split; cbn [cpd_key cpd_nonce cpo_key cpo_nonce cpp_bump]; intros ? H0; discriminate.
Qed.

Lemma steps_sim ops : forall o d d' rs, cpp_agrees o d ->
  cpp_doc_steps R ckey klen c_encrypt c_decrypt has_saved key_of_doc d ops = Some (d', rs) ->
  exists o', cpp_code_steps R ckey c_encrypt c_decrypt K o ops = CppOk (o', rs) /\ cpp_agrees o' d'.
Proof.
  induction ops as [|x ops IH]; intros o d d' rs Ha Hd; cbn [cpp_doc_steps] in Hd; cbn [cpp_code_steps].
  - inversion Hd; subst. eexists. split; [reflexivity|exact Ha].
  - destruct (cpp_doc_step d x) as [[d1 r]|] eqn:E1; [|discriminate].
    destruct (cpp_doc_steps R ckey klen c_encrypt c_decrypt has_saved key_of_doc d1 ops) as [[d2 rs2]|] eqn:E2; [|discriminate].
    inversion Hd; subst; clear Hd.
    destruct (step_sim o d x d1 r Ha E1) as [o1 [H1 A1]]. rewrite H1. cbn [cpp_obind].
    destruct (IH o1 d1 d' rs2 A1 E2) as [o2 [H2 A2]]. rewrite H2. cbn [cpp_obind].
    eexists. split; [reflexivity|exact A2].
Qed.

Theorem sim : C17_stmt R ckey klen c_encrypt c_decrypt K has_saved ctor_has_len key_of_doc keq.
Proof.
  intros c ops d rs Hd. unfold cpp_doc_run in Hd. unfold cpp_code_run.
  destruct (cpp_doc_ctor R klen has_saved ctor_has_len c) as [d0|] eqn:Ec; [|discriminate].
  assert (exists o0, cpp_code_ctor R ckey K c = CppOk o0 /\ cpp_agrees o0 d0) as [o0 [H0 A0]].
  { destruct c as [|junk r p len]; cbn in Ec |- *.
    - inversion Ec; subst. eexists. split; [reflexivity|]. split; cbn; intros ? H; inversion H; subst; [exact (ko_default KO)|reflexivity].
    - destruct (cpp_doc_ctor_key klen has_saved ctor_has_len p len) as [k|] eqn:Ek; [|discriminate]. inversion Ec; subst.
      destruct (ko_ctor KO junk r p len k Ek) as [ck [H1 H2]]. rewrite H1. cbn.
      eexists. split; [reflexivity|]. split; cbn; intros ? H; inversion H; subst; [exact H2|reflexivity]. }
  rewrite H0. cbn [cpp_obind]. exact (steps_sim ops o0 d0 d rs A0 Hd).
Qed.

(* the statement in the words of the property: after any documented history
   the next packet is the C function under the documented key and nonce *)
Corollary packet c ops d rs k n ad m :
  cpp_doc_run R ckey klen c_encrypt c_decrypt has_saved ctor_has_len key_of_doc c ops = Some (d, rs) ->
  cpd_key d = Some k -> cpd_nonce d = Some n ->
  exists o, cpp_code_run R ckey c_encrypt c_decrypt K c ops = CppOk (o, rs) /\
            cpp_do_encrypt ckey c_encrypt o ad m =
              (cpp_bump ckey o, (Z.of_nat (snd (c_encrypt (key_of_doc k) n ad m)), fst (c_encrypt (key_of_doc k) n ad m))) /\
            cpo_nonce (cpp_bump ckey o) = increment_nonce n /\
            cpp_do_decrypt ckey c_decrypt o ad m =
              match c_decrypt (key_of_doc k) n ad m with
              | DecShort => (o, ((-1)%Z, None))
              | DecDone r p => if (0 <=? r)%Z then (cpp_bump ckey o, (Z.of_nat (length p), Some p)) else (o, ((-1)%Z, Some p))
              end.
Proof.
  intros Hd Hk Hn. destruct (sim c ops d rs Hd) as [o [Hr [Ak An]]].
  exists o. split; [exact Hr|]. unfold cpp_do_encrypt, cpp_do_decrypt.
  rewrite (An n Hn). rewrite (cf_enc CF _ _ (Ak k Hk) n ad m). rewrite (cf_dec CF _ _ (Ak k Hk) n ad m).
  destruct (c_encrypt (key_of_doc k) n ad m) as [cc clen]. cbn [fst snd].
  split; [reflexivity|]. split; [cbn; now rewrite (An n Hn)|reflexivity].
Qed.

(* byte_array overloads: the vector holds exactly the bytes the pointer
   overload writes; a failed decrypt leaves it empty and the nonce unchanged *)
Lemma ba_encrypt_eq o cold ad m :
  cpp_ba_encrypt ckey c_encrypt o cold ad m =
  (fst (cpp_do_encrypt ckey c_encrypt o ad m), snd (snd (cpp_do_encrypt ckey c_encrypt o ad m))).
Proof.
  unfold cpp_ba_encrypt, cpp_do_encrypt. pose proof (cf_enc_len CF (cpo_key o) (cpo_nonce o) ad m) as Hl.
  destruct (c_encrypt (cpo_key o) (cpo_nonce o) ad m) as [cc clen]. cbn [fst snd] in *.
  now rewrite set_at_full by (rewrite resize_len; exact Hl).
Qed.

Lemma ba_decrypt_eq o mold ad c :
  cpp_ba_decrypt ckey c_decrypt o mold ad c =
  match cpp_do_decrypt ckey c_decrypt o ad c with
  | (o', (r, Some m)) => if (r <? 0)%Z then (o, (false, [])) else (o', (true, m))
  | (o', (r, None)) => (o, (false, []))
  end.
Proof.
  unfold cpp_ba_decrypt, cpp_do_decrypt. destruct (length c <? 16) eqn:Es.
  - apply Nat.ltb_lt in Es. now rewrite (cf_dec_short CF _ _ _ _ Es).
  - destruct (c_decrypt (cpo_key o) (cpo_nonce o) ad c) as [|rz m] eqn:Ec; [reflexivity|].
    pose proof (cf_dec_len CF _ _ _ _ _ _ Ec) as Hl.
    destruct (0 <=? rz)%Z; [|reflexivity].
    replace (Z.of_nat (length m) <? 0)%Z with false by (symmetry; apply Z.ltb_ge; lia).
    now rewrite set_at_full by (rewrite resize_len; exact Hl).
Qed.
End CipherP.

(* ---- the families ------------------------------------------------------ *)

Lemma doc_set_key_true klen hs p len k : cpp_doc_set_key klen hs p len = Some (Some k) ->
  (len = 0 /\ k = CppRawKey (zeros klen)) \/
  (len <> 0 /\ len = klen /\ exists b, p = Some b /\ klen <= length b /\ k = CppRawKey (firstn klen b)) \/
  (len <> 0 /\ len <> klen /\ len = 80 /\ hs = true /\ exists b, p = Some b /\ 80 <= length b /\ k = CppSavedKey (firstn 80 b)).
Proof.
  unfold cpp_doc_set_key. destruct (len =? 0) eqn:E0.
  - apply Nat.eqb_eq in E0. intro H. inversion H. now left.
  - apply Nat.eqb_neq in E0. destruct ((len =? klen) || ((len =? 80) && hs)) eqn:E; [|discriminate].
    destruct p as [b|]; [|discriminate]. destruct (length b <? len) eqn:El; [discriminate|]. apply Nat.ltb_ge in El.
    intro H. inversion H; clear H. destruct (len =? klen) eqn:Ek.
    + apply Nat.eqb_eq in Ek. right; left. repeat split; try assumption. exists b. subst. repeat split; lia || reflexivity.
    + apply Nat.eqb_neq in Ek. cbn in E. apply andb_prop in E. destruct E as [E8 Eh]. apply Nat.eqb_eq in E8.
      right; right. repeat split; try assumption. exists b. subst. repeat split; lia || reflexivity.
Qed.

Lemma doc_set_key_false klen hs p len : cpp_doc_set_key klen hs p len = Some None ->
  len <> 0 /\ ((len = klen \/ (len = 80 /\ hs = true)) /\ p = None \/ (len <> klen /\ (len <> 80 \/ hs = false))).
Proof.
  unfold cpp_doc_set_key. destruct (len =? 0) eqn:E0; [discriminate|]. apply Nat.eqb_neq in E0.
  destruct (len =? klen) eqn:Ek; cbn [orb].
  - apply Nat.eqb_eq in Ek. destruct p as [b|]; [destruct (length b <? len); discriminate|]. intros _. split; [exact E0|]. left. split; [now left|reflexivity].
  - apply Nat.eqb_neq in Ek. destruct (len =? 80) eqn:E8; cbn [andb].
    + apply Nat.eqb_eq in E8. destruct hs.
      * destruct p as [b|]; [destruct (length b <? len); discriminate|]. intros _. split; [exact E0|]. left. split; [right; now split|reflexivity].
      * intros _. split; [exact E0|]. right. split; [exact Ek|now right].
    + apply Nat.eqb_neq in E8. intros _. split; [exact E0|]. right. split; [exact Ek|now left].
Qed.

(* plain and SIV classes whose key constructor copies the whole key *)
Lemma keying_plain_ok klen : 0 < klen -> klen <> 80 ->
  keying_ok unit bytes klen (cpp_keying_plain klen klen) false false cpp_raw_key_of_doc eq.
Proof.
  intros Hpos H80. constructor.
  - reflexivity.
  - intros junk r p len k H. unfold cpp_doc_ctor_key in H. cbn [cpp_keying_plain kg_ctor].
    destruct p as [b|].
    + destruct (length b <? klen) eqn:El; [discriminate|]. apply Nat.ltb_ge in El. inversion H; subst.
      rewrite rd_some by exact El. cbn [cpp_obind]. eexists. split; [reflexivity|]. cbn.
      apply set_at_full. rewrite resize_len. now apply firstn_len_le.
    + inversion H; subst. eexists. split; [reflexivity|]. cbn. apply set_at_full. now rewrite resize_len, zeros_len.
  - intros ck r p len k H. apply doc_set_key_true in H. cbn [cpp_keying_plain kg_set].
    destruct H as [[H0 Hk]|[[H0 [Hl [b [Hp [Hb Hk]]]]]|[_ [_ [_ [Hs _]]]]]]; [| |discriminate].
    + subst. destruct klen; [lia|]. cbn [Nat.eqb andb]. eexists. split; reflexivity.
    + subst len p k. rewrite Nat.eqb_refl. cbn [cpp_is_some andb]. rewrite rd_some by exact Hb. cbn. eexists. split; reflexivity.
  - intros ck r p len H. apply doc_set_key_false in H. cbn [cpp_keying_plain kg_set].
    destruct H as [H0 [[[Hl|[_ Hs]] Hp]|[Hl _]]]; [| discriminate |].
    + subst. rewrite Nat.eqb_refl. cbn [cpp_is_some andb]. apply Nat.eqb_neq in H0. now rewrite H0.
    + apply Nat.eqb_neq in Hl, H0. now rewrite Hl, H0.
  - reflexivity.
Qed.

(* siv80pq as found: the key constructor installs 16 of the 20 key bytes *)
Definition k20 : bytes := map N.of_nat (seq 1 20).
Lemma siv80pq_asfound_refuted c_encrypt c_decrypt :
  ~ C17_stmt unit bytes 20 c_encrypt c_decrypt (cpp_keying_plain 20 (cpp_siv80pq_ncopy CodeAsFound)) false false cpp_raw_key_of_doc eq.
Proof.
  intro H.
  destruct (H (CppKeyCtor (repeat 255%N 36) tt (Some k20) 0) [] {| cpd_key := Some (CppRawKey k20); cpd_nonce := Some (zeros 16) |} [] eq_refl)
    as [o [Hr [Hk _]]].
  vm_compute in Hr. inversion Hr; subst; clear Hr. specialize (Hk _ eq_refl). vm_compute in Hk. discriminate.
Qed.
(* ... and with a null key: 16 of 20 bytes are zeroed *)
Lemma siv80pq_asfound_refuted_null c_encrypt c_decrypt :
  ~ C17_stmt unit bytes 20 c_encrypt c_decrypt (cpp_keying_plain 20 (cpp_siv80pq_ncopy CodeAsFound)) false false cpp_raw_key_of_doc eq.
Proof.
  intro H.
  destruct (H (CppKeyCtor (repeat 255%N 36) tt None 0) [] {| cpd_key := Some (CppRawKey (zeros 20)); cpd_nonce := Some (zeros 16) |} [] eq_refl)
    as [o [Hr [Hk _]]].
  vm_compute in Hr. inversion Hr; subst; clear Hr. specialize (Hk _ eq_refl). vm_compute in Hk. discriminate.
Qed.

Lemma siv80pq_status v c_encrypt c_decrypt :
  match v with
  | CodeFixed => keying_ok unit bytes 20 (cpp_keying_plain 20 (cpp_siv80pq_ncopy v)) false false cpp_raw_key_of_doc eq
  | CodeAsFound => ~ C17_stmt unit bytes 20 c_encrypt c_decrypt (cpp_keying_plain 20 (cpp_siv80pq_ncopy v)) false false cpp_raw_key_of_doc eq
  end.
Proof. destruct v; [apply siv80pq_asfound_refuted|]. cbn [cpp_siv80pq_ncopy]. apply keying_plain_ok; [apply Nat.lt_0_succ|discriminate]. Qed.

(* masked classes *)
Section MaskedP.
Variable R mkey : Type.
Variable mk_init : R -> bytes -> mkey.
Variable mk_zero_image : mkey.
Variable mk_randomize : R -> mkey -> mkey.
Variable mk_value : mkey -> bytes.            (* ascon_masked_key_*_extract *)
Variable r0 : R.
(* C10's statements about the masked key object, taken as premises here *)
Record mkey_ok (klen : nat) : Prop := {
  mv_init : forall r k, length k = klen -> mk_value (mk_init r k) = k;
  mv_zero : mk_value mk_zero_image = zeros klen;
  mv_rand : forall r m, mk_value (mk_randomize r m) = mk_value m
}.
Definition mkeq (a b : mkey) : Prop := mk_value a = mk_value b.
Definition masked_key_of_doc (d : cpp_dkey) : mkey := mk_init r0 (cpp_raw_key_of_doc d).

Lemma keying_masked_ok klen : 0 < klen -> klen <> 80 -> mkey_ok klen ->
  keying_ok R mkey klen (cpp_keying_masked R mkey mk_init mk_zero_image mk_randomize klen) false false masked_key_of_doc mkeq.
Proof.
  intros Hpos H80 M. constructor.
  - unfold mkeq, masked_key_of_doc. cbn. rewrite (mv_zero klen M). symmetry. apply (mv_init klen M). apply zeros_len.
  - intros junk r p len k H. unfold cpp_doc_ctor_key in H. cbn [cpp_keying_masked kg_ctor].
    destruct p as [b|].
    + destruct (length b <? klen) eqn:El; [discriminate|]. apply Nat.ltb_ge in El. inversion H; subst.
      rewrite rd_some by exact El. cbn [cpp_obind]. eexists. split; [reflexivity|]. unfold mkeq, masked_key_of_doc. cbn.
      now rewrite !(mv_init klen M) by (now apply firstn_len_le).
    + inversion H; subst. eexists. split; [reflexivity|]. unfold mkeq, masked_key_of_doc. cbn.
      now rewrite !(mv_init klen M) by apply zeros_len.
  - intros ck r p len k H. apply doc_set_key_true in H. cbn [cpp_keying_masked kg_set].
    destruct H as [[H0 Hk]|[[H0 [Hl [b [Hp [Hb Hk]]]]]|[_ [_ [_ [Hs _]]]]]]; [| |discriminate].
    + subst. assert (E : (0 =? klen) = false) by (apply Nat.eqb_neq; lia). rewrite E. cbn [Nat.eqb andb].
      eexists. split; [reflexivity|].
      unfold mkeq, masked_key_of_doc. cbn [cpp_raw_key_of_doc]. now rewrite !(mv_init _ M) by apply zeros_len.
    + subst len p k. rewrite Nat.eqb_refl. cbn [cpp_is_some andb]. rewrite rd_some by exact Hb. cbn. eexists. split; [reflexivity|].
      unfold mkeq, masked_key_of_doc. cbn. now rewrite !(mv_init klen M) by (now apply firstn_len_le).
  - intros ck r p len H. apply doc_set_key_false in H. cbn [cpp_keying_masked kg_set].
    destruct H as [H0 [[[Hl|[_ Hs]] Hp]|[Hl _]]]; [| discriminate |].
    + subst. rewrite Nat.eqb_refl. cbn [cpp_is_some andb]. apply Nat.eqb_neq in H0. now rewrite H0.
    + apply Nat.eqb_neq in Hl, H0. now rewrite Hl, H0.
  - intros r ck. unfold mkeq. cbn. apply (mv_rand klen M).
Qed.
End MaskedP.

(* ISAP classes *)
Section IsapP.
Variable pk : Type.
Variable isap_init isap_load : bytes -> pk.

Lemma keying_isap_fixed_ok klen : 0 < klen -> klen <> 80 ->
  keying_ok unit pk klen (cpp_keying_isap pk isap_init isap_load CodeFixed klen) true true (cpp_isap_key_of_doc pk isap_init isap_load) eq.
Proof.
  intros Hpos H80. constructor.
  - reflexivity.
  - intros junk r p len k H. unfold cpp_doc_ctor_key in H. cbn [cpp_keying_isap kg_ctor].
    destruct (len =? 0) eqn:E0.
    + apply Nat.eqb_eq in E0. subst len. inversion H; subst.
      destruct klen as [|k']; [lia|]. cbn [Nat.eqb]. eexists. split; reflexivity.
    + destruct p as [b|]; [|discriminate]. destruct (len =? klen) eqn:Ek.
      * destruct (length b <? klen) eqn:El; [discriminate|]. apply Nat.ltb_ge in El. inversion H; subst.
        rewrite rd_some by exact El. eexists. split; reflexivity.
      * destruct (len =? 80) eqn:E8; cbn [andb] in H; [|discriminate].
        destruct (length b <? 80) eqn:El; [discriminate|]. apply Nat.ltb_ge in El. inversion H; subst.
        rewrite rd_some by exact El. eexists. split; reflexivity.
  - intros ck r p len k H. apply doc_set_key_true in H. cbn [cpp_keying_isap kg_set].
    destruct H as [[H0 Hk]|[[H0 [Hl [b [Hp [Hb Hk]]]]]|[H0 [Hl [H8 [_ [b [Hp [Hb Hk]]]]]]]]].
    + subst. assert (E : (0 =? klen) = false) by (apply Nat.eqb_neq; lia). rewrite E. cbn [Nat.eqb andb cpp_isap_zero_src].
      rewrite rd_some by (rewrite zeros_len; lia). cbn [cpp_obind].
      assert (F : firstn klen (zeros klen) = zeros klen) by (rewrite <- (zeros_len klen) at 1; apply firstn_all).
      rewrite F. eexists. split; reflexivity.
    + subst len p k. rewrite Nat.eqb_refl. cbn [cpp_is_some andb]. rewrite rd_some by exact Hb. cbn. eexists. split; reflexivity.
    + subst len p k. apply Nat.eqb_neq in Hl. rewrite Hl. cbn [cpp_is_some andb Nat.eqb].
      rewrite rd_some by exact Hb. cbn. eexists. split; reflexivity.
  - intros ck r p len H. apply doc_set_key_false in H. cbn [cpp_keying_isap kg_set].
    destruct H as [H0 [[[Hl|[Hl _]] Hp]|[Hl [H8|Hs]]]]; [| | |discriminate].
    + subst. rewrite Nat.eqb_refl. cbn [cpp_is_some andb]. rewrite andb_false_r. apply Nat.eqb_neq in H0. now rewrite H0.
    + subst. cbn [cpp_is_some]. rewrite !andb_false_r. reflexivity.
    + apply Nat.eqb_neq in Hl, H0, H8. now rewrite Hl, H0, H8.
  - reflexivity.
Qed.

(* as found: the documented set_key(0, 0) dereferences the null pointer *)
Lemma isap_asfound_refuted klen c_encrypt c_decrypt : 0 < klen ->
  ~ C17_stmt unit pk klen c_encrypt c_decrypt (cpp_keying_isap pk isap_init isap_load CodeAsFound klen) true true
      (cpp_isap_key_of_doc pk isap_init isap_load) eq.
Proof.
  intros Hpos H.
  destruct (H CppDefault [CpSetKey tt None 0] {| cpd_key := Some (CppRawKey (zeros klen)); cpd_nonce := Some (zeros 16) |} [CprBool true] eq_refl)
    as [o [Hr _]].
  unfold cpp_code_run in Hr. cbn in Hr. destruct klen as [|k']; [lia|]. cbn in Hr. discriminate.
Qed.
(* ... and with a non-null pointer the key becomes the bytes found there *)
Lemma isap_asfound_setkey0_reads_pointer klen c_encrypt c_decrypt b : 0 < klen -> klen <= length b ->
  cpp_code_run unit pk c_encrypt c_decrypt (cpp_keying_isap pk isap_init isap_load CodeAsFound klen) CppDefault [CpSetKey tt (Some b) 0] =
  CppOk ({| cpo_key := isap_init (firstn klen b); cpo_nonce := zeros 16 |}, [CprBool true]).
Proof.
  intros Hpos Hb. unfold cpp_code_run. cbn. destruct klen as [|k']; [lia|]. cbn.
  destruct (length b <=? k') eqn:E; [apply Nat.leb_le in E; lia|reflexivity].
Qed.

Lemma isap_status v klen c_encrypt c_decrypt : 0 < klen -> klen <> 80 ->
  match v with
  | CodeFixed => keying_ok unit pk klen (cpp_keying_isap pk isap_init isap_load v klen) true true (cpp_isap_key_of_doc pk isap_init isap_load) eq
  | CodeAsFound => ~ C17_stmt unit pk klen c_encrypt c_decrypt (cpp_keying_isap pk isap_init isap_load v klen) true true
                   (cpp_isap_key_of_doc pk isap_init isap_load) eq
  end.
Proof. intros H1 H2. destruct v; [now apply isap_asfound_refuted|now apply keying_isap_fixed_ok]. Qed.
End IsapP.

(* ---- hash / xof wrappers ----------------------------------------------- *)
Section XofP.
Variable S : Type.
Variable c_init : S.
Variable c_init_fixed : nat -> S.
Variable c_init_custom : cpp_ptr -> bytes -> nat -> S.
Variable c_reinit : S -> S.
Variable c_reinit_fixed : S -> nat -> S.
Variable c_absorb : S -> bytes -> S.
Variable c_squeeze : S -> nat -> S * bytes.
Variable c_pad : S -> S.
Variable c_copy : S -> S -> S.
Variable c_free : S -> S.
Hypothesis squeeze_len : forall s n, length (snd (c_squeeze s n)) = n.

Notation xstep := (cpp_xof_step S c_reinit c_reinit_fixed c_absorb c_squeeze c_pad c_copy c_free).
Notation cexecl := (cpp_c_exec_list S c_init c_init_fixed c_init_custom c_reinit c_reinit_fixed c_absorb c_squeeze c_pad c_copy c_free).

Lemma xof_member_eq L s x : xstep L s x = cexecl s (cpp_calls_of S L x).
Proof.
  destruct x as [self other| |d|p|str|n|n|]; cbn [cpp_xof_step cpp_calls_of].
  - destruct self; reflexivity.
  - destruct (L =? 0); reflexivity.
  - reflexivity.
  - destruct p; reflexivity.
  - reflexivity.
  - cbn. destruct (c_squeeze s n). now rewrite app_nil_r.
  - cbn. pose proof (squeeze_len s n) as Hl. destruct (c_squeeze s n) as [s' out]. cbn [snd] in Hl.
    rewrite set_at_full by (now rewrite zeros_len). now rewrite app_nil_r.
  - reflexivity.
Qed.

Fixpoint xof_steps (L : nat) (s : S) (ops : list (cpp_xop S)) : S * bytes :=
  match ops with
  | [] => (s, [])
  | x :: ops' => let '(s1, o1) := xstep L s x in let '(s2, o2) := xof_steps L s1 ops' in (s2, o1 ++ o2)
  end.

Lemma c_exec_list_app s l1 l2 :
  cexecl s (l1 ++ l2) = let '(s1, o1) := cexecl s l1 in let '(s2, o2) := cexecl s1 l2 in (s2, o1 ++ o2).
Proof.
  revert s; induction l1 as [|c l1 IH]; intro s; cbn [app cpp_c_exec_list].
  - now destruct (cexecl s l2).
  - destruct (cpp_c_exec S c_init c_init_fixed c_init_custom c_reinit c_reinit_fixed c_absorb c_squeeze c_pad c_copy c_free s c) as [s1 o1].
    rewrite IH. destruct (cexecl s1 l1) as [s2 o2]. destruct (cexecl s2 l2) as [s3 o3]. now rewrite app_assoc.
Qed.

Theorem xof_history_eq L ops : forall s, xof_steps L s ops = cexecl s (flat_map (cpp_calls_of S L) ops).
Proof.
  induction ops as [|x ops IH]; intro s; cbn [xof_steps flat_map]; [reflexivity|].
  rewrite c_exec_list_app. rewrite xof_member_eq. destruct (cexecl s (cpp_calls_of S L x)) as [s1 o1]. now rewrite IH.
Qed.

Lemma xof_templates L :
  cpp_xof_ctor S c_init c_init_fixed c_init_custom c_copy L (CpxDefault S) = (if L =? 0 then c_init else c_init_fixed L) /\
  cpp_xof_ctor S c_init c_init_fixed c_init_custom c_copy 0 (CpxDefault S) = c_init /\
  (forall nm cu, cpp_xof_ctor S c_init c_init_fixed c_init_custom c_copy L (CpxCustom S nm cu) = c_init_custom nm cu L) /\
  (forall junk o, cpp_xof_ctor S c_init c_init_fixed c_init_custom c_copy L (CpxCopy S junk o) = c_copy junk o) /\
  (forall s, fst (xstep L s (CpxReset S)) = if L =? 0 then c_reinit s else c_reinit_fixed s L) /\
  (forall s, fst (xstep 0 s (CpxReset S)) = c_reinit s).
Proof. repeat split; try reflexivity; intros; cbn; now destruct (L =? 0). Qed.
End XofP.

Section HashP.
Variable S : Type.
Variable h_init : S.
Variable h_reinit : S -> S.
Variable h_update : S -> bytes -> S.
Variable h_finalize : S -> S * bytes.
Variable h_copy : S -> S -> S.
Variable h_free : S -> S.
Variable h_oneshot : bytes -> bytes.
Hypothesis finalize_len : forall s, length (snd (h_finalize s)) = 32.

Lemma hash_member_eq s x :
  cpp_hash_step S h_reinit h_update h_finalize h_copy h_free h_oneshot s x =
  cpp_h_exec_list S h_reinit h_update h_finalize h_copy h_free h_oneshot s (cpp_hcalls_of S x).
Proof.
  destruct x as [self other| |d|p|str| | |d]; cbn [cpp_hash_step cpp_hcalls_of].
  - destruct self; reflexivity.
  - reflexivity.
  - reflexivity.
  - destruct p; reflexivity.
  - reflexivity.
  - cbn. destruct (h_finalize s). now rewrite app_nil_r.
  - cbn [cpp_h_exec_list cpp_h_exec]. pose proof (finalize_len s) as Hl. destruct (h_finalize s) as [s' out]. cbn [snd] in Hl.
    rewrite set_at_full by (now rewrite zeros_len). now rewrite app_nil_r.
  - cbn. now rewrite app_nil_r.
Qed.
End HashP.

(* ---- helpers ------------------------------------------------------------ *)
Lemma strlen_app_nul s t : Forall (fun x => x <> 0%N) s -> cpp_strlen_b (s ++ 0%N :: t) = length s.
Proof.
  induction s as [|x s IH]; intro H; cbn [app cpp_strlen_b length]; [reflexivity|].
  inversion H as [|? ? Hx Hs]; subst. destruct (x =? 0)%N eqn:E; [apply N.eqb_eq in E; contradiction|].
  now rewrite IH.
Qed.
Lemma cstring_app_nul s t : Forall (fun x => x <> 0%N) s -> cpp_cstring (s ++ 0%N :: t) = s.
Proof.
  intro H. unfold cpp_cstring. rewrite strlen_app_nul by exact H.
  rewrite firstn_app, Nat.sub_diag, firstn_all. cbn. apply app_nil_r.
Qed.

Section HelpersP.
Variable c_to_hex : bytes -> bool -> nat -> option bytes.
Variable c_from_hex : nat -> bytes -> option bytes.

(* std::string(out) is exactly the C function's output when that output has no NUL (hex digits) *)
Lemma bytes_to_hex_eq junk input upper chars :
  c_to_hex input upper (2 * length input + 1) = Some chars ->
  length chars = 2 * length input -> Forall (fun x => x <> 0%N) chars ->
  cpp_bytes_to_hex c_to_hex junk input upper = chars.
Proof.
  intros H Hl Hn. unfold cpp_bytes_to_hex. rewrite H.
  rewrite set_at_full by (rewrite resize_len, app_length; cbn; lia).
  now apply cstring_app_nul.
Qed.

Lemma bytes_from_data_eq b len : 0 < len -> len <= length b ->
  cpp_bytes_from_data (Some b) len = CppOk (firstn len b).
Proof.
  intros Hp Hl. unfold cpp_bytes_from_data. destruct (len =? 0) eqn:E; [apply Nat.eqb_eq in E; lia|].
  rewrite rd_some by exact Hl. cbn. f_equal. apply set_at_full. rewrite zeros_len. now apply firstn_len_le.
Qed.

(* bytes_from_hex: exactly the bytes the C function decoded (it never decodes more than the len/2 it was
   offered), the empty array when it refuses *)
Lemma bytes_from_hex_eq chars :
  (forall w, c_from_hex (length chars / 2) chars = Some w -> length w <= length chars / 2) ->
  cpp_bytes_from_hex c_from_hex chars =
  match c_from_hex (length chars / 2) chars with
  | Some w => w
  | None => []
  end.
Proof.
  intros Hb. unfold cpp_bytes_from_hex. destruct (c_from_hex (length chars / 2) chars) as [w|] eqn:E; [|reflexivity].
  specialize (Hb w eq_refl).
  assert (G : forall (v : bytes) (w : bytes), length w <= length v -> firstn (length w) (set_at v 0 w) = w).
  { intros v w0 H. rewrite <- (firstn_skipn (length w0) v) at 1.
    rewrite set_at_0_full by (rewrite firstn_length; lia).
    rewrite firstn_app, firstn_all, Nat.sub_diag, firstn_O, app_nil_r. reflexivity. }
  apply G. now rewrite zeros_len.
Qed.
End HelpersP.

(* ---- the premises are satisfiable (used by the non-vacuity examples) ---- *)
Lemma klen_ok klen : klen = 16 \/ klen = 20 -> 0 < klen /\ klen <> 80.
Proof. intros [->| ->]; split; lia. Qed.

Definition toy_enc (k n ad m : bytes) : bytes * nat := (m ++ firstn 16 (k ++ n ++ zeros 16), length m + 16).
Definition toy_dec (k n ad c : bytes) : dec_result :=
  if length c <? 16 then DecShort
  else if beq_bytes (skipn (length c - 16) c) (firstn 16 (k ++ n ++ zeros 16))
       then DecDone 0 (firstn (length c - 16) c) else DecDone (-1) (zeros (length c - 16)).
Lemma toy_cfun_ok : cfun_ok bytes toy_enc toy_dec eq.
Proof.
  constructor.
  - intros a b c -> ->. reflexivity.
  - intros a b -> n ad m. reflexivity.
  - intros a b -> n ad c. reflexivity.
  - intros k n ad m. unfold toy_enc. cbn [fst]. rewrite app_length, firstn_length, !app_length, zeros_len. lia.
  - intros k n ad c r m. unfold toy_dec. destruct (length c <? 16) eqn:E; [discriminate|]. apply Nat.ltb_ge in E.
    destruct (beq_bytes _ _); intro H; inversion H; subst; [rewrite firstn_length; lia|apply zeros_len].
  - intros k n ad c H. unfold toy_dec. apply Nat.ltb_lt in H. now rewrite H.
Qed.

Definition toy_mk_init (r : N) (k : bytes) : bytes * N := (k, r).
Definition toy_mk_rand (r : N) (m : bytes * N) : bytes * N := (fst m, r).
Lemma toy_mkey_ok klen : mkey_ok N (bytes * N) toy_mk_init (zeros klen, 0%N) toy_mk_rand fst klen.
Proof. constructor; reflexivity. Qed.
