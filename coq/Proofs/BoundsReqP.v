(* C12, kernel clause: the regenerated verdict table (Gen/Bounds.v) against the hand-written requirement list
   Obl/BoundsReq.bounds_required and the hand-written contract predicate Model/BoundsDefs.in_contract. *)
From Coq Require Import List NArith String Bool.
From AsconV Require Import Model.BoundsDefs Model.C12Config Obl.BoundsReq Gen.Bounds.
Import ListNotations.

(* the entry tolerated while Model/C12Config.fix_x3_zero = false (none once it is true) *)
Definition tolerated (e : bentry) : bool := negb fix_x3_zero && is_x3_zero_max3 e.

(* every required (configuration, function, arguments) has its run in the table, flagged as the hand-written list says and
   as in_contract says, and not stuck when within contract *)
Lemma bounds_required_met : forallb (breq_met tolerated bounds_entries) bounds_required = true.
Proof. vm_compute. reflexivity. Qed.

(* the generator's within-contract flags are exactly in_contract *)
Lemma bounds_flags_agree : forallb valid_flag_ok bounds_entries = true.
Proof. vm_compute. reflexivity. Qed.

(* nothing in the table is outside the hand-written list *)
Lemma bounds_all_listed : forallb (bentry_listed bounds_required) bounds_entries = true.
Proof. vm_compute. reflexivity. Qed.

Lemma bounds_required_covered : forall cfg fn args valid, In (cfg, fn, args, valid) bounds_required ->
  in_contract fn args = valid /\
  exists e, In e bounds_entries /\ be_config e = cfg /\ be_function e = fn /\ be_args e = args /\ be_valid e = valid /\
            (valid = true -> verdict_ok (be_verdict e) = true \/ tolerated e = true).
Proof.
  intros cfg fn args valid I. pose proof bounds_required_met as H. rewrite forallb_forall in H.
  exact (breq_met_sound _ _ _ _ _ _ (H _ I)).
Qed.

(* the incremental AEAD part of the list on its own (audit 2, gap 7b): 1002 requirements = 3 state layouts x (106 + 122 + 106) runs,
   all of them part of bounds_required, all within contract, all met by the regenerated table (none stuck) *)
Lemma inc_required_checked :
  List.length inc_required = 1002%nat /\ incl inc_required bounds_required /\
  forallb (fun q => snd q) inc_required = true /\
  forallb (breq_met (fun _ => false) bounds_entries) inc_required = true /\
  existsb (fun e => String.eqb (be_config e) "aead-inc/default") bounds_entries = true /\
  breq_in "aead-inc/c32"%string "ascon80pq_aead_init"%string [("k", 1%N); ("npub", 0%N)]%string inc_required = true /\
  breq_in "aead-inc/default"%string "ascon128a_aead_reinit"%string [("k", 0%N); ("npub", 2%N)]%string inc_required = true /\
  breq_in "aead-inc/directxor"%string "ascon128_aead_decrypt_block"%string [("alias", 1%N); ("len", 19%N); ("posn", 7%N)]%string inc_required = true /\
  breq_in "aead-inc/default"%string "ascon80pq_aead_start"%string [("adlen", 0%N)]%string inc_required = true /\
  breq_in "aead-inc/c32"%string "ascon128a_aead_decrypt_finalize"%string [("posn", 15%N)]%string inc_required = true.
Proof.
  split; [vm_compute; reflexivity|].
  split; [unfold bounds_required; intros q Hq; do 4 (apply in_or_app; right); exact Hq|].
  split; [vm_compute; reflexivity|]. split; [vm_compute; reflexivity|]. split; [vm_compute; reflexivity|].
  repeat split; vm_compute; reflexivity.
Qed.
