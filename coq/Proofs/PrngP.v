(* PRNG: structural forward security, reseed bookkeeping, status results. *)
From AsconV Require Import Model.Prngm Proofs.SpongeP.
From Coq Require Import ZArith.
Local Open Scope nat_scope.

Section WithPerm.
Variable perm : nat -> bytes -> bytes.

(* ---- every operation ends with the re-key: 4 x (zero the rate; permute) ------------ *)

Lemma xof_pad_aligned x : x_count (xof_pad perm vxof x) = 0 /\ x_mode (xof_pad perm vxof x) = false.
Proof.
  unfold xof_pad. destruct (x_mode x) eqn:M.
  - unfold xof_absorb. rewrite M. unfold duplex_c, aligned_c. cbn [Nat.eqb length full_loop].
    rewrite upd_at_nil. cbn. auto.
  - destruct (Nat.eqb_spec (x_count x) 0) as [e|ne]; cbn; auto.
Qed.

Theorem rekey_shape x :
  x_st (rekey perm x) = rekey_st perm (x_st (xof_pad perm vxof x)) /\
  x_count (rekey perm x) = 0 /\ x_mode (rekey perm x) = false /\
  exists t, x_st (rekey perm x) = perm 0 (zero_rate t).
Proof.
  unfold rekey. cbn [x_st x_count x_mode]. destruct (xof_pad_aligned x) as [A B].
  repeat split; auto. unfold rekey_st. eexists. reflexivity.
Qed.

Lemma zero_rate_zero t : length t = 40 -> firstn 8 (zero_rate t) = zeros 8.
Proof.
  intros H. unfold zero_rate. do 8 (destruct t as [|? t]; [discriminate|]). reflexivity.
Qed.

(* the state after each operation is a re-keyed state *)
Theorem init_rekeyed sys : exists x, r_xof (fst (fst (prng_init perm sys))) = rekey perm x.
Proof. unfold prng_init. destruct (next_sys sys) as [[seed ok] sys']. cbn. eexists. reflexivity. Qed.
Theorem reseed_rekeyed s sys : exists x, r_xof (fst (fst (prng_reseed perm s sys))) = rekey perm x.
Proof. unfold prng_reseed. destruct (next_sys sys) as [[seed ok] sys']. cbn. eexists. reflexivity. Qed.
Theorem fetch_rekeyed s n sys : exists x, r_xof (fst (fst (prng_fetch perm s n sys))) = rekey perm x.
Proof.
  unfold prng_fetch. destruct (reseed_limit <=? r_counter s).
  - destruct (prng_reseed perm s sys) as [[s' b] sys']. destruct (xof_squeeze perm vxof (r_xof s') n). cbn. eexists. reflexivity.
  - destruct (xof_squeeze perm vxof (r_xof s) n). cbn. eexists. reflexivity.
Qed.
Theorem feed_rekeyed s d : exists x, r_xof (prng_feed perm s d) = rekey perm x.
Proof. unfold prng_feed. cbn. eexists. reflexivity. Qed.

(* entropy is absorbed into the sponge and re-keyed before the operation returns *)
Theorem feed_absorbs s d :
  r_xof (prng_feed perm s d) = rekey perm (xof_pad perm vxof (xof_absorb perm vxof (r_xof s) d)).
Proof. reflexivity. Qed.
Theorem reseed_absorbs s seed ok sys :
  prng_reseed perm s ((seed, ok) :: sys) =
  ({| r_xof := rekey perm (xof_absorb perm vxof (r_xof s) seed); r_counter := 0 |}, ok, sys).
Proof. reflexivity. Qed.
Theorem init_absorbs seed ok sys :
  prng_init perm ((seed, ok) :: sys) =
  ({| r_xof := rekey perm (xof_absorb perm vxof (xof_init_custom perm vxof (Some name_prng) [] 0) seed); r_counter := 0 |}, ok, sys).
Proof. reflexivity. Qed.

(* ---- reseeding ------------------------------------------------------------------------ *)

Lemma limit_pos : 0 < reseed_limit. Proof. unfold reseed_limit. lia. Qed.

(* a fetch that starts with counter >= limit draws one system answer first and restarts the count *)
Theorem fetch_reseeds s n a sys : reseed_limit <= r_counter s ->
  snd (prng_fetch perm s n (a :: sys)) = sys /\
  r_counter (fst (fst (prng_fetch perm s n (a :: sys)))) = (if n <? reseed_limit then n else reseed_limit).
Proof.
  intros H. unfold prng_fetch. destruct (Nat.leb_spec reseed_limit (r_counter s)) as [_|C]; [|lia].
  unfold prng_reseed. destruct a as [seed ok]. cbn [next_sys].
  destruct (xof_squeeze perm vxof _ n) as [x2 out]. cbn. split; [reflexivity|]. destruct (n <? reseed_limit); reflexivity.
Qed.
Theorem fetch_no_reseed s n sys : r_counter s < reseed_limit ->
  snd (prng_fetch perm s n sys) = sys /\
  r_counter (fst (fst (prng_fetch perm s n sys))) = (if n <? reseed_limit then r_counter s + n else reseed_limit).
Proof.
  intros H. unfold prng_fetch. destruct (Nat.leb_spec reseed_limit (r_counter s)) as [C|_]; [lia|].
  destruct (xof_squeeze perm vxof _ n) as [x2 out]. cbn. auto.
Qed.

(* histories: ghost count p of bytes produced since the last (re)seed *)
Inductive pop := PFetch (n : nat) | PFeed (d : bytes) | PReseed.

Definition papply (st : prng_state * list sys_answer) (o : pop) : prng_state * list sys_answer :=
  let '(s, sys) := st in
  match o with
  | PFetch n => let '(s', _, sys') := prng_fetch perm s n sys in (s', sys')
  | PFeed d => (prng_feed perm s d, sys)
  | PReseed => let '(s', _, sys') := prng_reseed perm s sys in (s', sys')
  end.
Definition ghost (c p : nat) (o : pop) : nat :=
  match o with
  | PFetch n => (if reseed_limit <=? c then 0 else p) + n
  | PFeed _ => p
  | PReseed => 0
  end.
Definition Inv (c p : nat) : Prop :=
  (c < reseed_limit -> c = p) /\ (reseed_limit <= c -> reseed_limit <= p) /\ c < 2 * reseed_limit.

Lemma papply_inv s sys o p : Inv (r_counter s) p ->
  Inv (r_counter (fst (papply (s, sys) o))) (ghost (r_counter s) p o).
Proof.
  intros (I1 & I2 & I3). pose proof limit_pos as LP. remember reseed_limit as L eqn:HL.
  destruct o as [n|d|]; cbn [papply ghost].
  - unfold prng_fetch. rewrite <- HL.
    destruct (Nat.leb_spec L (r_counter s)) as [C|C].
    + destruct (prng_reseed perm s sys) as [[s' b] sys'] eqn:E.
      assert (Z0 : r_counter s' = 0).
      { unfold prng_reseed in E. destruct (next_sys sys) as [[seed ok] sys2]. inversion E; subst. reflexivity. }
      destruct (xof_squeeze perm vxof (r_xof s') n) as [x2 out]. cbn [fst r_counter]. rewrite Z0.
      destruct (Nat.ltb_spec n L); unfold Inv; rewrite <- HL; repeat split; lia.
    + destruct (xof_squeeze perm vxof (r_xof s) n) as [x2 out]. cbn [fst r_counter].
      destruct (Nat.ltb_spec n L); unfold Inv; rewrite <- HL; repeat split; lia.
  - cbn. unfold Inv. rewrite <- HL. auto.
  - unfold prng_reseed. destruct (next_sys sys) as [[seed ok] sys2]. cbn. unfold Inv. rewrite <- HL. repeat split; lia.
Qed.

(* C15: in every history from init, the counter tracks the bytes produced since the last
   (re)seed up to saturation - so a fetch draws fresh system entropy first exactly when at
   least 16384 bytes have been produced since the last reseed - and stays below 32768 *)
Theorem history_inv ops : forall s sys p, Inv (r_counter s) p ->
  let c_p := fold_left (fun '(st, p) o => (papply st o, ghost (r_counter (fst st)) p o)) ops ((s, sys), p) in
  Inv (r_counter (fst (fst c_p))) (snd c_p).
Proof.
  induction ops as [|o ops IH]; intros s sys p I; [exact I|].
  cbn [fold_left]. destruct (papply (s, sys) o) as [s' sys'] eqn:E.
  apply IH. pose proof (papply_inv s sys o p I) as P. rewrite E in P. exact P.
Qed.

Lemma init_inv sys : Inv (r_counter (fst (fst (prng_init perm sys)))) 0.
Proof.
  unfold prng_init. destruct (next_sys sys) as [[seed ok] sys']. cbn. pose proof limit_pos. unfold Inv. repeat split; lia.
Qed.

(* ---- status results ----------------------------------------------------------------- *)

Theorem status_init seed ok sys : snd (fst (prng_init perm ((seed, ok) :: sys))) = ok.
Proof. reflexivity. Qed.
Theorem status_reseed s seed ok sys : snd (fst (prng_reseed perm s ((seed, ok) :: sys))) = ok.
Proof. reflexivity. Qed.
Theorem status_oneshot n seed ok sys : snd (fst (random_oneshot perm n ((seed, ok) :: sys))) = (if ok then 1 else 0)%Z.
Proof. reflexivity. Qed.

Definition result4 {A B C D} (x : A * B * C * D) : B := snd (fst (fst x)).

Theorem status_save s st sys :
  result4 (prng_save_seed perm s st sys) =
  match st with
  | None => (-1)%Z
  | Some st => if st_size st <? 32 then (-1)%Z else if (st_write st =? 32)%Z then 0%Z else (-1)%Z
  end.
Proof.
  unfold prng_save_seed, result4. destruct st as [st|]; [|reflexivity].
  destruct (st_size st <? 32); [reflexivity|]. destruct (prng_fetch perm s 32 sys) as [[s1 seed] sys1]. reflexivity.
Qed.
Theorem status_load s st sys :
  result4 (prng_load_seed perm s st sys) =
  match st with
  | None => (-1)%Z
  | Some st => if st_size st <? 32 then (-1)%Z else if (fst (st_read st) =? 32)%Z then 0%Z else (-1)%Z
  end.
Proof.
  unfold prng_load_seed, result4. destruct st as [st|]; [|reflexivity].
  destruct (st_size st <? 32); [reflexivity|]. destruct (st_read st) as [r data]. cbn [fst].
  destruct (prng_reseed perm _ sys) as [[s2 b] sys2]. destruct (prng_fetch perm s2 32 sys2) as [[s3 seed] sys3]. reflexivity.
Qed.

End WithPerm.
