(* PRNG: structural forward security, reseed bookkeeping, status results. *)
From AsconV Require Import Model.Prngm Proofs.SpongeP Proofs.SqueezeP Proofs.AeadP Proofs.XofP.
From Coq Require Import ZArith.
Local Open Scope nat_scope.

Section WithPerm.
Variable perm : nat -> bytes -> bytes.

(* ---- every operation ends with the re-key: 4 x (zero the rate; permute) ------------ *)

Lemma xof_pad_aligned x : x_count (xof_pad perm vxof x) = 0 /\ x_mode (xof_pad perm vxof x) = false.
Proof.
  unfold xof_pad. destruct (x_mode x) eqn:M.
  - unfold xof_absorb. rewrite M. unfold duplex_c, aligned_c. cbn [Nat.eqb length full_loop].
    rewrite upd_at_nil. cbn. auto.
  - destruct (Nat.eqb_spec (x_count x) 0) as [e|ne]; cbn; auto.
Qed.

Theorem rekey_shape x :
  x_st (rekey perm x) = rekey_st perm (x_st (xof_pad perm vxof x)) /\
  x_count (rekey perm x) = 0 /\ x_mode (rekey perm x) = false /\
  exists t, x_st (rekey perm x) = perm 0 (zero_rate t).
Proof.
  unfold rekey. cbn [x_st x_count x_mode]. destruct (xof_pad_aligned x) as [A B].
  repeat split; auto. unfold rekey_st. eexists. reflexivity.
Qed.

Lemma zero_rate_zero t : length t = 40 -> firstn 8 (zero_rate t) = zeros 8.
Proof.
  intros H. unfold zero_rate. do 8 (destruct t as [|? t]; [discriminate|]). reflexivity.
Qed.

(* the state after each operation is a re-keyed state *)
Theorem init_rekeyed sys : exists x, r_xof (fst (fst (prng_init perm sys))) = rekey perm x.
Proof. unfold prng_init. destruct (next_sys sys) as [[seed ok] sys']. cbn. eexists. reflexivity. Qed.
Theorem reseed_rekeyed s sys : exists x, r_xof (fst (fst (prng_reseed perm s sys))) = rekey perm x.
Proof. unfold prng_reseed. destruct (next_sys sys) as [[seed ok] sys']. cbn. eexists. reflexivity. Qed.
Theorem fetch_rekeyed s n sys : exists x, r_xof (fst (fst (prng_fetch perm s n sys))) = rekey perm x.
Proof.
  unfold prng_fetch. destruct (reseed_limit <=? r_counter s).
  - destruct (prng_reseed perm s sys) as [[s' b] sys']. destruct (xof_squeeze perm vxof (r_xof s') n). cbn. eexists. reflexivity.
  - destruct (xof_squeeze perm vxof (r_xof s) n). cbn. eexists. reflexivity.
Qed.
Theorem feed_rekeyed s d : exists x, r_xof (prng_feed perm s d) = rekey perm x.
Proof. unfold prng_feed. cbn. eexists. reflexivity. Qed.

(* entropy is absorbed into the sponge and re-keyed before the operation returns *)
Theorem feed_absorbs s d :
  r_xof (prng_feed perm s d) = rekey perm (xof_pad perm vxof (xof_absorb perm vxof (r_xof s) d)).
Proof. reflexivity. Qed.
Theorem reseed_absorbs s seed ok sys :
  prng_reseed perm s ((seed, ok) :: sys) =
  ({| r_xof := rekey perm (xof_absorb perm vxof (r_xof s) seed); r_counter := 0 |}, ok, sys).
Proof. reflexivity. Qed.
Theorem init_absorbs seed ok sys :
  prng_init perm ((seed, ok) :: sys) =
  ({| r_xof := rekey perm (xof_absorb perm vxof (xof_init_custom perm vxof (Some name_prng) [] 0) seed); r_counter := 0 |}, ok, sys).
Proof. reflexivity. Qed.

(* ---- reseeding ------------------------------------------------------------------------ *)

Lemma limit_pos : 0 < reseed_limit. Proof. unfold reseed_limit. lia. Qed.

(* a fetch that starts with counter >= limit draws one system answer first and restarts the count *)
Theorem fetch_reseeds s n a sys : reseed_limit <= r_counter s ->
  snd (prng_fetch perm s n (a :: sys)) = sys /\
  r_counter (fst (fst (prng_fetch perm s n (a :: sys)))) = (if n <? reseed_limit then n else reseed_limit).
Proof.
  intros H. unfold prng_fetch. destruct (Nat.leb_spec reseed_limit (r_counter s)) as [_|C]; [|lia].
  unfold prng_reseed. destruct a as [seed ok]. cbn [next_sys].
  destruct (xof_squeeze perm vxof _ n) as [x2 out]. cbn. split; [reflexivity|]. destruct (n <? reseed_limit); reflexivity.
Qed.
Theorem fetch_no_reseed s n sys : r_counter s < reseed_limit ->
  snd (prng_fetch perm s n sys) = sys /\
  r_counter (fst (fst (prng_fetch perm s n sys))) = (if n <? reseed_limit then r_counter s + n else reseed_limit).
Proof.
  intros H. unfold prng_fetch. destruct (Nat.leb_spec reseed_limit (r_counter s)) as [C|_]; [lia|].
  destruct (xof_squeeze perm vxof _ n) as [x2 out]. cbn. auto.
Qed.

(* ---- histories -------------------------------------------------------------------------
   Every operation of random.h on one generator object, including a second init of the same
   object, the two seed-storage operations (with their full storage descriptor; None = NULL
   pointer) and the one-shot ascon_random (which leaves the object alone but consumes an
   answer of the system source). *)
Inductive pop :=
| PInit
| PFetch (n : nat)
| PFeed (d : bytes)
| PReseed
| PSave (st : option nvstorage)
| PLoad (st : option nvstorage)
| POneshot (n : nat).

(* save / load go ahead only with a storage block of at least 32 bytes *)
Definition usable (st : option nvstorage) : bool :=
  match st with None => false | Some g => negb (st_size (nv_cb g) <? 32) end.

Definition papply (st : prng_state * list sys_answer) (o : pop) : prng_state * list sys_answer :=
  let '(s, sys) := st in
  match o with
  | PInit => let '(s', _, sys') := prng_init perm sys in (s', sys')
  | PFetch n => let '(s', _, sys') := prng_fetch perm s n sys in (s', sys')
  | PFeed d => (prng_feed perm s d, sys)
  | PReseed => let '(s', _, sys') := prng_reseed perm s sys in (s', sys')
  | PSave g => let '(s', _, _, sys') := prng_save_seed_g perm s g sys in (s', sys')
  | PLoad g => let '(s', _, _, sys') := prng_load_seed_g perm s g sys in (s', sys')
  | POneshot n => (s, snd (random_oneshot perm n sys))
  end.

(* ghost count p: the bytes the generator has produced since it last drew from the system
   source, were it to draw whenever 16384 or more have been produced.  Defined from the
   operations alone (it never looks at the counter field): a fetch of n bytes, and the 32-byte
   fetch inside a save that goes ahead, start from 0 if a reseed was due; a load that goes
   ahead reseeds and then produces the 32 bytes of the new saved seed. *)
Definition ghost (p : nat) (o : pop) : nat :=
  match o with
  | PInit => 0
  | PFetch n => (if reseed_limit <=? p then 0 else p) + n
  | PFeed _ => p
  | PReseed => 0
  | PSave g => if usable g then (if reseed_limit <=? p then 0 else p) + 32 else p
  | PLoad g => if usable g then 32 else p
  | POneshot _ => p
  end.

Definition Inv (c p : nat) : Prop :=
  (c < reseed_limit -> c = p) /\ (reseed_limit <= c -> reseed_limit <= p) /\ c < 2 * reseed_limit.

Lemma reseed_counter s sys : r_counter (fst (fst (prng_reseed perm s sys))) = 0.
Proof. unfold prng_reseed. destruct (next_sys sys) as [[seed ok] sys2]. reflexivity. Qed.

Lemma fetch_inv s n sys p : Inv (r_counter s) p ->
  Inv (r_counter (fst (fst (prng_fetch perm s n sys)))) ((if reseed_limit <=? p then 0 else p) + n).
Proof.
  intros (I1 & I2 & I3). pose proof limit_pos as LP. unfold prng_fetch. remember reseed_limit as L eqn:HL.
  destruct (Nat.leb_spec L (r_counter s)) as [C|C].
  - pose proof (reseed_counter s sys) as Z0.
    destruct (prng_reseed perm s sys) as [[s' b] sys']. cbn [fst] in Z0.
    destruct (xof_squeeze perm vxof (r_xof s') n) as [x2 out]. cbn [fst r_counter]. rewrite Z0.
    destruct (Nat.leb_spec L p) as [P|P]; [|lia].
    destruct (Nat.ltb_spec n L); unfold Inv; rewrite <- HL; repeat split; lia.
  - destruct (xof_squeeze perm vxof (r_xof s) n) as [x2 out]. cbn [fst r_counter].
    destruct (Nat.leb_spec L p) as [P|P]; [lia|].
    destruct (Nat.ltb_spec n L); unfold Inv; rewrite <- HL; repeat split; lia.
Qed.

Lemma inv_00 : Inv 0 0.
Proof. pose proof limit_pos. unfold Inv. repeat split; lia. Qed.

Lemma limit_gt_32 : 32 < reseed_limit. Proof. unfold reseed_limit. lia. Qed.

Lemma usable_some g : usable (Some g) = negb (st_size (nv_cb g) <? 32). Proof. reflexivity. Qed.

(* state and remaining script after save / load, in terms of the basic operations *)
Lemma save_g_state s g sys : usable (Some g) = true ->
  fst (fst (fst (prng_save_seed_g perm s (Some g) sys))) = fst (fst (prng_fetch perm s 32 sys)) /\
  snd (prng_save_seed_g perm s (Some g) sys) = snd (prng_fetch perm s 32 sys).
Proof.
  rewrite usable_some. unfold prng_save_seed_g. destruct (st_size (nv_cb g) <? 32); [discriminate|]. intros _.
  destruct (prng_fetch perm s 32 sys) as [[s1 seed] sys1]. split; reflexivity.
Qed.
Lemma save_g_unusable s g sys : usable g = false ->
  prng_save_seed_g perm s g sys = (s, (-1)%Z, [], sys).
Proof.
  destruct g as [g|]; [|reflexivity]. rewrite usable_some. unfold prng_save_seed_g.
  destruct (st_size (nv_cb g) <? 32); [reflexivity|discriminate].
Qed.
Definition load_mid (s : prng_state) (g : nvstorage) (sys : list sys_answer) : prng_state * list sys_answer :=
  let s1 := if (fst (st_read (nv_cb g)) =? 32)%Z then prng_feed perm s (firstn 32 (snd (st_read (nv_cb g)))) else s in
  (fst (fst (prng_reseed perm s1 sys)), snd (prng_reseed perm s1 sys)).
Lemma load_g_state s g sys : usable (Some g) = true ->
  fst (fst (fst (prng_load_seed_g perm s (Some g) sys))) =
    fst (fst (prng_fetch perm (fst (load_mid s g sys)) 32 (snd (load_mid s g sys)))) /\
  snd (prng_load_seed_g perm s (Some g) sys) = snd (prng_fetch perm (fst (load_mid s g sys)) 32 (snd (load_mid s g sys))).
Proof.
  rewrite usable_some. unfold prng_load_seed_g, load_mid. destruct (st_size (nv_cb g) <? 32); [discriminate|]. intros _.
  destruct (st_read (nv_cb g)) as [r data]. cbn [fst snd].
  destruct (prng_reseed perm _ sys) as [[s2 b] sys2]. cbn [fst snd].
  destruct (prng_fetch perm s2 32 sys2) as [[s3 seed] sys3]. split; reflexivity.
Qed.
Lemma load_g_unusable s g sys : usable g = false ->
  prng_load_seed_g perm s g sys = (s, (-1)%Z, [], sys).
Proof.
  destruct g as [g|]; [|reflexivity]. rewrite usable_some. unfold prng_load_seed_g.
  destruct (st_size (nv_cb g) <? 32); [reflexivity|discriminate].
Qed.
Lemma load_mid_counter s g sys : r_counter (fst (load_mid s g sys)) = 0.
Proof. unfold load_mid. cbn [fst]. apply reseed_counter. Qed.

Lemma papply_inv s sys o p : Inv (r_counter s) p ->
  Inv (r_counter (fst (papply (s, sys) o))) (ghost p o).
Proof.
  intros I. destruct o as [|n|d| |g|g|n]; cbn [papply ghost].
  - unfold prng_init. destruct (next_sys sys) as [[seed ok] sys']. cbn. apply inv_00.
  - pose proof (fetch_inv s n sys p I) as F. destruct (prng_fetch perm s n sys) as [[s' o] sys']. exact F.
  - exact I.
  - pose proof (reseed_counter s sys) as Z0. destruct (prng_reseed perm s sys) as [[s' b] sys'].
    cbn [fst] in *. rewrite Z0. apply inv_00.
  - destruct (usable g) eqn:U.
    + destruct g as [g|]; [|discriminate]. pose proof (save_g_state s g sys U) as [E _].
      destruct (prng_save_seed_g perm s (Some g) sys) as [[[s' r] cs] sys']. cbn [fst] in *. rewrite E.
      apply fetch_inv, I.
    + rewrite (save_g_unusable s g sys U). exact I.
  - destruct (usable g) eqn:U.
    + destruct g as [g|]; [|discriminate]. pose proof (load_g_state s g sys U) as [E _].
      destruct (prng_load_seed_g perm s (Some g) sys) as [[[s' r] cs] sys']. cbn [fst] in *. rewrite E.
      pose proof (fetch_inv (fst (load_mid s g sys)) 32 (snd (load_mid s g sys)) 0) as F.
      rewrite load_mid_counter in F. specialize (F inv_00).
      pose proof limit_pos as LP. destruct (Nat.leb_spec reseed_limit 0) as [H|H]; [lia|]. exact F.
    + rewrite (load_g_unusable s g sys U). exact I.
  - exact I.
Qed.

Definition hstep (x : (prng_state * list sys_answer) * nat) (o : pop) : (prng_state * list sys_answer) * nat :=
  (papply (fst x) o, ghost (snd x) o).

(* C15: in every history from init, the counter tracks the bytes produced since the last
   (re)seed up to saturation - so a fetch draws fresh system entropy first exactly when at
   least 16384 bytes have been produced since the last reseed - and stays below 32768 *)
Theorem history_inv ops : forall s sys p, Inv (r_counter s) p ->
  let c_p := fold_left hstep ops ((s, sys), p) in
  Inv (r_counter (fst (fst c_p))) (snd c_p).
Proof.
  induction ops as [|o ops IH]; intros s sys p I; [exact I|].
  cbn [fold_left]. destruct (papply (s, sys) o) as [s' sys'] eqn:E.
  assert (H : hstep (s, sys, p) o = (s', sys', ghost p o)) by (unfold hstep; cbn [fst snd]; rewrite E; reflexivity).
  rewrite H. apply IH. pose proof (papply_inv s sys o p I) as P. rewrite E in P. exact P.
Qed.

Lemma init_inv sys : Inv (r_counter (fst (fst (prng_init perm sys)))) 0.
Proof.
  unfold prng_init. destruct (next_sys sys) as [[seed ok] sys']. cbn. apply inv_00.
Qed.

(* the system source is consulted before output exactly when the budget is used up: for a
   state whose counter is related to the ghost count p (every state of every history, by
   history_inv), a fetch - also the one inside save_seed - consumes the next system answer
   iff p >= 16384; and load_seed always consumes exactly one *)
Theorem fetch_draws_iff_due s p n a sys : Inv (r_counter s) p ->
  snd (prng_fetch perm s n (a :: sys)) = if reseed_limit <=? p then sys else a :: sys.
Proof.
  intros (I1 & I2 & I3). destruct (Nat.leb_spec reseed_limit p) as [P|P].
  - assert (C : reseed_limit <= r_counter s) by (destruct (Nat.le_gt_cases reseed_limit (r_counter s)); [assumption|specialize (I1 H); lia]).
    exact (proj1 (fetch_reseeds s n a sys C)).
  - assert (C : r_counter s < reseed_limit) by (destruct (Nat.le_gt_cases reseed_limit (r_counter s)); [specialize (I2 H); lia|assumption]).
    exact (proj1 (fetch_no_reseed s n (a :: sys) C)).
Qed.
Theorem save_draws_iff_due s p g a sys : Inv (r_counter s) p -> usable (Some g) = true ->
  snd (prng_save_seed_g perm s (Some g) (a :: sys)) = if reseed_limit <=? p then sys else a :: sys.
Proof.
  intros I U. rewrite (proj2 (save_g_state s g (a :: sys) U)). now apply fetch_draws_iff_due.
Qed.
Theorem load_draws_one s g a sys : usable (Some g) = true ->
  snd (prng_load_seed_g perm s (Some g) (a :: sys)) = sys.
Proof.
  intros U. rewrite (proj2 (load_g_state s g (a :: sys) U)).
  assert (E : snd (load_mid s g (a :: sys)) = sys).
  { unfold load_mid. cbn [snd]. unfold prng_reseed. destruct a as [seed ok]. reflexivity. }
  pose proof (load_mid_counter s g (a :: sys)) as C0. pose proof limit_pos as LP.
  rewrite E. apply fetch_no_reseed. rewrite C0. exact LP.
Qed.
Theorem unusable_draws_none s g sys : usable g = false ->
  snd (prng_save_seed_g perm s g sys) = sys /\ snd (prng_load_seed_g perm s g sys) = sys.
Proof. intros U. rewrite save_g_unusable, load_g_unusable by exact U. split; reflexivity. Qed.

(* ---- forward security over histories ---------------------------------------------------
   Every operation either leaves the object untouched (save / load refused: NULL or a block
   smaller than 32 bytes; one-shot) or ends with the re-key.  So in every history from init
   the object is in a re-keyed state, also right after save_seed has handed 32 output bytes
   to the storage callback and after load_seed has written the replacement seed. *)
Definition rekeyed (s : prng_state) : Prop := exists x, r_xof s = rekey perm x.

Theorem save_rekeyed s g sys : usable g = true -> rekeyed (fst (fst (fst (prng_save_seed_g perm s g sys)))).
Proof.
  intros U. destruct g as [g|]; [|discriminate]. rewrite (proj1 (save_g_state s g sys U)). apply fetch_rekeyed.
Qed.
Theorem load_rekeyed s g sys : usable g = true -> rekeyed (fst (fst (fst (prng_load_seed_g perm s g sys)))).
Proof.
  intros U. destruct g as [g|]; [|discriminate]. rewrite (proj1 (load_g_state s g sys U)). apply fetch_rekeyed.
Qed.

Lemma papply_rekeyed s sys o : rekeyed s -> rekeyed (fst (papply (s, sys) o)).
Proof.
  intros R. destruct o as [|n|d| |g|g|n]; cbn [papply].
  - pose proof (init_rekeyed sys) as H. destruct (prng_init perm sys) as [[s' b] sys']. exact H.
  - pose proof (fetch_rekeyed s n sys) as H. destruct (prng_fetch perm s n sys) as [[s' b] sys']. exact H.
  - apply feed_rekeyed.
  - pose proof (reseed_rekeyed s sys) as H. destruct (prng_reseed perm s sys) as [[s' b] sys']. exact H.
  - destruct (usable g) eqn:U.
    + pose proof (save_rekeyed s g sys U) as H. destruct (prng_save_seed_g perm s g sys) as [[[s' r] cs] sys']. exact H.
    + rewrite (save_g_unusable s g sys U). exact R.
  - destruct (usable g) eqn:U.
    + pose proof (load_rekeyed s g sys U) as H. destruct (prng_load_seed_g perm s g sys) as [[[s' r] cs] sys']. exact H.
    + rewrite (load_g_unusable s g sys U). exact R.
  - exact R.
Qed.

Theorem history_rekeyed ops : forall s sys, rekeyed s -> rekeyed (fst (fold_left papply ops (s, sys))).
Proof.
  induction ops as [|o ops IH]; intros s sys R; [exact R|].
  cbn [fold_left]. pose proof (papply_rekeyed s sys o R) as P.
  destruct (papply (s, sys) o) as [s' sys']. apply IH. exact P.
Qed.

Theorem init_history_rekeyed ops sys :
  let '(s0, _, sys0) := prng_init perm sys in rekeyed (fst (fold_left papply ops (s0, sys0))).
Proof.
  pose proof (init_rekeyed sys) as R. destruct (prng_init perm sys) as [[s0 ok] sys0]. apply history_rekeyed. exact R.
Qed.

Theorem init_history_inv ops sys :
  let '(s0, _, sys0) := prng_init perm sys in
  let c_p := fold_left hstep ops ((s0, sys0), 0) in
  Inv (r_counter (fst (fst c_p))) (snd c_p).
Proof.
  pose proof (init_inv sys) as I. destruct (prng_init perm sys) as [[s0 ok] sys0]. cbn [fst] in I.
  exact (history_inv ops s0 sys0 0 I).
Qed.

Theorem init_history_due ops sys n g a rest :
  let '(s0, _, sys0) := prng_init perm sys in
  let c_p := fold_left hstep ops ((s0, sys0), 0) in
  let s := fst (fst c_p) in
  let p := snd c_p in
  snd (prng_fetch perm s n (a :: rest)) = (if reseed_limit <=? p then rest else a :: rest) /\
  (usable (Some g) = true ->
   snd (prng_save_seed_g perm s (Some g) (a :: rest)) = (if reseed_limit <=? p then rest else a :: rest) /\
   snd (prng_load_seed_g perm s (Some g) (a :: rest)) = rest).
Proof.
  pose proof (init_history_inv ops sys) as I. destruct (prng_init perm sys) as [[s0 ok] sys0]. cbv zeta in *.
  split; [now apply fetch_draws_iff_due|]. intros U. split; [now apply save_draws_iff_due|now apply load_draws_one].
Qed.

(* the two folds visit the same states *)
Lemma hstep_fst ops : forall x, fst (fold_left hstep ops x) = fold_left papply ops (fst x).
Proof. induction ops as [|o ops IH]; intros x; [reflexivity|]. cbn [fold_left]. rewrite IH. reflexivity. Qed.

(* ---- status results ----------------------------------------------------------------- *)

Theorem status_init seed ok sys : snd (fst (prng_init perm ((seed, ok) :: sys))) = ok.
Proof. reflexivity. Qed.
Theorem status_reseed s seed ok sys : snd (fst (prng_reseed perm s ((seed, ok) :: sys))) = ok.
Proof. reflexivity. Qed.
Theorem status_oneshot n seed ok sys : snd (fst (random_oneshot perm n ((seed, ok) :: sys))) = (if ok then 1 else 0)%Z.
Proof. reflexivity. Qed.

Definition result4 {A B C D} (x : A * B * C * D) : B := snd (fst (fst x)).

Theorem status_save s st sys :
  result4 (prng_save_seed perm s st sys) =
  match st with
  | None => (-1)%Z
  | Some st => if st_size st <? 32 then (-1)%Z else if (st_write st =? 32)%Z then 0%Z else (-1)%Z
  end.
Proof.
  unfold prng_save_seed, result4. destruct st as [st|]; [|reflexivity].
  destruct (st_size st <? 32); [reflexivity|]. destruct (prng_fetch perm s 32 sys) as [[s1 seed] sys1]. reflexivity.
Qed.
Theorem status_load s st sys :
  result4 (prng_load_seed perm s st sys) =
  match st with
  | None => (-1)%Z
  | Some st => if st_size st <? 32 then (-1)%Z else if (fst (st_read st) =? 32)%Z then 0%Z else (-1)%Z
  end.
Proof.
  unfold prng_load_seed, result4. destruct st as [st|]; [|reflexivity].
  destruct (st_size st <? 32); [reflexivity|]. destruct (st_read st) as [r data]. cbn [fst].
  destruct (prng_reseed perm _ sys) as [[s2 b] sys2]. destruct (prng_fetch perm s2 32 sys2) as [[s3 seed] sys3]. reflexivity.
Qed.


(* ---- save / load with the full storage descriptor: status and callback arguments ---------- *)

Definition calls4 {A B C D} (x : A * B * C * D) : C := snd (fst x).

(* the status depends on the region size and on the count the callback returns, on nothing else
   in the descriptor (page size, erase size, address, partial writes) *)
Theorem status_save_g s g sys :
  result4 (prng_save_seed_g perm s g sys) =
  match g with
  | None => (-1)%Z
  | Some g => if st_size (nv_cb g) <? 32 then (-1)%Z else if (st_write (nv_cb g) =? 32)%Z then 0%Z else (-1)%Z
  end.
Proof.
  unfold prng_save_seed_g, result4. destruct g as [g|]; [|reflexivity].
  destruct (st_size (nv_cb g) <? 32); [reflexivity|]. destruct (prng_fetch perm s 32 sys) as [[s1 seed] sys1]. reflexivity.
Qed.
Theorem status_load_g s g sys :
  result4 (prng_load_seed_g perm s g sys) =
  match g with
  | None => (-1)%Z
  | Some g => if st_size (nv_cb g) <? 32 then (-1)%Z else if (fst (st_read (nv_cb g)) =? 32)%Z then 0%Z else (-1)%Z
  end.
Proof.
  unfold prng_load_seed_g, result4. destruct g as [g|]; [|reflexivity].
  destruct (st_size (nv_cb g) <? 32); [reflexivity|]. destruct (st_read (nv_cb g)) as [r data]. cbn [fst].
  destruct (prng_reseed perm _ sys) as [[s2 b] sys2]. destruct (prng_fetch perm s2 32 sys2) as [[s3 seed] sys3]. reflexivity.
Qed.

(* the calls made, in order, with their arguments: save = one write of the 32 bytes just
   fetched, at offset 0, erase requested iff erase_size <> 0; load = one read of 32 bytes at
   offset 0, then one such write of the 32 bytes fetched after feed (if 32 were read) and
   reseed - whatever the read returned; none when refused *)
Theorem calls_save_g s g sys :
  calls4 (prng_save_seed_g perm s g sys) =
  match g with
  | None => []
  | Some g => if st_size (nv_cb g) <? 32 then []
              else [CbWrite 0 32 (snd (fst (prng_fetch perm s 32 sys))) (negb (nv_erase g =? 0))]
  end.
Proof.
  unfold prng_save_seed_g, calls4. destruct g as [g|]; [|reflexivity].
  destruct (st_size (nv_cb g) <? 32); [reflexivity|]. destruct (prng_fetch perm s 32 sys) as [[s1 seed] sys1]. reflexivity.
Qed.
Theorem calls_load_g s g sys :
  calls4 (prng_load_seed_g perm s g sys) =
  match g with
  | None => []
  | Some g => if st_size (nv_cb g) <? 32 then []
              else [CbRead 0 32;
                    CbWrite 0 32 (snd (fst (prng_fetch perm (fst (load_mid s g sys)) 32 (snd (load_mid s g sys))))) (negb (nv_erase g =? 0))]
  end.
Proof.
  unfold prng_load_seed_g, calls4, load_mid. destruct g as [g|]; [|reflexivity].
  destruct (st_size (nv_cb g) <? 32); [reflexivity|]. destruct (st_read (nv_cb g)) as [r data]. cbn [fst snd].
  destruct (prng_reseed perm _ sys) as [[s2 b] sys2]. cbn [fst snd].
  destruct (prng_fetch perm s2 32 sys2) as [[s3 seed] sys3]. reflexivity.
Qed.

(* forgetting the geometry and the arguments gives the operations Model/Leak.v (C11) uses *)
Definition forget (g : option nvstorage) : option storage := option_map nv_cb g.
Fixpoint written (cs : list cb_call) : option bytes :=
  match cs with
  | [] => None
  | CbWrite _ _ d _ :: _ => Some d
  | CbRead _ _ :: r => written r
  end.
Theorem save_g_refines s g sys :
  prng_save_seed perm s (forget g) sys =
  let '(s1, r, cs, sys1) := prng_save_seed_g perm s g sys in (s1, r, written cs, sys1).
Proof.
  unfold prng_save_seed, prng_save_seed_g, forget. destruct g as [g|]; [|reflexivity]. cbn [option_map].
  destruct (st_size (nv_cb g) <? 32); [reflexivity|]. destruct (prng_fetch perm s 32 sys) as [[s1 seed] sys1]. reflexivity.
Qed.
Theorem load_g_refines s g sys :
  prng_load_seed perm s (forget g) sys =
  let '(s1, r, cs, sys1) := prng_load_seed_g perm s g sys in (s1, r, written cs, sys1).
Proof.
  unfold prng_load_seed, prng_load_seed_g, forget. destruct g as [g|]; [|reflexivity]. cbn [option_map].
  destruct (st_size (nv_cb g) <? 32); [reflexivity|]. destruct (st_read (nv_cb g)) as [r data].
  destruct (prng_reseed perm _ sys) as [[s2 b] sys2]. destruct (prng_fetch perm s2 32 sys2) as [[s3 seed] sys3]. reflexivity.
Qed.

End WithPerm.

(* ---- the bytes handed to the write callback are exactly 32 -------------------------------
   needs the state to be well formed (40 state bytes, count below the rate), which holds in
   every history from init when the permutation preserves the length 40 *)
Section WithPermLen.
Variable perm : nat -> bytes -> bytes.
Hypothesis perm_len : forall r s, length s = 40 -> length (perm r s) = 40.

Local Notation vx_ok := (or_introl eq_refl : xvariant_ok vxof).

Lemma p_absorb_wf s d : xwf vxof s ->
  xwf vxof (xof_absorb perm vxof s d) /\ x_mode (xof_absorb perm vxof s d) = false.
Proof.
  intros Hw. destruct (x_mode s) eqn:M.
  - assert (E : xof_absorb perm vxof s d =
                xof_absorb perm vxof {| x_st := perm 0 (x_st s); x_count := 0; x_mode := false |} d).
    { unfold xof_absorb. rewrite M. reflexivity. }
    rewrite E. apply (xof_absorb_wf perm perm_len vxof vx_ok); [reflexivity|].
    destruct Hw as [Hl _]. split; cbn [x_st x_count x_mode]; [now apply perm_len|cbn; lia].
  - now apply (xof_absorb_wf perm perm_len vxof vx_ok).
Qed.

Lemma p_squeeze_wf s n : xwf vxof s ->
  xwf vxof (fst (xof_squeeze perm vxof s n)) /\ length (snd (xof_squeeze perm vxof s n)) = n.
Proof.
  intros Hw. rewrite (xof_squeeze_serial perm perm_len vxof vx_ok s n Hw). cbv zeta.
  pose proof (enter_wf perm perm_len vxof vx_ok s Hw) as [E1 E2].
  pose proof (sq_serial_inv perm perm_len vxof vx_ok (xof_enter_squeeze perm vxof s) n E1 E2) as [I1 I2].
  destruct (xof_enter_squeeze perm vxof s) as [st c]. cbn [fst snd] in *.
  split; [split; cbn [x_st x_count x_mode]; assumption|].
  unfold sq_serial. change (xv_lazy vxof) with true. cbv iota.
  pose proof (lazy_serial_sim (perm 0) (xv_rate_out vxof) 40 (p0_len perm perm_len) (ro0 vxof vx_ok) (ro40 vxof vx_ok)
                n st c E1 E2) as [_ S]. rewrite S. unfold alpha. cbn [fst snd].
  assert (L : length (if c =? 0 then perm 0 st else st) = 40) by (destruct (c =? 0); auto).
  pose proof (serial_inv bf_sq (perm 0) (xv_rate_out vxof) 40 (p0_len perm perm_len) (ro0 vxof vx_ok) (ro40 vxof vx_ok)
                _ c (zeros n) E1 L) as [_ [_ [I3 _]]].
  rewrite I3. unfold zeros. apply repeat_length.
Qed.

Lemma p_pad_wf s : xwf vxof s -> xwf vxof (xof_pad perm vxof s).
Proof.
  intros Hw. unfold xof_pad. destruct (x_mode s) eqn:M; [apply p_absorb_wf, Hw|].
  destruct (x_count s =? 0); [exact Hw|]. destruct Hw as [Hl _].
  split; cbn [x_st x_count x_mode]; [now apply perm_len|cbn; lia].
Qed.

Lemma zero_rate_keeps_len t : length (zero_rate t) = length t.
Proof. unfold zero_rate. apply set_at_len. Qed.

Lemma p_rekey_wf x : xwf vxof x -> xwf vxof (rekey perm x).
Proof.
  intros Hw. pose proof (p_pad_wf x Hw) as [Hl _]. destruct (xof_pad_aligned perm x) as [A B].
  unfold rekey. split; cbn [x_st x_count x_mode].
  - unfold rekey_st. repeat (apply perm_len; rewrite zero_rate_keeps_len). exact Hl.
  - rewrite A, B. cbn. lia.
Qed.

Lemma p_init_custom_wf name custom outlen : xwf vxof (xof_init_custom perm vxof name custom outlen).
Proof.
  unfold xof_init_custom.
  set (st0 := perm 0 _).
  assert (W0 : xwf vxof (mk st0)).
  { split; cbn [mk x_st x_count x_mode]; [|cbn; lia]. unfold st0. apply perm_len. rewrite !set_at_len. unfold zeros. apply repeat_length. }
  unfold xof_absorb_custom. destruct custom as [|c cs]; [exact W0|].
  pose proof (p_absorb_wf (mk st0) (c :: cs) W0) as [[Hl _] Hm].
  split; cbn [x_st x_count x_mode].
  - rewrite xor_at_len. apply perm_len. now rewrite xor_at_len.
  - rewrite Hm. cbn. lia.
Qed.

Definition pwf (s : prng_state) : Prop := xwf vxof (r_xof s).

Lemma init_wf sys : pwf (fst (fst (prng_init perm sys))).
Proof.
  unfold prng_init, pwf. destruct (next_sys sys) as [[seed ok] sys']. cbn [fst r_xof].
  apply p_rekey_wf, p_absorb_wf, p_init_custom_wf.
Qed.
Lemma reseed_wf s sys : pwf s -> pwf (fst (fst (prng_reseed perm s sys))).
Proof.
  unfold prng_reseed, pwf. intros W. destruct (next_sys sys) as [[seed ok] sys']. cbn [fst r_xof].
  apply p_rekey_wf, p_absorb_wf, W.
Qed.
Lemma fetch_wf s n sys : pwf s ->
  pwf (fst (fst (prng_fetch perm s n sys))) /\ length (snd (fst (prng_fetch perm s n sys))) = n.
Proof.
  unfold pwf. intros W. unfold prng_fetch.
  assert (W1 : xwf vxof (r_xof (fst (if reseed_limit <=? r_counter s
                then let '(s', _, sys') := prng_reseed perm s sys in (s', sys') else (s, sys))))).
  { destruct (reseed_limit <=? r_counter s); [|exact W].
    pose proof (reseed_wf s sys W) as R. destruct (prng_reseed perm s sys) as [[s' b] sys']. exact R. }
  destruct (if reseed_limit <=? r_counter s then _ else _) as [s1 sys1]. cbn [fst] in W1.
  pose proof (p_squeeze_wf (r_xof s1) n W1) as [Q1 Q2].
  destruct (xof_squeeze perm vxof (r_xof s1) n) as [x2 out]. cbn [fst snd r_xof] in *.
  split; [apply p_rekey_wf, Q1|exact Q2].
Qed.
Lemma feed_wf s d : pwf s -> pwf (prng_feed perm s d).
Proof. unfold pwf, prng_feed. intros W. cbn [r_xof]. apply p_rekey_wf, p_pad_wf, p_absorb_wf, W. Qed.

Lemma load_mid_wf s g sys : pwf s -> pwf (fst (load_mid perm s g sys)).
Proof.
  intros W. unfold load_mid. cbn [fst]. apply reseed_wf. destruct (_ =? 32)%Z; [apply feed_wf, W|exact W].
Qed.

Lemma papply_wf s sys o : pwf s -> pwf (fst (papply perm (s, sys) o)).
Proof.
  intros W. destruct o as [|n|d| |g|g|n]; cbn [papply].
  - pose proof (init_wf sys) as H. destruct (prng_init perm sys) as [[s' b] sys']. exact H.
  - pose proof (proj1 (fetch_wf s n sys W)) as H. destruct (prng_fetch perm s n sys) as [[s' b] sys']. exact H.
  - apply feed_wf, W.
  - pose proof (reseed_wf s sys W) as H. destruct (prng_reseed perm s sys) as [[s' b] sys']. exact H.
  - destruct (usable g) eqn:U.
    + destruct g as [g|]; [|discriminate]. pose proof (proj1 (save_g_state perm s g sys U)) as E.
      destruct (prng_save_seed_g perm s (Some g) sys) as [[[s' r] cs] sys']. cbn [fst] in *. rewrite E.
      apply fetch_wf, W.
    + rewrite (save_g_unusable perm s g sys U). exact W.
  - destruct (usable g) eqn:U.
    + destruct g as [g|]; [|discriminate]. pose proof (proj1 (load_g_state perm s g sys U)) as E.
      destruct (prng_load_seed_g perm s (Some g) sys) as [[[s' r] cs] sys']. cbn [fst] in *. rewrite E.
      apply fetch_wf, load_mid_wf, W.
    + rewrite (load_g_unusable perm s g sys U). exact W.
  - exact W.
Qed.
Theorem history_wf ops : forall s sys, pwf s -> pwf (fst (fold_left (papply perm) ops (s, sys))).
Proof.
  induction ops as [|o ops IH]; intros s sys W; [exact W|].
  cbn [fold_left]. pose proof (papply_wf s sys o W) as P.
  destruct (papply perm (s, sys) o) as [s' sys']. apply IH. exact P.
Qed.

(* what a callback may be handed, for a descriptor g *)
Definition call_ok (g : nvstorage) (c : cb_call) : Prop :=
  match c with
  | CbRead off len => off = 0 /\ len = 32
  | CbWrite off len data erase => off = 0 /\ len = 32 /\ length data = 32 /\ erase = negb (nv_erase g =? 0)
  end.

Theorem calls_ok s g sys : pwf s ->
  Forall (call_ok g) (calls4 (prng_save_seed_g perm s (Some g) sys)) /\
  Forall (call_ok g) (calls4 (prng_load_seed_g perm s (Some g) sys)).
Proof.
  intros W. rewrite calls_save_g, calls_load_g. destruct (st_size (nv_cb g) <? 32); [split; constructor|].
  split.
  - constructor; [|constructor]. cbn. repeat split. apply fetch_wf, W.
  - constructor; [cbn; auto|]. constructor; [|constructor]. cbn. repeat split. apply fetch_wf, load_mid_wf, W.
Qed.

Theorem init_history_calls_ok ops sys g sys' :
  let '(s0, _, sys0) := prng_init perm sys in
  let s := fst (fold_left (papply perm) ops (s0, sys0)) in
  Forall (call_ok g) (calls4 (prng_save_seed_g perm s (Some g) sys')) /\
  Forall (call_ok g) (calls4 (prng_load_seed_g perm s (Some g) sys')).
Proof.
  pose proof (init_wf sys) as W. destruct (prng_init perm sys) as [[s0 ok] sys0]. cbn [fst] in W. cbv zeta.
  apply calls_ok, history_wf, W.
Qed.

End WithPermLen.
