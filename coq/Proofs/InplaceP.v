(* In-place block processing: a routine that handles position i by reading
   src[i] (and state it owns) and then writing dest[i], left to right, gives
   the same bytes when dest and src are the same buffer as when they are
   disjoint.  Granularity: one "cell" = what one loop iteration or one word
   macro reads before it writes (a byte for lw_xor_block_2_dest/_swap and the
   generic extract-and-overwrite loop, a 64-bit word for the sliced64 macros,
   an 8-byte block for the sliced32 ones). *)
From Coq Require Import List Arith Lia.
Import ListNotations.

Section Inplace.
Variables C St : Type.                       (* cell, private state *)
Variable step : St -> C -> St * C.            (* one iteration: state, src cell -> state', dest cell *)

(* out of place: dest is a separate buffer *)
Fixpoint run_out (s : St) (src : list C) : St * list C :=
  match src with
  | [] => (s, [])
  | x :: src' => let '(s1, y) := step s x in let '(s2, ys) := run_out s1 src' in (s2, y :: ys)
  end.

(* in place: one buffer; iteration i reads cell i and overwrites it *)
Fixpoint set_nth (l : list C) (i : nat) (y : C) : list C :=
  match l, i with
  | [], _ => []
  | _ :: l', O => y :: l'
  | x :: l', S j => x :: set_nth l' j y
  end.
Fixpoint run_in (fuel i : nat) (s : St) (buf : list C) : St * list C :=
  match fuel with
  | O => (s, buf)
  | S f =>
    match nth_error buf i with
    | None => (s, buf)
    | Some x => let '(s1, y) := step s x in run_in f (S i) s1 (set_nth buf i y)
    end
  end.

Lemma run_in_prefix fuel : forall pre s buf, length buf <= fuel ->
  run_in fuel (length pre) s (pre ++ buf) = (fst (run_out s buf), pre ++ snd (run_out s buf)).
Proof.
  induction fuel as [|f IH]; intros pre s buf H.
  - destruct buf; [|cbn in H; lia]. cbn. now rewrite app_nil_r.
  - destruct buf as [|x buf].
    + cbn [run_in run_out fst snd]. rewrite app_nil_r. 
      assert (E : nth_error pre (length pre) = None) by (apply nth_error_None; lia). now rewrite E.
    + cbn [run_in run_out]. 
      assert (E : nth_error (pre ++ x :: buf) (length pre) = Some x).
      { rewrite nth_error_app2 by lia. now rewrite Nat.sub_diag. }
      rewrite E. destruct (step s x) as [s1 y].
      assert (SN : set_nth (pre ++ x :: buf) (length pre) y = (pre ++ [y]) ++ buf).
      { clear. induction pre as [|p pre IHp]; [reflexivity|]. cbn. now rewrite IHp. }
      rewrite SN. replace (S (length pre)) with (length (pre ++ [y])) by (rewrite app_length; cbn; lia).
      rewrite IH by (cbn in H; lia). destruct (run_out s1 buf) as [s2 ys]. cbn [fst snd].
      now rewrite <- app_assoc.
Qed.

(* C07: dst = src gives the same state and the same bytes as dst disjoint from src *)
Theorem inplace_eq s buf : run_in (length buf) 0 s buf = run_out s buf.
Proof.
  pose proof (run_in_prefix (length buf) [] s buf (le_n _)) as H. cbn [length app] in H.
  rewrite H. destruct (run_out s buf); reflexivity.
Qed.

End Inplace.
