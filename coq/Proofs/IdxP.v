(* C12, length-arithmetic clause: proofs about the index-level models of
   Model/Idx.v.  Every theorem has the shape
       valid arguments, buffers declared with exactly their documented sizes
       -> the model returns Some .. (no access left its object)
   plus the invariant the next call needs (the returned count/partial/posn is
   again valid).  The command-line name functions are proved safe for the
   code after fixes/C12-asconcrypt-filenames.patch and refuted, with the exact
   set of failing name lengths, for the code as pinned. *)
From Coq Require Import List NArith PeanoNat Lia Bool.
From AsconV Require Import Model.Idx Model.C12Config.
Import ListNotations.
Local Open Scope N_scope.

(* ------------------------------------------------------------------ basics *)
Lemma chk_ok sz k m b off len s wr :
  sz b = Some (s, wr) -> off + len <= s -> (m = R \/ wr = true) -> chk sz k m b off len = Some tt.
Proof.
  intros Hs Hle Hm. unfold chk. rewrite Hs.
  assert (E : off + len <=? s = true) by (apply N.leb_le; exact Hle). rewrite E.
  destruct Hm as [-> | ->]; [reflexivity | destruct m; reflexivity].
Qed.

Lemma chk_null_direct sz m b off : sz b = None -> chk sz Direct m b off 0 = Some tt.
Proof. intros Hs. unfold chk. rewrite Hs. reflexivity. Qed.

Lemma sub32_small a b : b <= a -> a < two32 -> sub32 a b = a - b.
Proof.
  intros Hb Ha. unfold sub32. assert (Hb' : b < two32) by lia.
  rewrite (N.mod_small b two32 Hb').
  replace (a + two32 - b) with ((a - b) + 1 * two32) by lia.
  rewrite N.mod_add by (unfold two32; lia). apply N.mod_small. lia.
Qed.

Lemma sub64_small a b : b <= a -> a < two64 -> sub64 a b = a - b.
Proof.
  intros Hb Ha. unfold sub64. assert (Hb' : b < two64) by lia.
  rewrite (N.mod_small b two64 Hb').
  replace (a + two64 - b) with ((a - b) + 1 * two64) by lia.
  rewrite N.mod_add by (unfold two64; lia). apply N.mod_small. lia.
Qed.

Lemma sub64_wrap a b : a < b -> b < two64 -> sub64 a b = two64 + a - b.
Proof.
  intros Hb Hb'. unfold sub64. rewrite (N.mod_small b two64 Hb').
  rewrite N.mod_small by lia. lia.
Qed.

Lemma w32_small x : x < two32 -> w32 x = x.
Proof. intros H. unfold w32. apply N.mod_small. exact H. Qed.

Lemma u8_small x : x < 256 -> u8 x = x.
Proof. intros H. unfold u8. apply N.mod_small. exact H. Qed.

(* enough fuel for a loop that consumes r bytes per turn *)
Lemma fuel_enough r len : 0 < r -> len < r * N.of_nat (S (N.to_nat (len / r))).
Proof.
  intros Hr. rewrite Nat2N.inj_succ, N2Nat.id.
  pose proof (N.div_mod' len r) as E. pose proof (N.mod_lt len r ltac:(lia)) as L. nia.
Qed.

(* ------------------------------------------------------------------ AEAD *)
Section Aead.
  Variable sz : sizes.
  Variables r n : N.                   (* rate; length of src and dest *)
  Variable srcw : bool.
  Hypothesis Hr : 0 < r.
  Hypothesis Hstate : sz STATE = Some (r, true).         (* only the rate part of the state may be touched *)
  Hypothesis Hsrc : sz SRC = Some (n, srcw).             (* src: exactly n bytes, possibly read-only *)
  Hypothesis Hdst : sz DST = Some (n, true).             (* dest: exactly n bytes *)

  Lemma crypt_partial_ok pos soff len :
    soff + len <= r -> pos + len <= n -> crypt_partial sz pos soff len = Some tt.
  Proof.
    intros H1 H2. unfold crypt_partial.
    rewrite (chk_ok sz Direct W STATE soff len r true Hstate H1 (or_intror eq_refl)).
    rewrite (chk_ok sz Direct R SRC pos len n srcw Hsrc H2 (or_introl eq_refl)).
    rewrite (chk_ok sz Direct W DST pos len n true Hdst H2 (or_intror eq_refl)). reflexivity.
  Qed.

  Lemma crypt_blocks_ok fuel : forall pos len,
    pos + len <= n -> len < r * N.of_nat fuel ->
    exists pos' len', crypt_blocks sz r fuel pos len = Some (pos', len') /\ len' < r /\ pos' + len' = pos + len.
  Proof.
    induction fuel as [|f IH]; intros pos len Hn Hf.
    - cbn in Hf. lia.
    - cbn [crypt_blocks]. destruct (N.leb_spec r len) as [Hge|Hlt].
      + rewrite crypt_partial_ok by lia.
        destruct (IH (pos + r) (len - r)) as (p' & l' & E & Hl & Hs); [lia | rewrite Nat2N.inj_succ in Hf; lia |].
        exists p', l'. split; [exact E | split; [exact Hl | lia]].
      + exists pos, len. split; [reflexivity | split; [exact Hlt | reflexivity]].
  Qed.

  Lemma crypt_tail_ok pos len : pos + len <= n -> r <= 256 ->
    exists ret, crypt_tail sz r pos len = Some ret /\ ret < r.
  Proof.
    intros Hn Hr8. unfold crypt_tail.
    destruct (crypt_blocks_ok (S (N.to_nat (len / r))) pos len Hn (fuel_enough r len Hr)) as (p' & l' & E & Hl & Hs).
    rewrite E. destruct (N.ltb_spec 0 l') as [Hpos|Hz].
    - rewrite crypt_partial_ok by lia. exists (u8 l'). split; [reflexivity | rewrite u8_small by lia; exact Hl].
    - exists (u8 l'). split; [reflexivity | rewrite u8_small by lia; exact Hl].
  Qed.

  (* ascon_aead_encrypt_8/16, ascon_aead_decrypt_8/16 *)
  Theorem aead_crypt_safe partial : partial < r -> r <= 256 ->
    exists ret, aead_crypt sz r n partial = Some ret /\ ret < r.
  Proof.
    intros Hp Hr8. unfold aead_crypt. destruct (N.eqb_spec partial 0) as [->|Hnz].
    - apply crypt_tail_ok; lia.
    - rewrite sub32_small by (unfold two32; lia).
      destruct (N.ltb_spec n (r - partial)) as [Hshort|Hlong].
      + rewrite crypt_partial_ok by lia. exists (u8 (partial + n)). split; [reflexivity | rewrite u8_small by lia; lia].
      + rewrite crypt_partial_ok by lia. apply crypt_tail_ok; lia.
  Qed.
End Aead.

(* ------------------------------------------------------------------ absorb shapes (AEAD associated data, XOF/HASH/PRF input) *)
Section Absorb.
  Variable sz : sizes.
  Variables b r n : N.                 (* input object; rate; input length *)
  Variable inw : bool.
  Hypothesis Hr : 0 < r.
  Hypothesis Hstate : sz STATE = Some (r, true).
  Hypothesis Hin : sz b = Some (n, inw) \/ (sz b = None /\ n = 0).      (* exactly n bytes, or a null pointer for an empty input *)

  Lemma absorb_partial_ok pos soff len :
    soff + len <= r -> pos + len <= n -> absorb_partial sz b pos soff len = Some tt.
  Proof.
    intros H1 H2. unfold absorb_partial.
    rewrite (chk_ok sz Direct W STATE soff len r true Hstate H1 (or_intror eq_refl)).
    destruct Hin as [Hs | [Hs Hz]].
    - rewrite (chk_ok sz Direct R b pos len n inw Hs H2 (or_introl eq_refl)). reflexivity.
    - assert (len = 0) by lia. subst len. rewrite (chk_null_direct sz R b pos Hs). reflexivity.
  Qed.

  Lemma absorb_blocks_ok fuel : forall pos len,
    pos + len <= n -> len < r * N.of_nat fuel ->
    exists pos' len', absorb_blocks sz b r fuel pos len = Some (pos', len') /\ len' < r /\ pos' + len' = pos + len.
  Proof.
    induction fuel as [|f IH]; intros pos len Hn Hf.
    - cbn in Hf. lia.
    - cbn [absorb_blocks]. destruct (N.leb_spec r len) as [Hge|Hlt].
      + rewrite absorb_partial_ok by lia.
        destruct (IH (pos + r) (len - r)) as (p' & l' & E & Hl & Hs); [lia | rewrite Nat2N.inj_succ in Hf; lia |].
        exists p', l'. split; [exact E | split; [exact Hl | lia]].
      + exists pos, len. split; [reflexivity | split; [exact Hlt | reflexivity]].
  Qed.
End Absorb.

(* ascon_aead_absorb_8/16: the pad byte goes to offset len' < r *)
Theorem aead_absorb_safe sz r n inw :
  0 < r -> sz STATE = Some (r, true) -> (sz SRC = Some (n, inw) \/ (sz SRC = None /\ n = 0)) ->
  aead_absorb sz r n = Some tt.
Proof.
  intros Hr Hst Hin. unfold aead_absorb.
  destruct (absorb_blocks_ok sz SRC r n inw Hr Hst Hin (S (N.to_nat (n / r))) 0 n ltac:(lia) (fuel_enough r n Hr)) as (p' & l' & E & Hl & Hs).
  rewrite E. destruct (N.ltb_spec 0 l') as [Hpos|Hz].
  - rewrite (absorb_partial_ok sz SRC r n inw Hr Hst Hin) by lia.
    apply (chk_ok sz Direct W STATE l' 1 r true Hst); [lia | right; reflexivity].
  - apply (chk_ok sz Direct W STATE l' 1 r true Hst); [lia | right; reflexivity].
Qed.

(* ascon_xof_absorb / ascon_xofa_absorb / ascon_hash_update (r = 8), ascon_prf_absorb (r = 32) *)
Theorem sponge_absorb_safe sz r count mode n inw :
  0 < r -> r <= 255 -> count < r ->
  sz STATE = Some (r, true) -> (sz IOB = Some (n, inw) \/ (sz IOB = None /\ n = 0)) ->
  exists count', sponge_absorb sz r count mode n = Some (count', 0) /\ count' < r.
Proof.
  intros Hr Hr8 Hc Hst Hin. unfold sponge_absorb.
  set (c := if mode =? 0 then count else 0).
  assert (Hc' : c < r) by (unfold c; destruct (mode =? 0); lia).
  assert (Tail : forall pos len, pos + len <= n ->
      exists count', match absorb_blocks sz IOB r (S (N.to_nat (len / r))) pos len with
                     | Some (pos', len') => (if 0 <? w32 len' then absorb_partial sz IOB pos' 0 (w32 len') else Some tt) ;; Some (u8 (w32 len'), 0)
                     | None => None end = Some (count', 0) /\ count' < r).
  { intros pos len Hn.
    destruct (absorb_blocks_ok sz IOB r n inw Hr Hst Hin (S (N.to_nat (len / r))) pos len Hn (fuel_enough r len Hr)) as (p' & l' & E & Hl & Hs).
    rewrite E. rewrite (w32_small l') by (unfold two32; lia).
    destruct (N.ltb_spec 0 l') as [Hpos|Hz].
    - rewrite (absorb_partial_ok sz IOB r n inw Hr Hst Hin) by lia. exists (u8 l'). split; [reflexivity | rewrite u8_small by lia; exact Hl].
    - exists (u8 l'). split; [reflexivity | rewrite u8_small by lia; exact Hl]. }
  destruct (N.eqb_spec c 0) as [Hz|Hnz].
  - apply Tail. lia.
  - rewrite sub32_small by (unfold two32; lia).
    destruct (N.ltb_spec n (r - c)) as [Hshort|Hlong].
    + rewrite (w32_small n) by (unfold two32; lia).
      rewrite (absorb_partial_ok sz IOB r n inw Hr Hst Hin) by lia.
      exists (u8 (c + n)). split; [reflexivity | rewrite u8_small by lia; lia].
    + rewrite (absorb_partial_ok sz IOB r n inw Hr Hst Hin) by lia. apply Tail. lia.
Qed.

(* ------------------------------------------------------------------ squeeze shape *)
Section Squeeze.
  Variable sz : sizes.
  Variables r n : N.
  Hypothesis Hr : 0 < r.
  Hypothesis Hstate : sz STATE = Some (r, true).
  Hypothesis Hout : sz IOB = Some (n, true).

  Lemma squeeze_partial_ok pos soff len :
    soff + len <= r -> pos + len <= n -> squeeze_partial sz pos soff len = Some tt.
  Proof.
    intros H1 H2. unfold squeeze_partial.
    rewrite (chk_ok sz Direct R STATE soff len r true Hstate H1 (or_introl eq_refl)).
    rewrite (chk_ok sz Direct W IOB pos len n true Hout H2 (or_intror eq_refl)). reflexivity.
  Qed.

  Lemma squeeze_blocks_ok fuel : forall pos len,
    pos + len <= n -> len < r * N.of_nat fuel ->
    exists pos' len', squeeze_blocks sz r fuel pos len = Some (pos', len') /\ len' < r /\ pos' + len' = pos + len.
  Proof.
    induction fuel as [|f IH]; intros pos len Hn Hf.
    - cbn in Hf. lia.
    - cbn [squeeze_blocks]. destruct (N.leb_spec r len) as [Hge|Hlt].
      + rewrite squeeze_partial_ok by lia.
        destruct (IH (pos + r) (len - r)) as (p' & l' & E & Hl & Hs); [lia | rewrite Nat2N.inj_succ in Hf; lia |].
        exists p', l'. split; [exact E | split; [exact Hl | lia]].
      + exists pos, len. split; [reflexivity | split; [exact Hlt | reflexivity]].
  Qed.

  (* ascon_xof_squeeze / xofa / hash finalize (r = 8), ascon_prf_squeeze (r = 16) *)
  Theorem sponge_squeeze_safe count mode : r <= 255 -> count < r ->
    exists count', sponge_squeeze sz r count mode n = Some (count', 1) /\ count' < r.
  Proof.
    intros Hr8 Hc. unfold sponge_squeeze.
    assert (Pad : (if mode =? 0 then chk sz Direct W STATE count 1 else Some tt) = Some tt).
    { destruct (mode =? 0); [|reflexivity]. apply (chk_ok sz Direct W STATE count 1 r true Hstate); [lia | right; reflexivity]. }
    rewrite Pad.
    set (c := if mode =? 0 then 0 else count).
    assert (Hc' : c < r) by (unfold c; destruct (mode =? 0); lia).
    assert (Tail : forall pos len, pos + len <= n ->
        exists count', match squeeze_blocks sz r (S (N.to_nat (len / r))) pos len with
                       | Some (pos', len') => if 0 <? len' then squeeze_partial sz pos' 0 (w32 len') ;; Some (u8 (w32 len'), 1) else Some (0, 1)
                       | None => None end = Some (count', 1) /\ count' < r).
    { intros pos len Hn.
      destruct (squeeze_blocks_ok (S (N.to_nat (len / r))) pos len Hn (fuel_enough r len Hr)) as (p' & l' & E & Hl & Hs).
      rewrite E. rewrite (w32_small l') by (unfold two32; lia).
      destruct (N.ltb_spec 0 l') as [Hpos|Hz].
      - rewrite squeeze_partial_ok by lia. exists (u8 l'). split; [reflexivity | rewrite u8_small by lia; exact Hl].
      - exists 0. split; [reflexivity | exact Hr]. }
    destruct (N.eqb_spec c 0) as [Hz|Hnz].
    - apply Tail. lia.
    - rewrite sub32_small by (unfold two32; lia).
      destruct (N.ltb_spec n (r - c)) as [Hshort|Hlong].
      + rewrite (w32_small n) by (unfold two32; lia).
        rewrite squeeze_partial_ok by lia.
        exists (u8 (c + n)). split; [reflexivity | rewrite u8_small by lia; lia].
      + rewrite squeeze_partial_ok by lia. apply Tail. lia.
  Qed.
End Squeeze.

(* ------------------------------------------------------------------ HMAC absorb_key *)
Section Hmac.
  Variable sz : sizes.
  Variable keylen : N.
  Variable keyw : bool.
  Hypothesis Hkey : sz KEY = Some (keylen, keyw) \/ (sz KEY = None /\ keylen = 0).
  Hypothesis Htemp : sz TEMP = Some (HASH_SIZE, true).       (* unsigned char temp[HMAC_HASH_SIZE] *)

  Lemma temp_ok k m len : len <= HASH_SIZE -> chk sz k m TEMP 0 len = Some tt.
  Proof. intros H. apply (chk_ok sz k m TEMP 0 len HASH_SIZE true Htemp); [lia | destruct m; [left|right]; reflexivity]. Qed.

  Lemma key_ok posn len : posn + len <= keylen -> chk sz Direct R KEY posn len = Some tt.
  Proof.
    intros H. destruct Hkey as [Hs | [Hs Hz]].
    - apply (chk_ok sz Direct R KEY posn len keylen keyw Hs H). left; reflexivity.
    - assert (len = 0) by lia. subst len. apply chk_null_direct. exact Hs.
  Qed.

  Lemma hmac_key_chunks_ok fuel : forall posn,
    posn <= keylen -> keylen - posn + HASH_SIZE <= HASH_SIZE * N.of_nat fuel ->
    hmac_key_chunks sz fuel posn keylen = Some keylen.
  Proof.
    unfold HASH_SIZE. induction fuel as [|f IH]; intros posn Hle Hf.
    - cbn in Hf. lia.
    - cbn [hmac_key_chunks]. rewrite Nat2N.inj_succ in Hf.
      destruct (N.ltb_spec posn keylen) as [Hlt|Hge].
      + unfold HASH_SIZE. destruct (N.ltb_spec 32 (keylen - posn)) as [Hbig|Hsmall].
        * rewrite (temp_ok Direct W 32), (key_ok posn 32), (temp_ok Direct R 32) by (unfold HASH_SIZE; lia).
          apply IH; lia.
        * rewrite (temp_ok Direct W (keylen - posn)), (key_ok posn (keylen - posn)), (temp_ok Direct R (keylen - posn)) by (unfold HASH_SIZE; lia).
          replace (posn + (keylen - posn)) with keylen by lia. apply IH; lia.
      + f_equal. lia.
  Qed.

  Lemma hmac_pad_chunks_ok fuel : forall posn,
    BLOCK_SIZE - posn + HASH_SIZE <= HASH_SIZE * N.of_nat fuel ->
    hmac_pad_chunks sz fuel posn = Some tt.
  Proof.
    unfold HASH_SIZE, BLOCK_SIZE. induction fuel as [|f IH]; intros posn Hf.
    - cbn in Hf. lia.
    - cbn [hmac_pad_chunks]. rewrite Nat2N.inj_succ in Hf. unfold BLOCK_SIZE, HASH_SIZE.
      destruct (N.ltb_spec posn 64) as [Hlt|Hge]; [|reflexivity].
      destruct (N.ltb_spec 32 (64 - posn)) as [Hbig|Hsmall].
      * rewrite (temp_ok Direct R 32) by (unfold HASH_SIZE; lia). apply IH; lia.
      * rewrite (temp_ok Direct R (64 - posn)) by (unfold HASH_SIZE; lia). apply IH; lia.
  Qed.

  (* ascon_hmac / ascon_hmaca: *_absorb_key for every key length *)
  Theorem hmac_absorb_key_safe : hmac_absorb_key sz keylen = Some tt.
  Proof.
    unfold hmac_absorb_key. destruct (N.leb_spec keylen BLOCK_SIZE) as [Hshort|Hlong].
    - rewrite (hmac_key_chunks_ok 4 0) by (unfold HASH_SIZE, BLOCK_SIZE in *; lia).
      rewrite (temp_ok LibC W HASH_SIZE) by lia.
      rewrite (hmac_pad_chunks_ok 4 keylen) by (unfold HASH_SIZE, BLOCK_SIZE in *; lia).
      apply temp_ok. lia.
    - rewrite (key_ok 0 keylen) by lia.
      rewrite (temp_ok Direct W HASH_SIZE), (temp_ok Direct R HASH_SIZE) by lia.
      rewrite (temp_ok LibC W HASH_SIZE) by lia.
      rewrite (hmac_pad_chunks_ok 4 HASH_SIZE) by (unfold HASH_SIZE, BLOCK_SIZE in *; lia).
      first [reflexivity | apply temp_ok; lia].
  Qed.
End Hmac.

(* ------------------------------------------------------------------ HKDF expand *)
Section Hkdf.
  Variable sz : sizes.
  Variables infolen total : N.
  Variable infow : bool.
  Hypothesis Hprk : sz PRK = Some (HMAC_SIZE, true).
  Hypothesis Hsout : sz SOUT = Some (HMAC_SIZE, true).
  Hypothesis Hinfo : sz INFO = Some (infolen, infow) \/ (sz INFO = None /\ infolen = 0).
  Hypothesis Hout : sz OUT = Some (total, true).             (* out: exactly outlen bytes, not null *)

  Lemma out_ok k pos len : pos + len <= total -> chk sz k W OUT pos len = Some tt.
  Proof. intros H. apply (chk_ok sz k W OUT pos len total true Hout H). right; reflexivity. Qed.

  Lemma sout_ok k m pos len : pos + len <= HMAC_SIZE -> chk sz k m SOUT pos len = Some tt.
  Proof. intros H. apply (chk_ok sz k m SOUT pos len HMAC_SIZE true Hsout H). destruct m; [left|right]; reflexivity. Qed.

  Lemma info_ok : chk sz Direct R INFO 0 infolen = Some tt.
  Proof.
    destruct Hinfo as [Hs | [Hs Hz]].
    - apply (chk_ok sz Direct R INFO 0 infolen infolen infow Hs); [lia | left; reflexivity].
    - subst infolen. apply chk_null_direct. exact Hs.
  Qed.

  Lemma hkdf_blocks_ok fuel : forall pos outlen counter posn,
    pos + outlen = total -> posn <= HMAC_SIZE -> outlen + HMAC_SIZE <= HMAC_SIZE * N.of_nat fuel ->
    exists ret counter' posn', hkdf_blocks sz infolen fuel pos outlen counter posn = Some (ret, counter', posn') /\ posn' <= HMAC_SIZE /\ ret <= 1.
  Proof.
    unfold HMAC_SIZE. induction fuel as [|f IH]; intros pos outlen counter posn Ht Hp Hf.
    - cbn in Hf. lia.
    - cbn [hkdf_blocks]. rewrite Nat2N.inj_succ in Hf.
      destruct (N.ltb_spec 0 outlen) as [Hpos|Hz].
      + destruct (N.eqb_spec counter 0) as [Hc0|Hcn].
        * rewrite out_ok by lia. exists 1, counter, posn. split; [reflexivity | split; [exact Hp | lia]].
        * rewrite (chk_ok sz Direct R PRK 0 HMAC_SIZE HMAC_SIZE true Hprk) by (try lia; left; reflexivity).
          assert (E1 : (if counter =? 1 then Some tt else chk sz Direct R SOUT 0 HMAC_SIZE) = Some tt).
          { destruct (counter =? 1); [reflexivity|]. apply sout_ok. lia. }
          rewrite E1, info_ok. rewrite (sout_ok Direct W 0 HMAC_SIZE) by lia.
          unfold HMAC_SIZE. destruct (N.ltb_spec outlen 32) as [Hsmall|Hbig].
          -- rewrite out_ok by lia. rewrite (sout_ok LibC R 0 outlen) by (unfold HMAC_SIZE; lia).
             apply IH; [lia | lia | lia].
          -- rewrite out_ok by lia. rewrite (sout_ok LibC R 0 32) by (unfold HMAC_SIZE; lia).
             apply IH; [lia | lia | lia].
      + exists 0, counter, posn. split; [reflexivity | split; [exact Hp | lia]].
  Qed.

  (* ascon_hkdf_expand / ascon_hkdfa_expand for every request length, block counter and position *)
  Theorem hkdf_expand_safe counter posn : posn <= HMAC_SIZE ->
    exists ret counter' posn', hkdf_expand sz infolen total counter posn = Some (ret, counter', posn') /\ posn' <= HMAC_SIZE /\ ret <= 1.
  Proof.
    intros Hp. unfold hkdf_expand.
    rewrite sub64_small by (unfold HMAC_SIZE, two64 in *; lia).
    set (len := if total <? HMAC_SIZE - posn then total else HMAC_SIZE - posn).
    assert (Hl1 : len <= total) by (unfold len; destruct (N.ltb_spec total (HMAC_SIZE - posn)); lia).
    assert (Hl2 : posn + len <= HMAC_SIZE) by (unfold len; destruct (N.ltb_spec total (HMAC_SIZE - posn)); lia).
    rewrite out_ok by lia. rewrite (sout_ok LibC R posn len) by lia.
    apply hkdf_blocks_ok.
    - lia.
    - rewrite u8_small by (unfold HMAC_SIZE in *; lia). exact Hl2.
    - pose proof (fuel_enough HMAC_SIZE total ltac:(unfold HMAC_SIZE; lia)) as F.
      rewrite !Nat2N.inj_succ in *. unfold HMAC_SIZE in *. lia.
  Qed.
End Hkdf.

(* ------------------------------------------------------------------ asconcrypt: derived file names *)
Lemma chk_fail sz k m b off len s wr : sz b = Some (s, wr) -> s < off + len -> chk sz k m b off len = None.
Proof.
  intros Hs Hlt. unfold chk. rewrite Hs.
  assert (E : off + len <=? s = false) by (apply N.leb_gt; exact Hlt). rewrite E. reflexivity.
Qed.

Lemma name_NAME name : name_sizes name NAME = Some (strlen name + 1, false).
Proof. reflexivity. Qed.
Lemma name_TEMPF name : name_sizes name TEMPF = Some (BUFSIZ, true).
Proof. reflexivity. Qed.

Lemma name_rd name k off len : off + len <= strlen name + 1 -> chk (name_sizes name) k R NAME off len = Some tt.
Proof. intros H. apply (chk_ok _ k R NAME off len _ false (name_NAME name) H). left; reflexivity. Qed.
Lemma tempf_wr name k off len : off + len <= BUFSIZ -> chk (name_sizes name) k W TEMPF off len = Some tt.
Proof. intros H. apply (chk_ok _ k W TEMPF off len _ true (name_TEMPF name) H). right; reflexivity. Qed.

(* is_encrypted_filename never leaves the name, in either version *)
Lemma is_encrypted_filename_val fx name :
  is_encrypted_filename fx (name_sizes name) name = Some (if 6 <=? strlen name then has_suffix name else negb fx).
Proof.
  unfold is_encrypted_filename. destruct (N.leb_spec 6 (strlen name)) as [Hge|Hlt]; [|reflexivity].
  rewrite name_rd by lia. reflexivity.
Qed.

(* add_suffix (snprintf with the buffer size) never leaves temp_filename *)
Lemma add_suffix_val name suffix :
  add_suffix (name_sizes name) name suffix =
  Some (if BUFSIZ - 1 <? strlen name + strlen suffix then BUFSIZ - 1 else strlen name + strlen suffix).
Proof.
  unfold add_suffix. rewrite name_rd by lia.
  destruct (N.ltb_spec (BUFSIZ - 1) (strlen name + strlen suffix)); (rewrite tempf_wr by (unfold BUFSIZ in *; lia)); reflexivity.
Qed.

(* strip_suffix as pinned: exactly the names of 6 .. 8197 characters are handled inside the buffers *)
Lemma strip_suffix_pinned_val name : strlen name < two64 ->
  strip_suffix false (name_sizes name) name =
  if (6 <=? strlen name) && (strlen name <? 8198) then Some (strlen name - 6) else None.
Proof.
  intros Hfit. unfold strip_suffix. set (L := strlen name) in *.
  destruct (N.leb_spec 6 L) as [Hge|Hlt]; cbn [andb].
  - rewrite sub64_small by lia.
    destruct (N.ltb_spec L 8198) as [Hok|Hbig].
    + destruct (N.leb_spec BUFSIZ (L - 6)) as [H|H]; [unfold BUFSIZ in H; lia|].
      rewrite tempf_wr by (unfold BUFSIZ in *; lia). rewrite name_rd by (fold L; lia).
      rewrite tempf_wr by (unfold BUFSIZ in *; lia). reflexivity.
    + destruct (N.leb_spec BUFSIZ (L - 6)) as [H|H]; [|unfold BUFSIZ in H; lia].
      rewrite tempf_wr by (unfold BUFSIZ in *; lia). rewrite name_rd by (fold L; unfold BUFSIZ; lia).
      rewrite (chk_fail _ Direct W TEMPF BUFSIZ 1 _ true (name_TEMPF name)) by (unfold BUFSIZ; lia). reflexivity.
  - rewrite sub64_wrap by (unfold two64; lia).
    destruct (N.leb_spec BUFSIZ (two64 + L - 6)) as [H|H]; [|unfold BUFSIZ, two64 in H; lia].
    rewrite tempf_wr by (unfold BUFSIZ in *; lia).
    rewrite (chk_fail _ LibC R NAME 0 BUFSIZ _ false (name_NAME name)) by (fold L; unfold BUFSIZ; lia). reflexivity.
Qed.

(* strip_suffix after the patch: safe whenever it is called, i.e. on names of at least 6 characters *)
Lemma strip_suffix_fixed_val name : 6 <= strlen name -> strlen name < two64 ->
  strip_suffix true (name_sizes name) name =
  Some (if BUFSIZ <=? strlen name - 6 then BUFSIZ - 1 else strlen name - 6).
Proof.
  intros Hge Hfit. unfold strip_suffix. set (L := strlen name) in *.
  rewrite sub64_small by lia.
  destruct (N.leb_spec BUFSIZ (L - 6)) as [H|H].
  - rewrite tempf_wr by (unfold BUFSIZ in *; lia). rewrite name_rd by (fold L; unfold BUFSIZ in *; lia).
    rewrite tempf_wr by (unfold BUFSIZ in *; lia). reflexivity.
  - rewrite tempf_wr by (unfold BUFSIZ in *; lia). rewrite name_rd by (fold L; lia).
    rewrite tempf_wr by (unfold BUFSIZ in *; lia). reflexivity.
Qed.

(* what main() does with a file argument, after the patch: safe for every name and every mode *)
Theorem cli_output_name_fixed_safe explicit name : strlen name < two64 ->
  cli_output_name true (name_sizes name) explicit name <> None.
Proof.
  intros Hfit. unfold cli_output_name. rewrite is_encrypted_filename_val.
  assert (Dec : match (if 6 <=? strlen name then has_suffix name else negb true) with
                | true => strip_suffix true (name_sizes name) name
                | false => add_suffix (name_sizes name) name dot_decrypted end <> None).
  { destruct (N.leb_spec 6 (strlen name)) as [Hge|Hlt].
    - destruct (has_suffix name); [rewrite strip_suffix_fixed_val by assumption | rewrite add_suffix_val]; discriminate.
    - cbn [negb]. rewrite add_suffix_val. discriminate. }
  destruct explicit as [[|]|].
  - destruct (is_dash name); [discriminate | exact Dec].
  - destruct (is_dash name); [discriminate | rewrite add_suffix_val; discriminate].
  - destruct (if 6 <=? strlen name then has_suffix name else negb true) eqn:E.
    + destruct (is_dash name); [discriminate|]. try rewrite E in Dec. exact Dec.
    + destruct (is_dash name); [discriminate | rewrite add_suffix_val; discriminate].
Qed.

(* the code as pinned: the exact set of failing arguments *)
Theorem cli_output_name_pinned_iff explicit name : strlen name < two64 ->
  (cli_output_name false (name_sizes name) explicit name = None <->
   explicit <> Some false /\ is_dash name = false /\ (strlen name < 6 \/ (8198 <= strlen name /\ has_suffix name = true))).
Proof.
  intros Hfit. unfold cli_output_name. rewrite is_encrypted_filename_val.
  assert (Dec : match (if 6 <=? strlen name then has_suffix name else negb false) with
                | true => strip_suffix false (name_sizes name) name
                | false => add_suffix (name_sizes name) name dot_decrypted end = None <->
                (strlen name < 6 \/ (8198 <= strlen name /\ has_suffix name = true))).
  { rewrite strip_suffix_pinned_val by assumption.
    destruct (N.leb_spec 6 (strlen name)) as [Hge|Hlt]; cbn [andb negb].
    - destruct (has_suffix name).
      + destruct (N.ltb_spec (strlen name) 8198) as [Hs|Hb].
        * split; [discriminate | intros [?|[? ?]]; lia].
        * split; [intros _; right; split; [exact Hb | reflexivity] | reflexivity].
      + rewrite add_suffix_val. split; [discriminate | intros [?|[? ?]]; [lia | discriminate]].
    - split; [intros _; left; exact Hlt | reflexivity]. }
  destruct explicit as [[|]|].
  - destruct (is_dash name).
    + split; [discriminate | intros (_ & H & _); discriminate H].
    + rewrite Dec. split; [intros H; split; [discriminate | split; [reflexivity | exact H]] | intros (_ & _ & H); exact H].
  - destruct (is_dash name).
    + split; [discriminate | intros [H _]; contradiction H; reflexivity].
    + rewrite add_suffix_val. split; [discriminate | intros [H _]; contradiction H; reflexivity].
  - destruct (if 6 <=? strlen name then has_suffix name else negb false) eqn:E.
    + destruct (is_dash name).
      * split; [discriminate | intros (_ & H & _); discriminate H].
      * try rewrite E in Dec. rewrite Dec. split; [intros H; split; [discriminate | split; [reflexivity | exact H]] | intros (_ & _ & H); exact H].
    + assert (Hno : ~ (strlen name < 6 \/ 8198 <= strlen name /\ has_suffix name = true)).
      { intros H. destruct (N.leb_spec 6 (strlen name)) as [Hge|Hlt]; [|discriminate E].
        destruct H as [?|[_ Hs]]; [lia | rewrite Hs in E; discriminate E]. }
      destruct (is_dash name).
      * split; [discriminate | intros (_ & H & _); discriminate H].
      * rewrite add_suffix_val. split; [discriminate | intros (_ & _ & H); contradiction (Hno H)].
Qed.

(* concrete witnesses for the pinned code (these are the replays) *)
Definition name_a : list N := [97].                                      (* "a" *)
Definition name_long : list N := repeat 97 (N.to_nat 8192) ++ dot_ascon.            (* 8192 x 'a' then ".ascon": 8198 characters *)

Lemma cli_pinned_refuted_short : cli_output_name false (name_sizes name_a) None name_a = None.
Proof. vm_compute. reflexivity. Qed.
Lemma cli_pinned_refuted_short_d : cli_output_name false (name_sizes name_a) (Some true) name_a = None.
Proof. vm_compute. reflexivity. Qed.
Lemma cli_pinned_refuted_long : cli_output_name false (name_sizes name_long) None name_long = None.
Proof. vm_compute. reflexivity. Qed.

(* the statement of the property for the selected code (Model/C12Config.v) *)
Definition cli_names_statement (fixed : bool) : Prop :=
  if fixed
  then forall explicit name, strlen name < two64 -> cli_output_name true (name_sizes name) explicit name <> None
  else exists explicit name, strlen name < two64 /\ cli_output_name false (name_sizes name) explicit name = None.

Lemma cli_names_statement_both fixed : cli_names_statement fixed.
Proof.
  destruct fixed; cbn [cli_names_statement].
  - intros explicit name H. apply cli_output_name_fixed_safe. exact H.
  - exists None, name_a. split; [vm_compute; reflexivity | exact cli_pinned_refuted_short].
Qed.

(* ------------------------------------------------------------------ asconcrypt: passwords *)
Theorem password_opt_safe sz n optw :
  sz PW = Some (PWSIZ, true) -> sz OPT = Some (n + 1, optw) ->
  password_opt sz n <> None.
Proof.
  intros Hpw Hopt. unfold password_opt. destruct (N.leb_spec PWSIZ n) as [H|H]; [discriminate|].
  rewrite (chk_ok sz LibC W PW 0 PWSIZ PWSIZ true Hpw) by (try lia; right; reflexivity).
  rewrite (chk_ok sz LibC R OPT 0 (n + 1) (n + 1) optw Hopt) by (try lia; left; reflexivity).
  rewrite (chk_ok sz Direct W PW (PWSIZ - 1) 1 PWSIZ true Hpw) by (try (unfold PWSIZ; lia); right; reflexivity).
  discriminate.
Qed.

Section Keyfile.
  Variable sz : sizes.
  Hypothesis Hpw : sz PW = Some (PWSIZ, true).

  Lemma scan_line_ok l : forall posn, posn + strlen l <= PWSIZ ->
    exists p nul, scan_line sz l posn = Some (p, nul) /\ posn <= p /\ p <= posn + strlen l /\
                  (p = posn + strlen l \/ p < posn + strlen l).
  Proof.
    induction l as [|c l IH]; intros posn Hle.
    - exists posn, false. cbn. repeat split; lia.
    - cbn [scan_line]. assert (Hs : strlen (c :: l) = strlen l + 1) by (unfold strlen; cbn [length]; lia).
      rewrite Hs in *.
      rewrite (chk_ok sz Direct R PW posn 1 PWSIZ true Hpw) by (try lia; left; reflexivity).
      destruct ((c =? 10) || (c =? 13)).
      + exists posn, false. repeat split; lia.
      + destruct (c =? 0).
        * exists posn, true. repeat split; lia.
        * destruct (IH (posn + 1)) as (p & nul & E & H1 & H2 & H3); [lia|].
          exists p, nul. split; [exact E | repeat split; lia].
  Qed.

  Lemma strlen_firstn (l : list N) (k : N) : k <= strlen l -> strlen (firstn (N.to_nat k) l) = k.
  Proof.
    intros H. unfold strlen in *. rewrite firstn_length, Nat.min_l by lia. apply N2Nat.id.
  Qed.

  (* read_keyfile: any key file content (any length, with or without a newline, NUL bytes included) *)
  Theorem read_keyfile_safe content : read_keyfile sz content <> None.
  Proof.
    unfold read_keyfile.
    set (len := if PWSIZ <? strlen content then PWSIZ else strlen content).
    assert (Hlen : len <= PWSIZ /\ len <= strlen content)
      by (unfold len; destruct (N.ltb_spec PWSIZ (strlen content)); lia).
    rewrite (chk_ok sz LibC W PW 0 PWSIZ PWSIZ true Hpw) by (try lia; right; reflexivity).
    destruct (scan_line_ok (firstn (N.to_nat len) content) 0) as (p & nul & E & H1 & H2 & H3).
    { rewrite strlen_firstn by lia. lia. }
    rewrite strlen_firstn in * by lia. rewrite E.
    destruct nul; [discriminate|].
    destruct (N.leb_spec len p) as [Hend|Hin]; cbn [andb].
    - destruct (N.leb_spec PWSIZ len); [discriminate|].
      rewrite (chk_ok sz Direct W PW p 1 PWSIZ true Hpw) by (try lia; right; reflexivity). discriminate.
    - rewrite (chk_ok sz Direct W PW p 1 PWSIZ true Hpw) by (try lia; right; reflexivity). discriminate.
  Qed.
End Keyfile.

(* ------------------------------------------------------------------ asconcrypt: data buffers *)
Section Data.
  Variable sz : sizes.
  Hypothesis Hdata : sz DATA = Some (BUFSIZ, true).

  Lemma data_ok k m off len : off + len <= BUFSIZ -> chk sz k m DATA off len = Some tt.
  Proof. intros H. apply (chk_ok sz k m DATA off len BUFSIZ true Hdata H). destruct m; [left|right]; reflexivity. Qed.

  Lemma encrypt_loop_ok reads : Forall (fun len => len <= BUFSIZ) reads -> encrypt_loop sz reads = Some tt.
  Proof.
    induction 1 as [|len rest Hl _ IH]; [reflexivity|]. cbn [encrypt_loop].
    rewrite data_ok by lia. destruct (len =? 0); [reflexivity|].
    rewrite !data_ok by lia. destruct (len <? BUFSIZ); [reflexivity | exact IH].
  Qed.

  Theorem encrypt_data_safe reads : Forall (fun len => len <= BUFSIZ) reads -> encrypt_data sz reads = Some tt.
  Proof. intros H. unfold encrypt_data. rewrite encrypt_loop_ok by exact H. rewrite !data_ok by (unfold BUFSIZ; lia). reflexivity. Qed.

  Lemma decrypt_loop_ok reads : Forall (fun len => len <= BUFSIZ - 16) reads -> decrypt_loop sz reads = Some tt.
  Proof.
    induction 1 as [|len rest Hl _ IH]; [reflexivity|]. cbn [decrypt_loop].
    rewrite data_ok by (unfold BUFSIZ; lia). destruct (len =? 0); [reflexivity|].
    rewrite !data_ok by (unfold BUFSIZ in *; lia). destruct (len <? BUFSIZ - 16); [reflexivity | exact IH].
  Qed.

  (* the sliding window of decrypt_file: every sequence of read results the request size allows *)
  Theorem decrypt_data_safe reads : Forall (fun len => len <= BUFSIZ - 16) reads -> decrypt_data sz reads = Some tt.
  Proof. intros H. unfold decrypt_data. rewrite data_ok by (unfold BUFSIZ; lia). rewrite decrypt_loop_ok by exact H. apply data_ok. unfold BUFSIZ; lia. Qed.
End Data.

(* ------------------------------------------------------------------ asconsum: check_file's line parser *)
Section CheckLine.
  Variable sz : sizes.
  Hypothesis Hline : sz LINE = Some (LINESIZ, true).
  Hypothesis Hhash : sz HASHB = Some (32, true).
  Variable l : list N.
  Variable len : N.
  Hypothesis Hlen : len < LINESIZ.

  Lemma line_ok m i : i <= len -> chk sz Direct m LINE i 1 = Some tt.
  Proof. intros H. apply (chk_ok sz Direct m LINE i 1 LINESIZ true Hline); [lia | destruct m; [left|right]; reflexivity]. Qed.

  Lemma line_at_end i : len <= i -> line_at l len i = 0.
  Proof. intros H. unfold line_at. destruct (N.ltb_spec i len); [lia | reflexivity]. Qed.

  Lemma parse_hex_ok fuel : forall posn hashlen,
    posn <= len -> hashlen <= 32 -> 32 - hashlen < N.of_nat fuel ->
    exists p h, parse_hex sz l len fuel posn hashlen = Some (p, h) /\ p <= len.
  Proof.
    induction fuel as [|f IH]; intros posn hashlen Hp Hh Hf.
    - cbn in Hf. lia.
    - cbn [parse_hex]. rewrite Nat2N.inj_succ in Hf.
      destruct (N.ltb_spec posn len) as [Hin|Hout]; cbn [andb].
      + destruct (N.ltb_spec hashlen 32) as [Hroom|Hfull].
        * rewrite line_ok by lia.
          destruct (is_hex (line_at l len posn)); [|exists posn, hashlen; split; [reflexivity | exact Hp]].
          rewrite line_ok by lia.
          destruct (is_hex (line_at l len (posn + 1))) eqn:Ehex; [|exists posn, hashlen; split; [reflexivity | exact Hp]].
          assert (Hnext : posn + 1 < len).
          { destruct (N.ltb_spec (posn + 1) len) as [H|H]; [exact H|]. rewrite line_at_end in Ehex by lia. discriminate Ehex. }
          rewrite (chk_ok sz Direct W HASHB hashlen 1 32 true Hhash) by (try lia; right; reflexivity).
          apply IH; lia.
        * exists posn, hashlen. split; [reflexivity | exact Hp].
      + exists posn, hashlen. split; [reflexivity | exact Hp].
  Qed.

  Lemma skip_spaces_ok fuel : forall posn,
    posn <= len -> len - posn < N.of_nat fuel ->
    exists p, skip_spaces sz l len fuel posn = Some p /\ p <= len.
  Proof.
    induction fuel as [|f IH]; intros posn Hp Hf.
    - cbn in Hf. lia.
    - cbn [skip_spaces]. rewrite Nat2N.inj_succ in Hf. rewrite line_ok by lia.
      destruct (N.eqb_spec (line_at l len posn) 32) as [Esp|Ens].
      + assert (Hin : posn < len).
        { destruct (N.ltb_spec posn len) as [H|H]; [exact H|]. rewrite line_at_end in Esp by lia. discriminate Esp. }
        apply IH; lia.
      + exists posn. split; [reflexivity | exact Hp].
  Qed.
End CheckLine.

Lemma strip_eol_len r : strlen (strip_eol r) <= strlen r.
Proof.
  induction r as [|c r IH]; [cbn; lia|]. cbn [strip_eol].
  destruct ((c =? 10) || (c =? 13)); [|lia].
  unfold strlen in *. cbn [length]. lia.
Qed.

(* every line fgets can deliver (at most 1023 characters before the NUL) *)
Theorem check_line_safe sz l :
  sz LINE = Some (LINESIZ, true) -> sz HASHB = Some (32, true) -> strlen l < LINESIZ ->
  check_line sz l <> None.
Proof.
  intros Hline Hhash Hn. unfold check_line.
  rewrite (chk_ok sz LibC W LINE 0 LINESIZ LINESIZ true Hline) by (try lia; right; reflexivity).
  set (len := strlen (strip_eol (rev l))).
  assert (Hlen : len <= strlen l).
  { unfold len. pose proof (strip_eol_len (rev l)) as H. unfold strlen in *. rewrite rev_length in H. exact H. }
  destruct (len =? 0); [discriminate|].
  rewrite (line_ok sz Hline len ltac:(lia) W len) by lia.
  destruct (parse_hex_ok sz Hline Hhash l len ltac:(lia) 40 0 0) as (p & h & E & Hp); [lia | lia | cbn; lia |].
  rewrite E. rewrite (line_ok sz Hline len ltac:(lia) R p) by lia.
  destruct (negb (line_at l len p =? 32) || negb (h =? 32)); [discriminate|].
  destruct (skip_spaces_ok sz Hline l len ltac:(lia) (S (N.to_nat (strlen l))) p) as (p' & E' & Hp'); [lia | rewrite Nat2N.inj_succ, N2Nat.id; lia |].
  rewrite E'. rewrite (line_ok sz Hline len ltac:(lia) R p') by lia. discriminate.
Qed.
